#!/usr/bin/env python3
"""Kill matrix: applies each property-breaking change to a scratch worktree of /repo (never /repo itself), runs the
property's quick check against it (VERIF_REPO=<scratch>), records whether it fired, removes the worktree.

  selftest/killmatrix.py [--only NAME_SUBSTR] [--tests] [--jobs N] [--tier quick]
Sources of changes: selftest/mutations.py (hand-written) and seeded/<id>/patch.diff (written by independent sub-agents).
Writes selftest/KILLS.md.
"""
import argparse
import concurrent.futures as cf
import json
import os
import shutil
import subprocess
import sys
import tempfile
import time

HERE = os.path.dirname(os.path.abspath(__file__))
ROOT = os.path.dirname(HERE)
REPO = '/repo'
sys.path.insert(0, HERE)


def sh(cmd, **kw):
    return subprocess.run(cmd, shell=isinstance(cmd, str), capture_output=True, text=True, **kw)


def run_one(item, args):
    name, pid = item['name'], item['pid']
    base = tempfile.mkdtemp(prefix='km_')
    wt = os.path.join(base, 'wt')
    res = {'name': name, 'pid': pid, 'what': item.get('what', ''), 'source': item['source']}
    try:
        r = sh(['git', '-C', REPO, 'worktree', 'add', '-q', '--detach', wt, 'HEAD'])
        if r.returncode:
            res['error'] = 'worktree: ' + r.stderr[-200:]
            return res
        if item['source'] == 'mutation':
            p = os.path.join(wt, item['file'])
            s = open(p).read()
            if item['old'] not in s:
                res['error'] = 'pattern not found'
                return res
            open(p, 'w').write(s.replace(item['old'], item['new'], 1))
        else:
            r = sh(['git', '-C', wt, 'apply', '--whitespace=nowarn', item['patch']])
            if r.returncode:
                res['error'] = 'apply: ' + r.stderr[-300:]
                return res
        if args.tests:
            r = sh(f'cd {wt} && PYTHONPATH={wt}/src /venv/bin/python -m pytest -q -p no:cacheprovider -x 2>&1 | tail -1')
            res['tests'] = r.stdout.strip()[-60:]
        env = dict(os.environ, VERIF_REPO=wt, VERIF_EVIDENCE_DIR=os.path.join(base, 'ev'), VERIF_REPLAY_DIR=os.path.join(base, 'rp'),
                   VERIF_JOBS=str(args.workers), VERIF_SEED=str(args.seed))
        t0 = time.time()
        pids = item.get('pids') or [pid]
        fired = []
        for q in pids:
            r = subprocess.run([os.path.join(ROOT, 'check'), q, '--tier', args.tier], capture_output=True, text=True, env=env, cwd=ROOT)
            lines = [l for l in r.stdout.splitlines() if l.startswith(('VIOLATION', 'INCONCLUSIVE'))]
            fired.append({'check': q, 'exit': r.returncode, 'first': (lines[0].split('#', 1)[-1].strip()[:110] if lines else ''),
                          'n_signatures': len(lines)})
        res['runs'] = fired
        res['wall_s'] = round(time.time() - t0, 1)
    finally:
        sh(['git', '-C', REPO, 'worktree', 'remove', '--force', wt])
        shutil.rmtree(base, ignore_errors=True)
    return res


def main():
    ap = argparse.ArgumentParser()
    ap.add_argument('--only')
    ap.add_argument('--tests', action='store_true')
    ap.add_argument('--jobs', type=int, default=4)
    ap.add_argument('--workers', type=int, default=4)
    ap.add_argument('--tier', default='quick')
    ap.add_argument('--seed', type=int, default=0)
    ap.add_argument('--all-checks', action='store_true', help='run every check against every seeded patch')
    args = ap.parse_args()
    items = []
    import mutations
    for name, pid, f, old, new, what in mutations.M:
        items.append({'name': name, 'pid': pid, 'file': f, 'old': old, 'new': new, 'what': what, 'source': 'mutation'})
    sd = os.path.join(ROOT, 'seeded')
    if os.path.isdir(sd):
        for d in sorted(os.listdir(sd)):
            mp = os.path.join(sd, d, 'meta.json')
            if os.path.exists(mp):
                m = json.load(open(mp))
                if m.get('retired'):
                    continue        # no longer a property-breaking change on the current tree (reason in meta.json)
                items.append({'name': 'seeded/' + d, 'pid': m['property'], 'pids': m.get('checks_to_run'), 'what': m.get('needs', ''),
                              'patch': os.path.join(sd, d, 'patch.diff'), 'source': 'seeded'})
    if args.only:
        items = [i for i in items if args.only in i['name'] or args.only == i['pid']]
    out = []
    with cf.ThreadPoolExecutor(max_workers=args.jobs) as ex:
        for r in ex.map(lambda it: run_one(it, args), items):
            runs = r.get('runs') or []
            st = 'ERROR ' + r.get('error', '') if 'error' in r else ', '.join(f"{x['check']}:{'KILLED' if x['exit'] == 1 else 'exit' + str(x['exit'])}" for x in runs)
            print(f"{r['name']:45s} {st}  {runs[0]['first'] if runs else ''}", flush=True)
            out.append(r)
    sh(['git', '-C', REPO, 'worktree', 'prune'])
    if not args.only:
        with open(os.path.join(HERE, 'KILLS.md'), 'w') as f:
            f.write('# Kill matrix (quick tier, seed %d)\n\n' % args.seed)
            f.write('Each change is applied to a scratch worktree of /repo; the property\'s own quick check is run with VERIF_REPO '
                    'pointing at it.\nKILLED = the check exited 1 with a VIOLATION line.\n\n')
            f.write('| change | property | result | first signature | what it breaks |\n|---|---|---|---|---|\n')
            for r in out:
                runs = r.get('runs') or []
                st = 'ERROR ' + r.get('error', '') if 'error' in r else ', '.join(
                    f"{x['check']}: {'KILLED' if x['exit'] == 1 else 'survived (exit %d)' % x['exit']}" for x in runs)
                first = (runs[0]['first'] if runs else '').replace('|', '\\|')
                f.write(f"| {r['name']} | {r['pid']} | {st} | {first} | {r['what']} |\n")
            k = sum(1 for r in out if any(x['exit'] == 1 for x in r.get('runs', [])))
            f.write(f'\n{k} of {len(out)} changes killed.\n')
    print(json.dumps({'killed': sum(1 for r in out if any(x['exit'] == 1 for x in r.get('runs', []))), 'total': len(out)}))


if __name__ == '__main__':
    main()
