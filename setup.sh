#!/bin/sh
# Offline setup: nothing is fetched.  Contracts library (icontract) is installed beside the repo's interpreter from the
# local wheelhouse when available; every probe has a plain-wrapper fallback, so a failure here is not fatal.
cd "$(dirname "$0")" || exit 1
test -x /venv/bin/python || { echo "missing /venv/bin/python" >&2; exit 1; }
mkdir -p evidence
if [ ! -d .deps/icontract ]; then
  PIP_NO_INDEX=1 /venv/bin/pip install -q --no-index --find-links /opt/veriftools/wheels --target .deps icontract >/dev/null 2>&1 \
    || echo "note: icontract not installed; built-in wrappers will be used"
fi
/venv/bin/python -c "import sys; sys.path.insert(0,'/repo/src'); import bespokeasm, click, yaml, intelhex, packaging" || exit 1
echo setup ok
