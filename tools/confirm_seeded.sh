#!/bin/bash
# confirm_seeded.sh <worktree> <property id> <slug>
# Confirms a sub-agent's property-breaking change myself, then stores it under /verif/seeded/<slug>/:
#   1. the 81 tests pass with the change applied
#   2. the demonstration fails with the change and passes without it
# The stored demo has the worktree path replaced by the variable WT (run it as: WT=<tree> bash demo/demo.sh).
set -u
WT="$1"; PID="$2"; SLUG="$3"
cd "$WT" || exit 2
git diff -- src > /tmp/confirm_$SLUG.patch
[ -s /tmp/confirm_$SLUG.patch ] || { echo "no source change in $WT"; exit 2; }
T=$(PYTHONPATH=$WT/src /venv/bin/python -m pytest -q -p no:cacheprovider 2>&1 | tail -1)
echo "tests with change: $T"
bash demo/demo.sh > /tmp/confirm_$SLUG.with 2>&1; WITH=$?
git checkout -q -- src
bash demo/demo.sh > /tmp/confirm_$SLUG.without 2>&1; WITHOUT=$?
git apply /tmp/confirm_$SLUG.patch
echo "demo with change: exit $WITH ; without: exit $WITHOUT"
case "$T" in *"81 passed"*) ;; *) echo "REJECTED: tests do not pass"; exit 1;; esac
[ $WITH -ne 0 ] && [ $WITHOUT -eq 0 ] || { echo "REJECTED: demo does not discriminate"; exit 1; }
DST=/verif/seeded/$SLUG
rm -rf "$DST"; mkdir -p "$DST"
cp /tmp/confirm_$SLUG.patch "$DST/patch.diff"
cp -r demo "$DST/demo"
find "$DST/demo" -type f \( -name '*.bin' -o -name '*.pyc' \) -delete
# make the demo relocatable
grep -rl "$WT" "$DST/demo" 2>/dev/null | while read f; do sed -i "s|$WT|\${WT}|g" "$f"; done
sed -i '2i WT="${WT:?set WT to the bespokeasm tree to test}"' "$DST/demo/demo.sh" 2>/dev/null
[ -f NOTES.md ] && cp NOTES.md "$DST/NOTES.md"
tail -5 /tmp/confirm_$SLUG.with | cut -c1-300 > "$DST/demo_output_with_change.txt"
echo "stored in $DST"
