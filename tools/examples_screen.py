#!/venv/bin/python
"""Regression screen for fix: commits — assembles every example program of a tree to all five outputs and prints a digest.

usage: examples_screen.py <repo-root> [--json out.json]
Compare the digests of two trees (before / after a fix); every byte difference must be explained in the commit message.
"""
import hashlib
import json
import os
import shutil
import subprocess
import sys
import tempfile

EXT2ISA = {
    '.min64': 'slu4-minimal-64/slu4-minimal-64.yaml',
    '.kb1': 'kenbak-1/kenbak-1-isa.yaml',
    '.min64x4': 'slu4-minimal-64x4/slu4-minimal-64x4.yaml',
    '.sap1': 'ben-eater-sap1/eater-sap1-isa.yaml',
    '.min-asm': 'slu4-minimal-cpu/slu4-minimal-cpu.yaml',
}


def programs(root):
    ex = os.path.join(root, 'examples')
    for dp, dn, fn in sorted(os.walk(ex)):
        for f in sorted(fn):
            e = os.path.splitext(f)[1]
            if e in EXT2ISA:
                yield os.path.join(dp, f), os.path.join(ex, EXT2ISA[e])


def main():
    root = os.path.abspath(sys.argv[1])
    res = {}
    env = dict(os.environ, PYTHONPATH=os.path.join(root, 'src'), PYTHONDONTWRITEBYTECODE='1', PYTHONHASHSEED='0')
    for src, isa in programs(root):
        d = tempfile.mkdtemp(prefix='exs_')
        try:
            rec = {}
            for fmt in ('listing', 'hex', 'intel_hex', 'minhex'):
                out = os.path.join(d, 'o.bin')
                pp = os.path.join(d, 'pp.txt')
                r = subprocess.run(['/venv/bin/python', '-m', 'bespokeasm', 'compile', '-c', isa, src, '-o', out, '-p', '-t', fmt,
                                    '--pretty-print-output', pp, '-I', os.path.dirname(src)],
                                   env=env, capture_output=True, timeout=300)
                rec['exit_' + fmt] = r.returncode
                if r.returncode != 0:
                    rec['err_' + fmt] = r.stderr.decode()[-300:]
                if os.path.exists(out):
                    rec['bin'] = hashlib.sha1(open(out, 'rb').read()).hexdigest()
                    rec['bin_len'] = os.path.getsize(out)
                    os.remove(out)
                if os.path.exists(pp):
                    rec[fmt] = hashlib.sha1(open(pp, 'rb').read().replace(root.encode(), b'<ROOT>')).hexdigest()
                    os.remove(pp)
            res[os.path.relpath(src, root)] = rec
        finally:
            shutil.rmtree(d, ignore_errors=True)
    if '--json' in sys.argv:
        with open(sys.argv[sys.argv.index('--json') + 1], 'w') as f:
            json.dump(res, f, indent=1, sort_keys=True)
    for k, v in sorted(res.items()):
        print(k, json.dumps(v, sort_keys=True))


if __name__ == '__main__':
    main()
