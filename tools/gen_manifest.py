#!/usr/bin/env python3
"""Writes /verif/MANIFEST.json from the table below (one entry per property that has a working check)."""
import json
import os

ROOT = os.path.dirname(os.path.dirname(os.path.abspath(__file__)))
BASELINE = ("cd /repo && /venv/bin/python -m pytest -ra -q -p no:cacheprovider --timeout=900 "
            "--continue-on-collection-errors")

CLAIMED = {
    'C01': dict(
        category='exploration', design_ref='DESIGN.md §3 C01',
        technique='runtime monitoring: reference-model oracle (independent bit-string encoder) over real CLI runs on generated '
                  'ISA definitions; append_bits trace monitor',
        text='Statements synthesised from generated ISA definitions (all operand types, sizes 1..64, endian, alignment, '
             'code positions, reverse options) are assembled by the real CLI; the image bytes at each statement\'s address must '
             'equal the bit string an independent encoder derives from the ISA definition; the exhaustive size x align x endian '
             'x bit-offset grid runs in both tiers; the PackedBits.append_bits trace of every instruction is compared with the '
             'model\'s field list. Held on the executions observed only.',
        note='Trusted: vf/model/encode.py (field order / packing rules listed in evidence.assumptions), the generator\'s '
             'promise of textually disjoint alternatives.'),
    'C08': dict(
        category='exploration', design_ref='DESIGN.md §3 C08',
        technique='runtime monitoring: sequential reference interpreter of the directive stream vs marker bytes in the image '
                  'of real CLI runs; ConditionStack event-log probe',
        text='Generated directive trees (depth<=4; #if with six operators / bare / differing numeral notations / text, #ifdef, '
             '#ifndef, #elif, #else) with a unique marker byte per region and side effects (#define incl. the guard idiom, '
             'labels, constants, #create_memzone, #mute, #include) inside branches followed by probes; the image must equal the '
             'interpreter + layout prediction; stray #else/#elif/#endif must be rejected. thorough: exhaustive small structures '
             'x truth assignments.',
        note='Trusted: vf/model/cond.py; conditions over undefined symbols and includes issued while muted are DONT_CARE.'),
    'C09': dict(
        category='exploration', design_ref='DESIGN.md §3 C09',
        technique='runtime monitoring: whole-word fix-point substitution model + reference evaluator vs probe bytes of real CLI '
                  'runs; resolve_symbols in/out probe',
        text='Symbols from all three definition sources with literal / expression / symbol-chain / diamond / cyclic values; probe '
             'lines mix symbols with constants and labels whose names contain a symbol as prefix, suffix or infix; use before '
             'definition; double definitions across every source pair. Probe bytes must equal evaluate(substitute(line)); used '
             'cycles and double definitions must be rejected (and terminate: step-bounded).',
        note='Trusted: vf/model/subst.py + vf/model/expr.py parser/evaluator; unused cycles are DONT_CARE.'),
    'C10': dict(
        category='exploration', design_ref='DESIGN.md §3 C10',
        technique='runtime monitoring: metamorphic oracle — program with macro invocations vs harness-expanded program, both '
                  'through the real CLI under the same generated ISA',
        text='Generated macro definitions (1..3 variants, 1..4 steps, @ARG/@REG/@OP over numeric, address, relative, register, '
             'indirect-register, enumeration operands; steps that are not whole bytes; address-relative steps; forward/backward '
             'label operands) — the image of the program with macros (including a label probe after them) must equal the image '
             'of the hand-expanded program; unfillable placeholders must be rejected.',
        note='Trusted: the placeholder substitution in vf/oracles/c10.py; encoding of the expanded instructions is the real '
             'assembler\'s (C01 covers it).'),
    'C11': dict(
        category='exploration', design_ref='DESIGN.md §3 C11',
        technique='runtime monitoring: byte-model oracle over real CLI runs of generated data/string/fill programs',
        text='Generated programs of .byte/.2byte/.4byte/.8byte lists, quoted strings with escapes, .cstr/.asciiz, embedded '
             'strings, .fill/.zero/.zerountil are assembled by the real CLI under both endiannesses and terminator values; every '
             'line\'s bytes in the image must equal the byte model. One open known finding (character literal first in a list).',
        note='Trusted: the byte rules in vf/oracles/c11.py + vf/model/layout.py; strings avoid ";" and unescaped delimiters.'),
    'C02': dict(
        category='exploration', design_ref='DESIGN.md §3 C02',
        technique='runtime monitoring: two-pass layout reference model vs the listing address column and label probes in the '
                  'image of real CLI runs; reserved==emitted and zone-cursor invariant probes',
        text='Structured generated programs (labels of three scopes, constants, instructions of differing sizes, data, fills, '
             'origins incl. backward and zone-relative, .align, zone switches, muted and excluded lines, forward/backward label '
             'probes) are assembled by the real CLI; every line\'s listing address and the whole image must equal the layout '
             'model; .align sweep over page sizes x addresses. Held on the executions observed only.',
        note='Trusted: vf/model/layout.py, the fixed layout ISA; labels directly followed by an origin/align/zone directive are '
             'not generated.'),
    'C04': dict(
        category='exploration', design_ref='DESIGN.md §3 C04',
        technique='runtime monitoring: interval-geometry oracle over real CLI runs; placements by every means in random '
                  'source order',
        text='2..6 byte-producing items placed by .org, zone-relative .org, overlapping predefined / source-created zones, '
             '.align, .zerountil and predefined data in every pair geometry and source order; any positive-length overlap must '
             'be rejected, disjoint programs must be accepted with every byte in the image. thorough: exhaustive pairs grid.',
        note='Trusted: interval arithmetic in vf/model/layout.py; zero-length-inside and muted overlaps are DONT_CARE.'),
    'C03': dict(
        category='exploration', design_ref='DESIGN.md §3 C03',
        technique='runtime monitoring: memory-map model oracle over real CLI runs with start/end/fill windows; audit-hook '
                  'monitor of write-opens',
        text='Sparse generated programs (shuffled origins, multi-byte and zero-length lines, muted regions, predefined data, '
             'varied last line) are assembled by the real CLI under boundary-driven -s/-e/-f windows; the file must equal '
             '[M.get(a, fill) for a in start..end] for the model memory map M. thorough adds an exhaustive (start,end) grid '
             'over 20 fixed programs. Held on the executions observed only.',
        note='Trusted: vf/model/layout.py and the fixed layout ISA encoder; overlapping programs are out of scope here.'),
    'C05': dict(
        category='exploration', design_ref='DESIGN.md §3 C05',
        technique='runtime monitoring: zone reference model (cursor per zone, containment) over real CLI runs; marker bytes '
                  'per stretch; MemoryZone cursor invariant probe',
        text='Generated zone layouts (plain, adjacent, overlapping, nested, top-of-memory, redefined GLOBAL, source-created '
             'valid and invalid zones, invalid ISA zones) and programs switching zones by every means, with boundary lines '
             'ending exactly at / one past zone and GLOBAL ends and includes issued from inside a zone; rejection expected iff '
             'a byte leaves its zone/GLOBAL or a zone declaration is invalid, else the image must equal the model map.',
        note='Trusted: vf/model/layout.py zone rules; parked cursors outside a zone without bytes are DONT_CARE.'),
    'C06': dict(
        category='exploration', design_ref='DESIGN.md §3 C06',
        technique='runtime monitoring: lexical-scope reference model vs `.2byte <ref>` probe bytes of real CLI runs over 1..4 '
                  'files; LabelScope lookup-log probe',
        text='Generated multi-file programs reuse the same local names across regions/files and the same file-label names across '
             'files; every definition sits at a distinct address so probe bytes identify the definition used; one planted illegal '
             'site per program (cross-region / cross-file / after-.org|.memzone reference, undefined name, duplicate per scope, '
             'orphan local, register/keyword name) must be rejected.',
        note='Trusted: the scope model in vf/oracles/c06.py (resolve_program) and vf/model/layout.py.'),
    'C07': dict(
        category='exploration', design_ref='DESIGN.md §3 C07',
        technique='runtime monitoring: reference-model oracle (exact-arithmetic evaluator + independent grammar recogniser) '
                  'over executions of the real expression parser, CLI and direct channel',
        text='Every generated well-formed expression is evaluated by the real code (through `.8byte` lines of real CLI runs and '
             'through direct calls of parse_expression().get_value() in forked children) and compared with an exact Fraction '
             'evaluator; every ill-formed token sequence must be rejected. Held on the executions observed only.',
        note='Trusted: the 150-line reference evaluator/recogniser in vf/model/expr.py; domain restrictions listed in '
             'evidence.assumptions are DONT_CARE.'),
    'C12': dict(
        category='exploration', design_ref='DESIGN.md §3 C12',
        technique='runtime monitoring: boundary-value constraint model (reference encoder) over one-statement real CLI runs',
        text='For every constraint kind (numeric_bytecode and relative min/max from start and from end, numeric enumeration '
             'membership, address / valid_address zone bounds for GLOBAL, redefined GLOBAL and a named zone, sliced addresses '
             'across 2^k boundaries, field widths 1..64 signed/unsigned bounds for arguments, operand codes, indirect offsets and '
             'relative offsets) the values on and next to each boundary are assembled one per run: reject iff a constraint is '
             'violated, else the bytes must be the reference encoding. thorough sweeps every width 1..64.',
        note='Trusted: vf/model/encode.py constraint rules; n-bit field accepts -2^(n-1) <= v < 2^n.'),
    'C13': dict(
        category='exploration', design_ref='DESIGN.md §3 C13',
        technique='runtime monitoring: documented-priority selection model + reference encoder over real CLI runs on '
                  'deliberately ambiguous generated ISA definitions; variant/alternative trial-order probe',
        text='Ambiguous definitions (several variants / a specific list and a set / overlapping alternatives accepting the same '
             'text, disallowed pairs) with distinct opcodes and codes; statements over every operand text class incl. register '
             'names in numeric positions, wrong operand counts, mixed-case mnemonics; the image must carry the encoding of the '
             'first accepting candidate in the documented order, or the statement must be rejected when none accepts.',
        note='Trusted: acceptance table and priority classes in vf/oracles/c13.py; ties inside one priority class are DONT_CARE.'),
    'C14': dict(
        category='fault_enumeration', design_ref='DESIGN.md §3 C14',
        technique='runtime monitoring: bounded-progress monitor (sys.monitoring LINE step counter on the engine loops, RLIMIT_CPU '
                  'backstop) + fail-closed oracle over a catalogue of corrupted programs (sentinel image, open() audit hook)',
        text='Valid generated programs and example programs are put through 17 corruption kinds at first / middle / last '
             'positions, with and without each pretty-print format; every real CLI run must end within B = 200 x lines + 60000 '
             'monitored steps, report success only with an image written and failure only with the pre-placed sentinel image '
             'untouched and never opened for writing; planted unresolvable labels, unknown instructions, unmatched operand '
             'shapes and out-of-range values must fail.',
        note='Termination is restated as bounded progress (no finite run decides liveness); wall-clock timeouts are '
             'inconclusive.'),
    'C15': dict(
        category='exploration', design_ref='DESIGN.md §3 C15',
        technique='runtime monitoring: byte-identity of all outputs across interpreter hash seeds (one zygote pool per seed), '
                  'environment / working-directory / include-order permutations; set-iteration-order probe',
        text='Generated-ISA programs, multi-file programs with up to 3 include directories and the example programs are '
             'assembled to the image and the four formats under 8 hash seeds (incl. random), 3 environments, other working '
             'directories with absolute arguments, and every permutation / duplicate / symlink alias of the include directories; '
             'all outputs must equal the baseline run\'s. The probe reports how many distinct set iteration orders occurred.',
        note='Trusted: scratch-path normalisation; BESPOKEASM_* variables are inputs and never set.'),
    'C16': dict(
        category='exploration', design_ref='DESIGN.md §3 C16',
        technique='runtime monitoring: independent format decoders (Intel HEX, hex dump, compact hex, listing) vs the layout '
                  'model map and the image of real CLI runs; relational check on the repository\'s example programs',
        text='Sparse / structured / multi-file / tiny-address-space generated programs are assembled once per format; each '
             'decoded address->byte map must equal the model memory map (muted lines contribute to none), the image must equal '
             'the model image, and the listing must show every unmuted statement exactly once with its model address and bytes. '
             'The example programs are checked relationally (all formats and the image agree).',
        note='Trusted: vf/model/formats.py decoders (format assumptions in evidence.assumptions), vf/model/layout.py.'),
    'C17': dict(
        category='exploration', design_ref='DESIGN.md §3 C17',
        technique='runtime monitoring: metamorphic file-splitting oracle (split == unsplit == layout model) plus zone/scope '
                  'continuation model and negative include cases on real CLI runs; audit-hook probe of include opens',
        text='Structured programs are split at admissible line boundaries into 2..5 files (nested includes, 1..3 include '
             'directories) and must assemble to the image of the unsplit program; includers inside a named zone / local region '
             'must continue there after an include that itself starts in GLOBAL under a fresh file scope; a file included twice '
             '(directly, transitively, itself), a missing file and a name found in two search directories must be rejected.',
        note='Trusted: the admissibility rules of the split (vf/oracles/c17.py), vf/model/layout.py.'),
    'C18': dict(
        category='exploration', design_ref='DESIGN.md §3 C18',
        technique='runtime monitoring: metamorphic surface-rewrite oracle — canonical vs rewritten renderings of one program '
                  'AST through the real CLI',
        text='Each generated program AST is rendered canonically and 17 (quick) / 29 (thorough) times with rewrites (mnemonic '
             'and register case, space/tab runs in every token gap, indentation, blank lines, full-line and trailing comments, '
             'label placement, joined instructions) — every kind alone, all together and random subsets; each rendering must '
             'assemble to the canonical image.',
        note='Trusted: the renderer in vf/oracles/c18.py only applies the rewrites the statement lists.'),
    'C19': dict(
        category='fault_enumeration', design_ref='DESIGN.md §3 C19',
        technique='runtime monitoring: single-fault catalogue over well-formed generated definitions + independent semantic-'
                  'version model; exit status of real CLI runs',
        text='Well-formed definitions of four styles (JSON and YAML) must be accepted; each applicable single fault of a 23-entry '
             'catalogue must be rejected; min_version over a grid whose numeric and lexical orders differ and #require over five '
             'operators x a version grid x matching / non-matching names are judged by an independent semver ordering.',
        note='Trusted: the fault catalogue and semver model in vf/oracles/c19.py; running/minimum versions are read from '
             'src/bespokeasm/__init__.py as data.'),
    'C20': dict(
        category='exploration', design_ref='DESIGN.md §3 C20',
        technique='runtime monitoring: structural parsers (json / yaml / plist / xml / zip) and regex classification probes over '
                  'the files written by real `generate-extension` runs',
        text='For generated vocabularies (mnemonics that are prefixes of one another, contain ".", digits, single letters; with '
             'and without macros, registers, predefined names) both editor packages are generated by the real CLI; every file '
             'must parse, no template placeholder may remain, and the extracted instruction / macro / register / directive / '
             'data-type / preprocessor patterns must classify every vocabulary word (both cases) over exactly its own span and '
             'no near-miss identifier.',
        note='Trusted: vf/post_c20.py inspector; Python re stands in for Oniguruma / Sublime regex on the constructs used.'),
}

NOT_APPLICABLE = {}


def main():
    props = [json.loads(l) for l in open(os.path.join(ROOT, 'properties.jsonl'))]
    checks = []
    na = []
    for p in props:
        pid = p['id']
        if pid in CLAIMED:
            c = CLAIMED[pid]
            checks.append({
                'property_id': pid,
                'quick_cmd': f'./check {pid} --tier quick',
                'thorough_cmd': f'./check {pid} --tier thorough',
                'evidence_file': f'evidence/{pid}.json',
                'replay_cmd_template': f'./check {pid} --replay {{path}}',
                'engine': 'vf',
                'level_claimed': {'category': c['category'], 'text': c['text'], 'design_ref': c['design_ref']},
                'level_note': c['note'],
                'technique': c['technique'],
            })
        else:
            na.append({'property_id': pid,
                       'reason': NOT_APPLICABLE.get(pid, 'check not built yet (runtime monitoring applies; see DESIGN.md §3); '
                                                         'not claimed until its check runs clean on the unchanged tree')})
    man = {
        'version': 1,
        'setup_cmd': './setup.sh',
        'hooks': {
            'guard': 'BESPOKEASM_VERIF',
            'enable': 'set by ./check inside the forked child that runs bespokeasm; the probes wrap the real functions from the '
                      'harness (vf/probes.py) — there is no source patch in /repo',
            'baseline_off_cmd': BASELINE,
            'source_commits': [],
            'add_only': True,
        },
        'engines': [{'name': 'vf', 'path': 'vf/', 'serves_properties': sorted(CLAIMED),
                     'kind_free_text': 'zygote+fork executor observing real bespokeasm runs at the CLI boundary, reference-model '
                                       'and metamorphic oracles, white-box probes (wrappers, sys.monitoring, audit hook)'}],
        'checks': checks,
        'not_applicable': na,
        'notes': 'Technique family: runtime monitoring. Exit 0 = held on everything observed; 1 = VIOLATION line(s); 2 = '
                 'INCONCLUSIVE (harness fault / required observation missing). known_findings.json is the committed ledger.',
    }
    with open(os.path.join(ROOT, 'MANIFEST.json'), 'w') as f:
        json.dump(man, f, indent=1)
    print('claimed', len(checks), 'not claimed', len(na))


if __name__ == '__main__':
    main()
