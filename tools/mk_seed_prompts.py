#!/usr/bin/env python3
"""mk_seed_prompts.py <round-tag> [PID ...]  : create one scratch worktree of /repo per property under /tmp/sf_<PID> and write
the task text for a fresh sub-agent to /tmp/sf_prompt_<PID>.txt.  The sub-agent sees the property text, its worktree and
one-line descriptions of the ideas already used by earlier agents (from seeded/<PID>-agent*/meta.json 'needs') - nothing
from /verif.  Afterwards: tools/take_seeded.sh /tmp/sf_<PID> <PID> <PID>-<round-tag> "<needs>" and
git -C /repo worktree remove --force /tmp/sf_<PID>."""
import glob
import json
import os
import subprocess
import sys

VERIF = os.path.dirname(os.path.dirname(os.path.abspath(__file__)))
tag = sys.argv[1]
want = sys.argv[2:]
props = [json.loads(l) for l in open(os.path.join(VERIF, 'properties.jsonl'))]
for p in props:
    pid = p['id']
    if want and pid not in want:
        continue
    wt = f'/tmp/sf_{pid}'
    if not os.path.isdir(wt):
        subprocess.run(['git', '-C', '/repo', 'worktree', 'add', '--detach', wt, 'HEAD'], check=True, capture_output=True)
    earlier = []
    for m in sorted(glob.glob(os.path.join(VERIF, 'seeded', pid + '-agent*', 'meta.json'))):
        earlier.append(json.load(open(m)).get('needs', ''))
    text = f"""{p['title']}

{p['statement']}

(Quantified over: {p['quantifier']['text']})"""
    open(os.path.join(wt, 'PROPERTY.txt'), 'w').write(text + '\n')
    ideas = '\n'.join(f'  {i + 1}. "{e}"' for i, e in enumerate(earlier))
    prompt = f"""You are helping test a verification harness for the open-source assembler "bespokeasm" (a configurable two-pass assembler in Python: YAML/JSON-defined ISA, operand matching, expression parser, label scopes, preprocessor conditionals, macros, memory zones, bit-packed bytecode output).

You have your own scratch git worktree of the repository at: {wt}
Work ONLY inside that directory. Do not read, list or touch /verif or /repo or any other /tmp/s?_* directory. IMPORTANT: never use `git stash` (the stash is shared between worktrees and other agents are working in parallel) - to test the unmodified code use `git diff -- src > /tmp/{pid}.patch; git apply -R /tmp/{pid}.patch; <run>; git apply /tmp/{pid}.patch`. The package source is under {wt}/src/bespokeasm, docs under {wt}/docs, tests under {wt}/test. To run the code from this worktree always use:  cd {wt} && PYTHONPATH={wt}/src /venv/bin/python -m bespokeasm ...   and to run the existing test suite:  cd {wt} && PYTHONPATH={wt}/src /venv/bin/python -m pytest -q -p no:cacheprovider   (81 tests, they must all still pass after your change). There is no network.

The property under test (also in {wt}/PROPERTY.txt):

---
{text}
---

YOUR TASK: write ONE small, realistic source change to bespokeasm (the kind of regression a plausible refactor, optimisation or "bug fix" could introduce) that BREAKS this property while
  (a) the package still imports and the CLI still works,
  (b) all 81 existing tests still pass,
  (c) ordinary everyday use would NOT expose it at once: it must need something specific to manifest - an unusual input, a boundary value, a multi-step sequence, a particular combination of configuration options or command-line flags, a rarely used operand type or directive, or a specific ordering.
Do not make the change depend on magic values, environment variables invented for the purpose, random numbers or the clock (unless the property itself is about those); it must look like honest code.

Earlier agents working on this same property already used the following ideas, so choose a DIFFERENT clause of the property, a different code site and a different trigger from all of them:
{ideas}
Read the property sentence by sentence and pick a clause or a quantified dimension those did not touch; look at code paths far from the obvious one (other operand types, other directives, other output formats, configuration options, YAML vs JSON definitions, option combinations on the command line, interactions between features such as includes + conditionals + macros + zones + muting).

Then write a DEMONSTRATION: a small self-contained script {wt}/demo/demo.sh (bash; it may write an ISA config + .asm files under {wt}/demo/ and call the CLI with PYTHONPATH set as above, or run a small python program) that exits 0 when the property holds for its input and exits non-zero (printing what went wrong) when the property is violated. It must FAIL (non-zero) with your change applied and PASS (zero) on the unmodified code (verify both). The demo must decide by comparing against the value the PROPERTY prescribes (computed by hand in the script), not merely against the old output.

Finally produce, in {wt}:
  - patch.diff   : `git diff -- src` of your change only (no demo files)
  - demo/        : the demonstration
  - NOTES.md     : 5-10 lines: what the change does, why existing tests miss it, what exactly is needed for it to manifest.
Leave your source change APPLIED in the worktree when you finish. Reply with a 3-line summary (what you changed, what triggers it, demo result on changed/unchanged code).
"""
    open(f'/tmp/sf_prompt_{pid}.txt', 'w').write(prompt)
    print(pid, wt, len(earlier), 'earlier ideas')
