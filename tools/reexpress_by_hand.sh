#!/bin/bash
# reexpress.sh <slug> : a stored seeded patch no longer applies because a later repair in /repo touched neighbouring lines.
# Re-apply it by three-way merge on a scratch worktree of the current tree, re-confirm it (81 tests pass, the demonstration
# fails with it and passes without it) and store the re-expressed patch in its place (noted in meta.json).
SLUG="$1"; D=/verif/seeded/$SLUG; WT=/tmp/rx_$SLUG
git -C /repo worktree add --detach $WT HEAD >/dev/null 2>&1 || exit 2
cd $WT
if ! python3 "$2"; then echo "edit failed"; cd /; git -C /repo worktree remove --force $WT; exit 1; fi

cp -r $D/demo $WT/demo
T=$(PYTHONPATH=$WT/src /venv/bin/python -m pytest -q -p no:cacheprovider 2>&1 | tail -1)
WT=$WT bash demo/demo.sh >/dev/null 2>&1; W=$?
git diff -- src > /tmp/rx_new.patch
git checkout -q -- src
WT=$WT bash demo/demo.sh >/dev/null 2>&1; WO=$?
echo "$SLUG: tests: $T ; demo with=$W without=$WO"
cd /
git -C /repo worktree remove --force $WT
case "$T" in *"81 passed"*) ;; *) exit 1;; esac
[ $W -ne 0 ] && [ $WO -eq 0 ] || exit 1
cp /tmp/rx_new.patch $D/patch.diff
python3 - "$D" <<'P'
import json,sys
p=sys.argv[1]+'/meta.json'; m=json.load(open(p))
n="re-expressed on the current tree by hand after a later repair in /repo changed neighbouring lines; re-confirmed with the sub-agent's own demonstration (tools/reexpress.sh)"
if n not in m.get('note',''): m['note']=(m.get('note','')+' | ' if m.get('note') else '')+n
json.dump(m,open(p,'w'),indent=1)
P
