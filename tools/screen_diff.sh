#!/bin/sh
# compares against tools/examples_expected.json (digests after the last accepted fix); refresh it with: cp /tmp/ex_now.json tools/examples_expected.json
# usage: screen_diff.sh  — assembles /repo's examples and diffs the digests against the pinned-tree baseline
/venv/bin/python /verif/tools/examples_screen.py /repo --json /tmp/ex_now.json >/dev/null
/venv/bin/python - <<'P'
import json
a=json.load(open('/verif/tools/examples_expected.json')); b=json.load(open('/tmp/ex_now.json'))
n=0
for k in sorted(set(a)|set(b)):
    for f in sorted(set(a.get(k,{}))|set(b.get(k,{}))):
        if a.get(k,{}).get(f)!=b.get(k,{}).get(f):
            n+=1; print('DIFF',k,f,a.get(k,{}).get(f),'->',b.get(k,{}).get(f))
print('differences:',n)
P
