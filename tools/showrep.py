#!/usr/bin/env python3
"""Summarise replay directories: tools/showrep.py C01 [n]"""
import json, os, sys
pid = sys.argv[1]
base = os.path.join(os.path.dirname(os.path.dirname(os.path.abspath(__file__))), 'replays', pid)
for d in sorted(os.listdir(base))[:int(sys.argv[2]) if len(sys.argv) > 2 else 100]:
    r = json.load(open(os.path.join(base, d, 'case.json')))
    det = r['detail']
    print(d, r['signature'], {k: str(v)[:260] for k, v in det.items()})
