#!/bin/bash
# tools/sweep.sh "<tiers>" "<seeds>" [ids...]  — runs checks on the unchanged tree, prints one line per run; evidence/replays
# are redirected so nothing committed is overwritten.
cd "$(dirname "$0")/.." || exit 2
TIERS=${1:-"quick thorough"}; SEEDS=${2:-"0 1 2"}; shift 2
IDS=${*:-"C01 C02 C03 C04 C05 C06 C07 C08 C09 C10 C11 C12 C13 C14 C15 C16 C17 C18 C19 C20"}
export VERIF_EVIDENCE_DIR=$(mktemp -d) VERIF_REPLAY_DIR=$(mktemp -d)
bad=0
for t in $TIERS; do for s in $SEEDS; do for id in $IDS; do
  out=$(./check $id --tier $t --seed $s 2>&1); rc=$?
  echo "$id $t seed=$s exit=$rc $(echo "$out" | tail -1 | sed 's/.*verdicts=//' | cut -c1-150)"
  if [ $rc -ne 0 ]; then bad=$((bad+1)); echo "$out" | grep -E "VIOLATION|INCONCLUSIVE" | head -5; fi
done; done; done
echo "non-zero exits: $bad   (replays, if any, under $VERIF_REPLAY_DIR)"
