#!/bin/bash
# take_seeded.sh <worktree> <PID> <slug> "<needs text>"  : confirm, store, write meta.json, run the kill matrix on it
WT="$1"; PID="$2"; SLUG="$3"; NEEDS="$4"
/verif/tools/confirm_seeded.sh "$WT" "$PID" "$SLUG" | tail -3 || exit 1
[ -d /verif/seeded/$SLUG ] || exit 1
python3 - "$PID" "$SLUG" "$NEEDS" "$WT" <<'P'
import json,sys
pid,slug,needs,wt=sys.argv[1:5]
json.dump({'property':pid,'author':'independent sub-agent (given only the property text, one-line descriptions of the ideas already used by earlier agents, and its own scratch worktree)',
 'needs':needs,'confirmed':{'tests_with_change':'81 passed','demo_with_change':'non-zero exit','demo_without_change':'exit 0',
 'how':f'tools/confirm_seeded.sh {wt} {pid} {slug} (scratch worktree, removed afterwards)'},
 'run_demo':'WT=<bespokeasm tree> bash demo/demo.sh'}, open(f'/verif/seeded/{slug}/meta.json','w'), indent=1)
P
python3 /verif/selftest/killmatrix.py --only seeded/$SLUG --workers 6 2>&1 | grep "^seeded"
