"""Runtime-monitoring framework for the bespokeasm properties (see /verif/DESIGN.md)."""
