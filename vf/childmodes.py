"""Alternative things the forked child can do instead of the CLI entry point (volume channels)."""
import json
import os
import sys


def mode_expr(spec, d, probe_state):
    """Direct channel for C07: parse_expression(...).get_value(...) for many expressions in one child.

    spec['exprs'] : list of expression texts;  spec['labels'] : {name: value} bound in a harness global scope.
    Result per expression: {'v': int} | {'err': <exception class>, 'msg': ...}
    """
    from bespokeasm.expression import parse_expression
    from bespokeasm.assembler.label_scope import LabelScope, LabelScopeType, GlobalLabelScope
    from bespokeasm.assembler.line_identifier import LineIdentifier
    scope = GlobalLabelScope(set(spec.get('registers') or []))
    lid = LineIdentifier(1, 'expr')
    for k, v in (spec.get('labels') or {}).items():
        scope.set_label_value(k, v, lid, scope=LabelScopeType.GLOBAL)
    res = []
    for text in spec['exprs']:
        try:
            v = parse_expression(lid, text).get_value(scope, lid)
            if isinstance(v, int) and v.bit_length() > 512:
                res.append({'v': f'<int of {v.bit_length()} bits>'})
            else:
                res.append({'v': v if isinstance(v, int) else repr(v)})
        except SystemExit as e:
            res.append({'err': 'SystemExit', 'msg': str(e.code)[:200]})
        except RecursionError as e:
            res.append({'err': 'RecursionError', 'msg': ''})
        except Exception as e:
            res.append({'err': type(e).__name__, 'msg': str(e)[:200]})
    with open(os.path.join(d, 'expr_results.json'), 'w') as f:
        json.dump(res, f)
    return 0


MODES = {'expr': mode_expr}
