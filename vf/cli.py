"""./check dispatcher."""
import importlib
import sys

from vf import core


def by_id(pid):
    pid = pid.upper()
    mod = importlib.import_module(f'vf.oracles.{pid.lower()}')
    return getattr(mod, pid)()


if __name__ == '__main__':
    core.main(by_id)
