"""Check driver: generate -> run -> judge -> confirm through the true CLI -> classify -> evidence / replays."""
import concurrent.futures as cf
import hashlib
import json
import os
import random
import sys
import time
import traceback

from vf import runner

VERIF_ROOT = runner.VERIF_ROOT
LEDGER = os.path.join(VERIF_ROOT, 'known_findings.json')


class Verdict:
    __slots__ = ('status', 'sig', 'detail', 'mech', 'buckets', 'nt')

    def __init__(self, status, sig='', detail=None, mech=None, buckets=(), nt=None):
        self.status = status          # held | violated | dont_care | inconclusive
        self.sig = sig                # de-duplication signature of a violation (class of discrepancy)
        self.detail = detail or {}
        self.mech = mech              # candidate known-finding slug (decided by defect emulation in the oracle)
        self.buckets = buckets        # feature buckets this observation filled
        self.nt = nt                  # key of a distinct non-trivial observation (or None)


def held(buckets=(), nt=None):
    return Verdict('held', buckets=buckets, nt=nt)


def violated(sig, detail=None, mech=None, buckets=(), nt=None):
    return Verdict('violated', sig, detail, mech, buckets, nt)


def dont_care(why='', buckets=()):
    return Verdict('dont_care', why, buckets=buckets)


def inconclusive(why, detail=None):
    return Verdict('inconclusive', why, detail)


def rng_for(seed, pid, *path):
    return random.Random(f'{seed}/{pid}/' + '/'.join(str(p) for p in path))


def load_ledger():
    try:
        with open(LEDGER) as f:
            return json.load(f)
    except FileNotFoundError:
        return {'findings': []}


def open_findings(pid):
    return {e['slug']: e for e in load_ledger().get('findings', []) if e.get('property') == pid and
            e.get('status') == 'open'}


class Check:
    pid = 'C00'
    level = 'exploration'
    rule = ''
    assumptions = ()
    required_buckets = {}        # bucket -> minimum count (tier-independent minimum; see min_count())
    crosscheck_every = {'quick': 40, 'thorough': 25}
    chunk = 1500

    def min_count(self, tier):
        return 3 if tier == 'quick' else 10

    # a program that has to be rejected is rejected whatever outputs were asked for: every n-th such case of a check that names
    # its rejecting cases (no_image_reject = function case -> bool) also runs with -n (no image), where nothing but the
    # verdict is left to observe
    no_image_reject = None
    no_image_every = 3

    def all_cases(self, tier, seed):
        k = 0
        for c in self.cases(tier, seed):
            if self.no_image_reject is not None and len(c['runs']) == 1 and self.no_image_reject(c):
                k += 1
                argv = c['runs'][0].get('argv') or []
                if k % self.no_image_every == 0 and argv[:1] == ['compile'] and '-n' not in argv:
                    c['runs'][0]['argv'] = argv + ['-n']
                    c['tags'] = sorted(set(c.get('tags') or []) | {'rejecting-program-without-image-output'})
            yield c

    def cases(self, tier, seed):
        """Yield cases: {'runs': [spec, ...], 'meta': {...}, 'tags': [...]}."""
        raise NotImplementedError

    def judge(self, case, outcomes):
        """Return a list of Verdicts for one case given the outcomes of its runs."""
        raise NotImplementedError

    def sample_of(self, case, outcomes):
        """A human-readable sample of a case for the evidence file."""
        r0 = case['runs'][0]
        o0 = outcomes[0]
        src = {k: v for k, v in (r0.get('files') or {}).items() if not k.startswith('isa.')}
        return {'argv': r0.get('argv'), 'files': {k: v[:1500] for k, v in list(src.items())[:3]},
                'exit': o0.get('exit'), 'outputs': {k: (v[:200] if isinstance(v, str) else v)
                                                    for k, v in list((o0.get('files') or {}).items())[:3]},
                'tags': case.get('tags', [])[:12]}

    def extra_evidence(self):
        return {}

    def final_problems(self):
        """Reasons (strings) why this run must not be reported as 'held' although nothing was violated."""
        return []


INTERPRETER_VARS = ('PYTHONOPTIMIZE', 'PYTHONWARNINGS', 'PYTHONDEVMODE')


class Pools:
    def __init__(self):
        self.pools = {}

    def get(self, hashseed, n=None):
        # key: '<hash seed>' or '<hash seed>|NAME=value|...' (variables the interpreter reads when it starts)
        key = str(hashseed)
        if key not in self.pools:
            hs, *extra = key.split('|')
            self.pools[key] = runner.Pool(n=n, hashseed=hs, extra_env=dict(e.split('=', 1) for e in extra) or None)
        return self.pools[key]

    def close(self):
        for p in self.pools.values():
            p.close()


def _run_all(pools, specs):
    """Runs specs (each may carry 'hashseed') and returns outcomes in order."""
    by_seed = {}
    for i, s in enumerate(specs):
        key = str(s.get('hashseed', '0'))
        for name in INTERPRETER_VARS:
            # read by the interpreter when it starts: setting it in the forked child would change nothing, so such runs get
            # their own workers started with it
            if name in (s.get('env') or {}) and s['env'][name] is not None:
                key += f'|{name}={s["env"][name]}'
        by_seed.setdefault(key, []).append(i)
    outs = [None] * len(specs)
    for hs, idxs in by_seed.items():
        nw = None
        if len(by_seed) > 1:
            nw = max(2, min(16, 16 // min(len(by_seed), 4)))
        pool = pools.get(hs, n=nw)
        rs = pool.map([specs[i] for i in idxs])
        for i, r in zip(idxs, rs):
            outs[i] = r
    return outs


def case_hash(case):
    return hashlib.sha1(json.dumps(case, sort_keys=True, default=str).encode()).hexdigest()[:12]


def write_replay(pid, case, outcomes, verdict, cli_outcomes=None):
    h = case_hash({'runs': case['runs'], 'sig': verdict.sig})
    d = os.path.join(os.environ.get('VERIF_REPLAY_DIR') or os.path.join(VERIF_ROOT, 'replays'), pid, h)
    os.makedirs(d, exist_ok=True)
    with open(os.path.join(d, 'case.json'), 'w') as f:
        json.dump({'property': pid, 'case': case, 'signature': verdict.sig, 'mechanism': verdict.mech,
                   'detail': verdict.detail}, f, indent=1, default=str)
    for i, r in enumerate(case['runs']):
        rd = os.path.join(d, f'run{i}')
        os.makedirs(rd, exist_ok=True)
        for rel, text in (r.get('files') or {}).items():
            p = os.path.join(rd, rel)
            os.makedirs(os.path.dirname(p), exist_ok=True)
            with open(p, 'wb') as f:
                f.write(text.encode('utf-8', 'surrogateescape'))
        with open(os.path.join(rd, 'CMD'), 'w') as f:
            f.write('cd %s && PYTHONPATH=%s/src %s -m bespokeasm %s\n' % (
                r.get('cwd', '.'), runner.repo_root(), runner.PY, ' '.join(_shq(a) for a in r.get('argv', []))))
    with open(os.path.join(d, 'outcome.json'), 'w') as f:
        json.dump({'fork': _trim(outcomes), 'cli': _trim(cli_outcomes)}, f, indent=1, default=str)
    return os.path.relpath(d, VERIF_ROOT) if d.startswith(VERIF_ROOT) else d


def _shq(a):
    import shlex
    return shlex.quote(a)


def _trim(outs):
    if outs is None:
        return None
    res = []
    for o in outs:
        o = dict(o)
        o.pop('probes', None)
        res.append(o)
    return res


def _validate_evidence(ev):
    need = ['property_id', 'tier', 'seed', 'level', 'coverage', 'wall_s']
    for k in need:
        assert k in ev, k
    c = ev['coverage']
    assert isinstance(c['evaluations'], int) and c['evaluations'] >= 1
    assert isinstance(c['distinct_nontrivial'], int)
    assert isinstance(c['rule'], str)
    assert isinstance(c['samples'], list)


def run_check(check, tier, seed, replay=None):
    t0 = time.time()
    pid = check.pid
    if replay:
        return run_replay(check, replay)
    pools = Pools()
    ledger_open = open_findings(pid)
    stats = {'held': 0, 'violated': 0, 'dont_care': 0, 'inconclusive': 0}
    buckets = {}
    nt = set()
    n_runs = 0
    n_cases = 0
    samples = []
    viol = {}           # sig -> (case, outcomes, verdict, count)
    known_hits = {}     # slug -> count
    inconc = {}
    dc_reasons = {}
    cross = {'checked': 0, 'mismatch': 0}
    cross_jobs = []
    every = check.crosscheck_every.get(tier, 40)
    probe_events = {}
    unavailable = set()
    cpu = []
    executor = cf.ThreadPoolExecutor(max_workers=8)
    harness_errors = []
    anchor_files = anchor_files_of(pid)
    reach_every = 15
    reach_ctr = [0]
    reach_hits = {}
    try:
        batch = []
        batch_runs = 0

        def flush():
            nonlocal n_runs, n_cases, batch, batch_runs
            if not batch:
                return
            specs = []
            for c in batch:
                for r in c['runs']:
                    reach_ctr[0] += 1
                    if anchor_files and reach_ctr[0] % reach_every == 1 and r.get('mode', 'cli') == 'cli':
                        r = dict(r, probes=list(r.get('probes') or []) + ['reach'], reach_files=anchor_files)
                    specs.append(r)
            outs = _run_all(pools, specs)
            k = 0
            for c in batch:
                oc = outs[k:k + len(c['runs'])]
                k += len(c['runs'])
                n_cases += 1
                for r, o in zip(c['runs'], oc):
                    n_runs += 1
                    if 'harness_error' in o:
                        harness_errors.append(o['harness_error'])
                        continue
                    if o.get('exit') == runner_harness_exit():
                        harness_errors.append('child harness failure: ' + o.get('stderr', '')[-400:])
                    cpu.append(o.get('cpu_s', 0))
                    for pn, pv in (o.get('probes') or {}).items():
                        if pn == '_unavailable':
                            unavailable.update(pv)
                            continue
                        if pn == 'reach':
                            for f_, ls_ in (pv.get('lines') or {}).items():
                                reach_hits.setdefault(f_, set()).update(ls_)
                            continue
                        probe_events[pn] = probe_events.get(pn, 0) + _probe_count(pn, pv)
                    if r.get('mode', 'cli') == 'cli' and every and (n_runs % every == 0):
                        cross_jobs.append((r, o, executor.submit(runner.run_true_cli, r, r.get('hashseed', '0'))))
                if any('harness_error' in o for o in oc):
                    continue
                try:
                    vs = check.judge(c, oc)
                except Exception:
                    harness_errors.append('judge failed: ' + traceback.format_exc()[-1500:])
                    continue
                ctags = set(c.get('tags', []))
                judged = any(v.status in ('held', 'violated') for v in vs)
                if judged:
                    for t in ctags:
                        buckets[t] = buckets.get(t, 0) + 1
                for v in vs:
                    stats[v.status] += 1
                    if v.status == 'dont_care':
                        dc_reasons[v.sig] = dc_reasons.get(v.sig, 0) + 1
                    elif v.status == 'inconclusive':
                        inconc[v.sig] = inconc.get(v.sig, 0) + 1
                    if v.status not in ('held', 'violated'):
                        continue
                    for b in v.buckets:
                        if b not in ctags:
                            buckets[b] = buckets.get(b, 0) + 1
                    if v.nt is not None and v.status in ('held', 'violated'):
                        nt.add(v.nt)
                    if v.status == 'violated':
                        key = (v.mech or '') + '|' + v.sig
                        if key not in viol:
                            viol[key] = [c, oc, v, 0]
                        viol[key][3] += 1
                if len(samples) < 3 and vs and any(v.status == 'held' for v in vs):
                    try:
                        samples.append(check.sample_of(c, oc))
                    except Exception:
                        pass
            batch = []
            batch_runs = 0

        for c in check.all_cases(tier, seed):
            batch.append(c)
            batch_runs += len(c['runs'])
            if batch_runs >= check.chunk:
                flush()
        flush()

        for r, o, fut in cross_jobs:
            try:
                co = fut.result()
            except Exception as e:
                harness_errors.append(f'true CLI run failed: {e!r}')
                continue
            if o.get('timed_out') == 'wall' or co.get('timed_out') == 'wall':
                # the generous wall-clock watchdog fired on one side (a loaded machine): says nothing about agreement
                cross['skipped_wall_timeouts'] = cross.get('skipped_wall_timeouts', 0) + 1
                continue
            cross['checked'] += 1
            if not runner.same_observables(o, co):
                cross['mismatch'] += 1
                cross.setdefault('examples', []).append({'argv': r.get('argv'), 'fork_exit': o.get('exit'),
                                                         'cli_exit': co.get('exit'),
                                                         'fork_files': sorted(o.get('files', {})),
                                                         'cli_files': sorted(co.get('files', {}))})

        # confirm each distinct violation through the true CLI, then classify
        report = []
        for key, (c, oc, v, cnt) in sorted(viol.items()):
            cli_oc = None
            confirmed = True
            if all(r.get('mode', 'cli') == 'cli' for r in c['runs']):
                cli_oc = [runner.run_true_cli(r, r.get('hashseed', '0')) for r in c['runs']]
                # keep probe-only evidence out of the confirmation: the CLI run has no probes
                try:
                    vs2 = check.judge(c, _merge_probes(cli_oc, oc))
                except Exception:
                    vs2 = []
                    harness_errors.append('judge(cli) failed: ' + traceback.format_exc()[-800:])
                confirmed = any(x.status == 'violated' and x.sig == v.sig for x in vs2)
            if not confirmed:
                inconc['cli-disagrees:' + v.sig] = inconc.get('cli-disagrees:' + v.sig, 0) + 1
                continue
            if v.mech and v.mech in ledger_open:
                known_hits[v.mech] = known_hits.get(v.mech, 0) + cnt
                continue
            path = write_replay(pid, c, oc, v, cli_oc)
            report.append((v, path, cnt))
    finally:
        pools.close()
        executor.shutdown(wait=False)

    # required buckets
    short = {b: buckets.get(b, 0) for b, m in check.required_buckets.items()
             if buckets.get(b, 0) < max(m, 1)}
    wall = time.time() - t0
    rc = 0
    lines = []
    for slug, cnt in sorted(known_hits.items()):
        e = ledger_open[slug]
        lines.append(f'KNOWN-FINDING: property={pid} {slug}: {e.get("what", "")} ({cnt} cases this run)')
    for v, path, cnt in report:
        lines.append(f'VIOLATION property={pid} replay={path}  # {v.sig} x{cnt}' + (f' mech={v.mech}' if v.mech else ''))
        rc = 1
    if rc == 0:
        problems = []
        if harness_errors:
            problems.append(f'harness errors ({len(harness_errors)}): {harness_errors[0][-700:]}')
        if cross['mismatch']:
            problems.append(f'true-CLI cross-check disagreed on {cross["mismatch"]} runs')
        if inconc:
            problems.append('inconclusive verdicts: ' + ', '.join(f'{k} x{n}' for k, n in list(inconc.items())[:5]))
        if short:
            problems.append('required buckets short: ' + ', '.join(f'{k}={n}' for k, n in list(short.items())[:8]))
        if stats['held'] == 0:
            problems.append('no case was judged')
        problems += list(check.final_problems() or [])
        if problems:
            rc = 2
            for p in problems:
                lines.append(f'INCONCLUSIVE property={pid} reason={p}')

    cov = {
        'evaluations': n_runs,
        'distinct_nontrivial': len(nt),
        'rule': check.rule,
        'samples': samples or [{'note': 'no held sample captured'}],
        'cases': n_cases,
        'verdicts': stats,
        'buckets': dict(sorted(buckets.items())),
        'required_buckets_short': short,
        'probe_events': probe_events,
        'probes_unavailable': sorted(unavailable),
        'cli_crosschecked': cross['checked'],
        'cli_crosscheck_mismatch': cross['mismatch'],
        'cli_crosscheck_mismatch_examples': (cross.get('examples') or [])[:3],
        'known_findings_hit': known_hits,
        'inconclusive': inconc,
        'dont_care_reasons': dict(sorted(dc_reasons.items(), key=lambda kv: -kv[1])[:20]),
        'violation_signatures': [v.sig for v, _, _ in report],
        'median_cpu_s': sorted(cpu)[len(cpu) // 2] if cpu else None,
        'repo': runner.repo_root(),
        'anchor_reach': anchor_reach_summary(reach_hits, anchor_files),
        'exit_status': rc,
    }
    cov.update(check.extra_evidence() or {})
    ev = {
        'property_id': pid, 'tier': tier, 'seed': int(seed), 'level': check.level, 'coverage': cov,
        'assumptions': list(check.assumptions), 'wall_s': round(wall, 2), 'violations': len(report),
    }
    _validate_evidence(ev)
    evdir = os.environ.get('VERIF_EVIDENCE_DIR') or os.path.join(VERIF_ROOT, 'evidence')
    os.makedirs(evdir, exist_ok=True)
    with open(os.path.join(evdir, f'{pid}.json'), 'w') as f:
        json.dump(ev, f, indent=1, default=str)
    for ln in lines:
        print(ln)
    print(f'{pid} tier={tier} seed={seed}: runs={n_runs} cases={n_cases} verdicts={stats} distinct_nontrivial={len(nt)} '
          f'cli_crosschecked={cross["checked"]} known={known_hits} wall={wall:.1f}s exit={rc}')
    return rc


def anchor_files_of(pid):
    """The source files the property is anchored in (properties.jsonl), as path suffixes for the reach probe."""
    try:
        for line in open(os.path.join(VERIF_ROOT, 'properties.jsonl')):
            p = json.loads(line)
            if p['id'] == pid:
                return [f[len('src/'):] if f.startswith('src/') else f for f in p['anchors']['files'] if f.startswith('src/')]
    except Exception:
        pass
    return []


def anchor_reach_summary(hits, anchor_files):
    """per anchor file: lines executed under this run's workload (sampled runs) / executable lines of the file"""
    res = {}
    root = os.path.join(runner.repo_root(), 'src')
    for f, lines in sorted(hits.items()):
        rel = f[len('src/'):] if f.startswith('src/') else f
        path = os.path.join(root, rel)
        try:
            code = compile(open(path).read(), path, 'exec')
        except Exception:
            continue
        ex = set()

        def walk(c):
            for _, _, ln in c.co_lines():
                if ln is not None and ln > 0:
                    ex.add(ln)
            for k in c.co_consts:
                if hasattr(k, 'co_lines'):
                    walk(k)
        walk(code)
        hit = set(lines) & ex
        res[rel] = {'lines_hit': len(hit), 'executable_lines': len(ex)}
    if res:
        res['_note'] = ('lines executed inside functions of the anchor files during sampled runs (1 in 15); module-level lines '
                        'run at import time in the zygote and are not counted')
    return res


def runner_harness_exit():
    return 98


def _probe_count(name, pv):
    if not isinstance(pv, dict):
        return 0
    if name == 'contracts':
        return pv.get('invariant_evals', 0) + pv.get('post_evals', 0)
    for k in ('n', 'calls', 'sets', 'appends', 'ngets', 'nv'):
        if k in pv and isinstance(pv[k], int):
            return pv[k]
    if 'writes' in pv:
        return len(pv['writes']) + len(pv['reads'])
    if 'lines' in pv:
        return sum(len(v) for v in pv['lines'].values())
    return 1


def _merge_probes(cli_oc, fork_oc):
    res = []
    for c, f in zip(cli_oc, fork_oc):
        c = dict(c)
        c['probes'] = f.get('probes', {})
        c['from_cli'] = True
        for k in ('post',):
            if k in f and k not in c:
                c[k] = f[k]
        res.append(c)
    return res


def run_replay(check, path):
    pid = check.pid
    p = path
    if os.path.isdir(p):
        p = os.path.join(p, 'case.json')
    if not os.path.isabs(p) and not os.path.exists(p):
        p = os.path.join(VERIF_ROOT, p)
    with open(p) as f:
        rec = json.load(f)
    case = rec['case']
    pools = Pools()
    try:
        oc = _run_all(pools, case['runs'])
    finally:
        pools.close()
    vs = check.judge(case, oc)
    ledger_open = open_findings(pid)
    rc = 0
    cli_ok = True
    if all(r.get('mode', 'cli') == 'cli' for r in case['runs']):
        cli_oc = [runner.run_true_cli(r, r.get('hashseed', '0')) for r in case['runs']]
        vs_cli = check.judge(case, _merge_probes(cli_oc, oc))
        cli_ok = {v.sig for v in vs if v.status == 'violated'} == {v.sig for v in vs_cli if v.status == 'violated'}
    for v in vs:
        if v.status == 'violated':
            if v.mech and v.mech in ledger_open:
                print(f'KNOWN-FINDING: property={pid} {v.mech}: {ledger_open[v.mech].get("what", "")}')
            else:
                print(f'VIOLATION property={pid} replay={path}  # {v.sig}')
                print(json.dumps(v.detail, default=str)[:2000])
                rc = 1
    if not cli_ok:
        print(f'INCONCLUSIVE property={pid} reason=fork run and true CLI disagree on this replay')
        rc = rc or 2
    print(f'{pid} replay: {[(v.status, v.sig) for v in vs][:10]} exit={rc}')
    return rc


def main(check_cls_by_id, argv=None):
    import argparse
    ap = argparse.ArgumentParser()
    ap.add_argument('pid')
    ap.add_argument('--tier', default=os.environ.get('VERIF_TIER', 'quick'), choices=['quick', 'thorough'])
    ap.add_argument('--seed', type=int, default=int(os.environ.get('VERIF_SEED', '0') or 0))
    ap.add_argument('--replay')
    a = ap.parse_args(argv)
    check = check_cls_by_id(a.pid)
    rc = run_check(check, a.tier, a.seed, a.replay)
    sys.exit(rc)
