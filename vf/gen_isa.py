"""Seeded ISA-definition generator and statement synthesiser (structure first, values after layout).

Everything returned is JSON-able.  Alternatives inside one operand set are textually disjoint (ambiguity is C13's
subject), so the alternative the generator chose is the only one the real matcher can choose.
"""
from vf.model import encode

REGS = ['a', 'x', 'y', 'sp', 'hl', 'ix', 'mar', 'r0', 'r1', 'r2', 'pc2', 'acc']
MNEMONICS = ['ld', 'st', 'mov', 'adc', 'jmp', 'jsr', 'psh', 'cmp', 'tst', 'xfer', 'lda', 'nop2', 'ld.w', 'sub.b',
             'bra', 'inc', 'swp', 'out7', 'q', 'mv16']
ENUM_KEYS = ['zero', 'one', 'nz', 'cs', 'alpha', 'k9', 'lo', 'hi']
DECORATORS = {'plus': '+', 'plus_plus': '++', 'minus': '-', 'minus_minus': '--', 'exclamation': '!', 'at': '@'}
SIZE_CLASSES = [1, 2, 3, 4, 5, 7, 8, 9, 12, 15, 16, 17, 20, 24, 31, 32, 33, 48, 63, 64]


def size_class(n):
    if n in (1, 8, 16, 32, 64):
        return str(n)
    for lo, hi in ((2, 7), (9, 15), (17, 31), (33, 63)):
        if lo <= n <= hi:
            return f'{lo}-{hi}'
    return str(n)


def _rand_size(rng, lo=1, hi=64):
    r = rng.random()
    if r < 0.5:
        c = [s for s in SIZE_CLASSES if lo <= s <= hi]
        return rng.choice(c)
    return rng.randrange(lo, hi + 1)


def _code(rng, maxsize=8, position=None):
    size = rng.randrange(1, maxsize + 1)
    # zero is a value like any other (and the one a truthiness test gets wrong): keep it frequent
    c = {'value': 0 if rng.random() < 0.15 else rng.randrange(0, 1 << size), 'size': size}
    pos = position if position is not None else rng.choice([None, 'suffix', 'prefix', 'prefix'])
    if pos:
        c['position'] = pos
    return c


def _arg(rng, endian_default, lo=1, hi=64, force_align=None):
    a = {'size': _rand_size(rng, lo, hi), 'byte_align': rng.random() < 0.5 if force_align is None else force_align}
    r = rng.random()
    if r < 0.35:
        a['endian'] = 'little'
    elif r < 0.7:
        a['endian'] = 'big'
    return a


def gen_operand(rng, kind, regs, endian, addr_bits, zones, with_code=None, nested=False):
    """One operand configuration of the requested kind."""
    wc = rng.random() < 0.7 if with_code is None else with_code
    if kind == 'numeric':
        c = {'type': 'numeric', 'argument': _arg(rng, endian)}
        if rng.random() < 0.12:
            c['argument']['valid_address'] = True
        if wc:
            c['bytecode'] = _code(rng)
        return c
    if kind in ('indirect_numeric', 'deferred_numeric'):
        c = {'type': kind, 'argument': _arg(rng, endian)}
        if wc:
            c['bytecode'] = _code(rng)
        return c
    if kind == 'address':
        a = _arg(rng, endian, lo=max(4, min(addr_bits, 8)), hi=max(addr_bits, 8))
        c = {'type': 'address', 'argument': a}
        r = rng.random()
        if r < 0.3 and addr_bits >= 8:
            n = rng.randrange(2, addr_bits)
            a['size'] = n
            a['slice_lsb'] = True
            a['match_address_msb'] = True
        else:
            a['size'] = max(a['size'], addr_bits) if rng.random() < 0.8 else a['size']
            if zones and rng.random() < 0.3:
                a['memory_zone'] = rng.choice(sorted(zones))
        if wc:
            c['bytecode'] = _code(rng)
        return c
    if kind == 'relative_address':
        a = _arg(rng, endian, lo=3, hi=16)
        c = {'type': 'relative_address', 'argument': a}
        if rng.random() < 0.6:
            n = a['size']
            a['min'] = -(1 << (n - 1)) if rng.random() < 0.6 else -rng.randrange(1, 1 << (n - 1))
            a['max'] = (1 << (n - 1)) - 1 if rng.random() < 0.6 else rng.randrange(1, 1 << (n - 1))
        if rng.random() < 0.5:
            c['offset_from_instruction_end'] = True
        if rng.random() < 0.5:
            c['use_curly_braces'] = True
        if wc:
            c['bytecode'] = _code(rng)
        return c
    if kind == 'register':
        c = {'type': 'register', 'register': rng.choice(regs)}
        if wc or True:
            c['bytecode'] = _code(rng)
        if rng.random() < 0.25 and not nested:
            c['decorator'] = {'type': rng.choice(sorted(DECORATORS)), 'is_prefix': rng.random() < 0.5}
        return c
    if kind == 'indirect_register':
        c = {'type': 'indirect_register', 'register': rng.choice(regs)}
        if wc:
            c['bytecode'] = _code(rng)
        if rng.random() < 0.6:
            o = _arg(rng, endian, lo=2, hi=32)
            c['offset'] = o
        if rng.random() < 0.2:
            c['decorator'] = {'type': rng.choice(sorted(DECORATORS)), 'is_prefix': rng.random() < 0.5}
        return c
    if kind in ('indexed_register', 'indirect_indexed_register'):
        c = {'type': kind, 'register': rng.choice(regs), 'bytecode': _code(rng, 6)}
        idx = {}
        n = rng.choice([1, 1, 2])
        isize = rng.randrange(1, 5)
        used = set()
        for i in range(n):
            if rng.random() < 0.5:
                r = rng.choice([x for x in regs if x not in used] or regs)
                used.add(r)
                idx[f'ix_{r}'] = {'type': 'register', 'register': r,
                                  'bytecode': {'value': rng.randrange(0, 1 << isize), 'size': isize}}
            elif 'ix_num' not in idx:
                idx['ix_num'] = {'type': 'numeric', 'argument': _arg(rng, endian, lo=2, hi=32),
                                 'bytecode': {'value': rng.randrange(0, 1 << isize), 'size': isize}}
        if not idx:
            idx['ix_num'] = {'type': 'numeric', 'argument': _arg(rng, endian, lo=2, hi=32),
                             'bytecode': {'value': rng.randrange(0, 1 << isize), 'size': isize}}
        c['index_operands'] = idx
        if kind == 'indirect_indexed_register' and rng.random() < 0.15:
            c['decorator'] = {'type': rng.choice(sorted(DECORATORS)), 'is_prefix': rng.random() < 0.5}
        return c
    if kind == 'enumeration':
        keys = rng.sample(ENUM_KEYS, rng.randrange(1, 5))
        a = _arg(rng, endian, lo=1, hi=16)
        a['value_dict'] = {k: (0 if rng.random() < 0.2 else rng.randrange(0, 1 << a['size'])) for k in keys}
        c = {'type': 'enumeration', 'argument': a}
        if wc:
            size = rng.randrange(1, 7)
            bd = {k: (0 if rng.random() < 0.2 else rng.randrange(0, 1 << size)) for k in keys if rng.random() < 0.8}
            c['bytecode'] = {'size': size, 'value_dict': bd}
            if rng.random() < 0.5:
                c['bytecode']['position'] = rng.choice(['prefix', 'suffix'])
        return c
    if kind == 'numeric_enumeration':
        members = sorted(rng.sample(range(0, 40), rng.randrange(2, 6)))
        c = {'type': 'numeric_enumeration'}
        r = rng.random()
        if r < 0.66:
            size = rng.randrange(1, 7)
            c['bytecode'] = {'size': size, 'value_dict': {m: (0 if rng.random() < 0.2 else rng.randrange(0, 1 << size)) for m in members}}
            if rng.random() < 0.5:
                c['bytecode']['position'] = rng.choice(['prefix', 'suffix'])
        if r > 0.33:
            a = _arg(rng, endian, lo=1, hi=16)
            a['value_dict'] = {m: (0 if rng.random() < 0.2 else rng.randrange(0, 1 << a['size'])) for m in members}
            c['argument'] = a
        return c
    if kind == 'numeric_bytecode':
        size = rng.randrange(1, 13)
        lo = rng.randrange(0, 1 << (size - 1)) if rng.random() < 0.4 else 0
        hi = rng.randrange(lo, 1 << size) if rng.random() < 0.5 else (1 << size) - 1
        c = {'type': 'numeric_bytecode', 'bytecode': {'size': size, 'min': lo, 'max': hi}}
        if rng.random() < 0.4:
            c['bytecode']['position'] = rng.choice(['prefix', 'suffix'])
        return c
    if kind == 'empty':
        return {'type': 'empty', 'bytecode': _code(rng)}
    raise ValueError(kind)


EXPR_LIKE = ['numeric', 'address', 'relative_address', 'numeric_enumeration', 'numeric_bytecode']
ALL_KINDS = ['numeric', 'address', 'relative_address', 'register', 'indirect_register', 'indexed_register',
             'indirect_indexed_register', 'indirect_numeric', 'deferred_numeric', 'enumeration', 'numeric_enumeration',
             'numeric_bytecode']


def _sig(conf):
    """Textual-shape signature used to keep alternatives of one set disjoint."""
    t = conf['type']
    dec = conf.get('decorator')
    d = (dec['type'], bool(dec.get('is_prefix', False))) if dec else None
    if t == 'numeric_enumeration':
        return ('numenum',)
    if t in EXPR_LIKE:
        if t == 'relative_address' and conf.get('use_curly_braces'):
            return ('curly',)
        return ('expr',)
    if t == 'register':
        return ('reg', conf['register'], d)
    if t == 'indirect_register':
        return ('ind', conf['register'], d)
    if t == 'indexed_register':
        return ('idx', conf['register'])
    if t == 'indirect_indexed_register':
        return ('iidx', conf['register'], d)
    if t == 'indirect_numeric':
        return ('indnum',)
    if t == 'deferred_numeric':
        return ('defer',)
    if t == 'enumeration':
        return ('enum',)
    return (t,)


def _conflicts(a, b):
    sa, sb = _sig(a), _sig(b)
    if sa == sb:
        return True
    # [r+e] is both an indirect register with offset and an indirect indexed register with a numeric index
    if {sa[0], sb[0]} == {'ind', 'iidx'} and sa[1] == sb[1]:
        return True
    # "r+" decorated register vs indexed "r+t" cannot collide (t is never empty); "r-"/"r--" fine
    # a register with a '+'/'-' decorator next to an indexed form of the same register: keep apart anyway
    if {sa[0], sb[0]} == {'reg', 'idx'} and sa[1] == sb[1]:
        d = sa[2] if sa[0] == 'reg' else sb[2]
        if d is not None:
            return True
    if sa[0] == 'enum' and sb[0] == 'enum':
        return True
    # a numeric_enumeration alternative takes any expression-looking text (including a bare register name or an
    # enumeration key) and hard-errors later: it shadows those alternatives (C13's subject, kept out of C01)
    if 'numenum' in (sa[0], sb[0]) and ({sa[0], sb[0]} & {'reg', 'enum', 'expr', 'idx'} or sa[0] == sb[0]):
        return True
    return False


def gen_isa(rng, kinds=None, n_sets=None, n_instr=None, addr_bits=None, want_yaml_only_kinds=True):
    kinds = list(kinds or ALL_KINDS)
    addr_bits = addr_bits or rng.choice([8, 8, 10, 12, 16, 16, 16, 20, 24, 32])
    endian = rng.choice(['big', 'little'])
    regs = rng.sample(REGS, rng.randrange(2, 7))
    zones = {}
    isa = {
        'description': 'generated by /verif',
        'general': {'address_size': addr_bits, 'endian': endian, 'registers': regs,
                    'identifier': {'name': 'vfgen', 'version': '1.0.0'}},
        'operand_sets': {}, 'instructions': {},
    }
    top = (1 << addr_bits) - 1
    if rng.random() < 0.4:
        lim = min(top, 4095)
        a = rng.randrange(0, lim // 2)
        b = rng.randrange(a + 8, lim + 1) if a + 8 <= lim else lim
        zones['ZA'] = (a, b)
        isa['predefined'] = {'memory_zones': [{'name': 'ZA', 'start': a, 'end': b}]}
    n_sets = n_sets or rng.randrange(2, 6)
    for si in range(n_sets):
        alts = {}
        want = rng.randrange(1, 5)
        tries = 0
        while len(alts) < want and tries < 30:
            tries += 1
            kind = rng.choice(kinds)
            conf = gen_operand(rng, kind, regs, endian, addr_bits, zones)
            if any(_conflicts(conf, c) for c in alts.values()):
                continue
            alts[f's{si}_{kind[:6]}_{len(alts)}'] = conf
        isa['operand_sets'][f'set{si}'] = {'operand_values': alts}
    set_names = list(isa['operand_sets'])
    n_instr = n_instr or rng.randrange(3, 9)
    mns = rng.sample(MNEMONICS, n_instr)
    for mn in mns:
        variants = []
        counts = rng.sample([0, 1, 2, 3], rng.choice([1, 1, 2]))
        textual = set()
        for cnt in counts:
            v = {'bytecode': _opcode(rng, endian)}
            if cnt > 0:
                ops = {'count': cnt}
                r = rng.random()
                if r < 0.75:
                    ops['operand_sets'] = {'list': [rng.choice(set_names) for _ in range(cnt)]}
                    if rng.random() < 0.35:
                        ops['operand_sets']['reverse_argument_order'] = True
                    if rng.random() < 0.35:
                        ops['operand_sets']['reverse_bytecode_order'] = True
                else:
                    lst = {}
                    # an implied (empty) operand may stand anywhere in the list, at most one per list
                    empty_at = rng.randrange(cnt) if cnt > 1 and rng.random() < 0.4 else None
                    for k in range(cnt):
                        kind = 'empty' if k == empty_at else rng.choice(kinds)
                        lst[f'sp{k}_{kind[:6]}'] = gen_operand(rng, kind, regs, endian, addr_bits, zones)
                    spec = {'list': lst}
                    if rng.random() < 0.35:
                        spec['reverse_argument_order'] = True
                    if rng.random() < 0.35:
                        spec['reverse_bytecode_order'] = True
                    ops['specific_operands'] = {'only': spec}
                v['operands'] = ops
            tc = cnt
            if 'specific_operands' in (v.get('operands') or {}):
                tc = sum(1 for c in v['operands']['specific_operands']['only']['list'].values() if c['type'] != 'empty')
            if tc in textual:
                continue        # two variants taking the same number of written operands would be ambiguous
            textual.add(tc)
            variants.append(v)
        # a specific-operand variant parses operands positionally before it compares counts, and several operand types
        # hard-error on text that is not an expression: keep at most one such variant and put it last (C13 owns the rest)
        spec_v = [v for v in variants if 'specific_operands' in (v.get('operands') or {})]
        variants = [v for v in variants if 'specific_operands' not in (v.get('operands') or {})] + spec_v[:1]
        conf = dict(variants[0])
        if len(variants) > 1:
            conf['variants'] = variants[1:]
        isa['instructions'][mn] = conf
    return isa, zones


def _opcode(rng, endian):
    size = _rand_size(rng, 1, 64) if rng.random() < 0.25 else rng.choice([1, 2, 3, 4, 5, 6, 7, 8, 8, 8, 9, 12, 16, 20])
    b = {'value': rng.randrange(0, 1 << size), 'size': size}
    if rng.random() < 0.25:
        b['endian'] = rng.choice(['big', 'little'])
    if rng.random() < 0.3:
        ss = rng.randrange(1, 17)
        b['suffix'] = {'value': rng.randrange(0, 1 << ss), 'size': ss}
    return b


def needs_yaml(isa):
    def walk(o):
        if isinstance(o, dict):
            for k, v in o.items():
                if isinstance(k, int):
                    return True
                if walk(v):
                    return True
        elif isinstance(o, list):
            return any(walk(v) for v in o)
        return False
    return walk(isa)


# ---------------------------------------------------------------------------------------------------------------------
# statements
def pick_statement(rng, isa):
    """Structure of one statement (which variant / alternatives) — no values yet."""
    mn = rng.choice(sorted(isa['instructions']))
    vs = encode.variants_of(isa, mn)
    vi = rng.randrange(len(vs))
    v = vs[vi]
    ops = v.get('operands') or {}
    stmt = {'mn': mn, 'variant': vi, 'spec': None, 'ops': []}
    if not ops or ops.get('count', 0) == 0:
        return stmt
    if 'specific_operands' in ops:
        name = next(iter(ops['specific_operands']))
        stmt['spec'] = name
        for oid, conf in ops['specific_operands'][name]['list'].items():
            stmt['ops'].append(_pick_op(rng, oid, conf))
    else:
        for sname in ops['operand_sets']['list']:
            alts = isa['operand_sets'][sname]['operand_values']
            oid = rng.choice(sorted(alts))
            stmt['ops'].append(_pick_op(rng, oid, alts[oid]))
    return stmt


def _pick_op(rng, oid, conf):
    op = {'id': oid, 'val': None, 'key': None, 'index': None}
    t = conf['type']
    if t == 'enumeration':
        op['key'] = rng.choice(sorted(conf['argument']['value_dict']))
    if t in ('indexed_register', 'indirect_indexed_register'):
        iid = rng.choice(sorted(conf['index_operands']))
        op['index'] = {'id': iid, 'val': None, 'key': None, 'index': None}
    if t == 'indirect_register' and 'offset' in conf:
        op['has_offset'] = rng.random() < 0.75
    return op


def boundary_value(rng, n, signed_ok=True):
    """A value that fits an n-bit field, biased to the boundaries."""
    c = [0, 1, (1 << n) - 1, 1 << (n - 1)]
    if signed_ok:
        c += [-1, -(1 << (n - 1))]
    r = rng.random()
    if r < 0.5:
        return rng.choice(c)
    if r < 0.85 or not signed_ok:
        return rng.randrange(0, 1 << n)
    return -rng.randrange(1, (1 << (n - 1)) + 1)


def assign_values(rng, isa, stmt, addr, size, zones, labels):
    """Fills operand values (given the statement's address) so every configured constraint holds.
    `labels`: {name: address} usable as targets.  Returns False when no valid value exists."""
    vconf = encode.variants_of(isa, stmt['mn'])[stmt['variant']]
    confs, _ = encode.operand_confs(isa, vconf, stmt.get('spec'), [o['id'] for o in stmt['ops']])
    for conf, op in zip(confs, stmt['ops']):
        if not _assign(rng, isa, conf, op, addr, size, zones, labels):
            return False
    return True


def _assign(rng, isa, conf, op, addr, size, zones, labels):
    t = conf['type']
    top = (1 << isa['general']['address_size']) - 1
    if t in ('numeric', 'indirect_numeric', 'deferred_numeric'):
        n = conf['argument']['size']
        if conf['argument'].get('valid_address'):
            op['val'] = rng.randrange(0, min(top, (1 << n) - 1) + 1)
        else:
            op['val'] = boundary_value(rng, n)
            if t != 'numeric' and op['val'] < 0:
                op['val'] = -op['val'] - 1 if n > 1 else 0    # bracketed forms: keep the text free of a leading minus
        return True
    if t == 'address':
        a = conf['argument']
        z = zones.get(a.get('memory_zone', 'GLOBAL'))
        n = a['size']
        if a.get('slice_lsb'):
            base = (addr >> n) << n
            cands = [v for v in (base, base + (1 << n) - 1, base + rng.randrange(0, 1 << n)) if z[0] <= v <= z[1]]
            lab = [v for v in labels.values() if (v >> n) == (addr >> n) and z[0] <= v <= z[1]]
            cands += lab
            if not cands:
                return False
            op['val'] = rng.choice(cands)
            return True
        hi = min(z[1], (1 << n) - 1)
        if hi < z[0]:
            return False
        lab = [v for v in labels.values() if z[0] <= v <= hi]
        if lab and rng.random() < 0.6:
            op['val'] = rng.choice(lab)
        else:
            op['val'] = rng.choice([z[0], hi, rng.randrange(z[0], hi + 1)])
        return True
    if t == 'relative_address':
        a = conf['argument']
        n = a['size']
        lo = max(a['min'] if a.get('min') is not None else -(1 << (n - 1)), -(1 << (n - 1)))
        hi = min(a['max'] if a.get('max') is not None else (1 << n) - 1, (1 << n) - 1)
        adj = (size - 1) if conf.get('offset_from_instruction_end') else 0
        z = zones['GLOBAL']
        # target = addr + adj + off ; must lie in GLOBAL
        lo = max(lo, z[0] - addr - adj)
        hi = min(hi, z[1] - addr - adj)
        if lo > hi:
            return False
        lab = [v for v in labels.values() if lo <= v - addr - adj <= hi]
        if lab and rng.random() < 0.7:
            op['val'] = rng.choice(lab)
        else:
            off = rng.choice([lo, hi, 0 if lo <= 0 <= hi else lo, rng.randrange(lo, hi + 1)])
            op['val'] = addr + adj + off
        return True
    if t == 'register' or t == 'empty':
        return True
    if t == 'indirect_register':
        if 'offset' in conf and op.get('has_offset'):
            op['val'] = boundary_value(rng, conf['offset']['size'])
        else:
            op['val'] = None
        return True
    if t in ('indexed_register', 'indirect_indexed_register'):
        iconf = conf['index_operands'][op['index']['id']]
        ok = _assign(rng, isa, iconf, op['index'], addr, size, zones, labels)
        if ok and iconf['type'] == 'numeric' and op['index']['val'] is not None and op['index']['val'] < 0:
            n = iconf['argument']['size']
            op['index']['val'] = (-op['index']['val'] - 1) if n > 1 else 0     # only r+t is supported
        return ok
    if t == 'enumeration':
        return True
    if t == 'numeric_enumeration':
        d = (conf.get('bytecode') or {}).get('value_dict') or (conf.get('argument') or {}).get('value_dict')
        op['val'] = rng.choice(sorted(d))
        return True
    if t == 'numeric_bytecode':
        b = conf['bytecode']
        op['val'] = rng.choice([b['min'], b['max'], rng.randrange(b['min'], b['max'] + 1)])
        return True
    return False


# ---------------------------------------------------------------------------------------------------------------------
# rendering
def render_value(rng, v, labels=None, allow_neg=True, simple_chars=False):
    """Expression text whose value is v. Uses a label (+/- k) when one is close, else a literal."""
    if labels and rng.random() < 0.6:
        exact = [n for n, a in labels.items() if a == v]
        if exact and rng.random() < 0.7:
            return rng.choice(exact)
        near = [(n, a) for n, a in labels.items() if 0 < abs(v - a) <= 9]
        if near:
            n, a = rng.choice(near)
            return f'{n}+{v - a}' if v > a else f'{n}-{a - v}'
    if v < 0:
        return f'-{render_value(rng, -v, None)}' if rng.random() < 0.7 else f'0-{render_value(rng, -v, None)}'
    r = rng.random()
    if r < 0.45:
        return str(v)
    if r < 0.7:
        return '$' + format(v, 'x')
    if r < 0.8 and not simple_chars:
        return '0x' + format(v, 'X')
    if r < 0.88 and v < 1 << 16:
        return '%' + format(v, 'b')
    if r < 0.94 and v >= 2:
        k = rng.randrange(1, min(v, 9) + 1)
        return f'({v - k}+{k})'
    return str(v)


def render_operand(rng, conf, op, labels, sp=None):
    sp = sp or (lambda: '')
    t = conf['type']
    dec = conf.get('decorator')

    def decorate(s):
        if not dec:
            return s
        d = DECORATORS[dec['type']]
        return d + s if dec.get('is_prefix', False) else s + d
    if t in ('numeric', 'address', 'numeric_enumeration', 'numeric_bytecode'):
        if op.get('text'):
            return op['text']          # the value written as a named constant (chosen by the caller)
        return render_value(rng, op['val'], labels)
    if t == 'relative_address':
        e = render_value(rng, op['val'], labels)
        if conf.get('use_curly_braces'):
            return '{' + sp() + e + sp() + '}'
        return e
    if t == 'indirect_numeric':
        return '[' + sp() + render_value(rng, op['val'], labels, simple_chars=True) + sp() + ']'
    if t == 'deferred_numeric':
        return '[' + sp() + '[' + sp() + render_value(rng, op['val'], labels, simple_chars=True) + sp() + ']' + sp() + ']'
    if t == 'register':
        return decorate(conf['register'])
    if t == 'indirect_register':
        if op.get('val') is None:
            return decorate('[' + sp() + conf['register'] + sp() + ']')
        v = op['val']
        if rng.random() < 0.3:
            # several terms behind the register: [r - a + b] is r + (-a + b), [r - a - b] is r + (-a - b)
            a_ = rng.randrange(1, 9)
            b_ = v + a_
            inner = conf['register'] + sp() + '-' + sp() + str(a_) + sp() + ('+' if b_ >= 0 else '-') + sp() + \
                rng.choice([str(abs(b_)), '$' + format(abs(b_), 'x')])
        elif v < 0:
            inner = conf['register'] + sp() + '-' + sp() + render_value(rng, -v, None)
        else:
            inner = conf['register'] + sp() + '+' + sp() + render_value(rng, v, labels)
        return decorate('[' + sp() + inner + sp() + ']')
    if t in ('indexed_register', 'indirect_indexed_register'):
        iconf = conf['index_operands'][op['index']['id']]
        if iconf['type'] == 'register':
            it = iconf['register']
        else:
            it = render_value(rng, op['index']['val'], labels, simple_chars=True)
        inner = conf['register'] + sp() + '+' + sp() + it
        # (an index is only ever added: "r - x" is not an indexed register form)
        if t == 'indexed_register':
            return inner
        return decorate('[' + sp() + inner + sp() + ']')
    if t == 'enumeration':
        return op['key']
    if t == 'empty':
        return None
    raise ValueError(t)


def render_statement(rng, isa, stmt, labels, sp=None):
    vconf = encode.variants_of(isa, stmt['mn'])[stmt['variant']]
    confs, _ = encode.operand_confs(isa, vconf, stmt.get('spec'), [o['id'] for o in stmt['ops']])
    parts = []
    for conf, op in zip(confs, stmt['ops']):
        t = render_operand(rng, conf, op, labels, sp)
        if t is not None:
            parts.append(t)
    if not parts:
        return stmt['mn']
    return stmt['mn'] + ' ' + ', '.join(parts)
