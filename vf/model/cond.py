"""Reference interpreter for conditional assembly (Appendix A.4): one sequential pass, conditions evaluated once, when
their directive is reached, over the symbol table as it is at that moment.  Never imports bespokeasm.

Stream items (dicts, 'k'):
  if{cond} ifdef{name} ifndef{name} elif{cond} else endif
  define{name, val}           val: operand spec or None
  any other kind              an ordinary line (has effect iff selected)
cond:  {'lhs': opnd, 'op': '=='|'!='|'>'|'>='|'<'|'<=', 'rhs': opnd}  |  {'bare': opnd}
opnd:  {'sym': name} | {'num': text, 'v': int} | {'txt': word}
"""


class Stray(Exception):
    pass


class Undefined(Exception):
    pass


def resolve(opnd, symbols, depth=0):
    """-> ('num', int) | ('txt', str)"""
    if depth > 20:
        raise Undefined('cycle')
    if 'num' in opnd:
        return ('num', opnd['v'])
    if 'txt' in opnd:
        return ('txt', opnd['txt'])
    name = opnd['sym']
    if name not in symbols:
        raise Undefined(name)
    val = symbols[name]
    if val is None:
        return ('txt', '')
    return resolve(val, symbols, depth + 1)


def evaluate(cond, symbols):
    if 'bare' in cond:
        k, v = resolve(cond['bare'], symbols)
        if k != 'num':
            raise Undefined('bare text')
        return v != 0
    lk, lv = resolve(cond['lhs'], symbols)
    rk, rv = resolve(cond['rhs'], symbols)
    if lk != rk:
        # mixed: compared as text
        lv, rv = str(lv), str(rv)
    op = cond['op']
    return {'==': lv == rv, '!=': lv != rv, '>': lv > rv, '>=': lv >= rv, '<': lv < rv, '<=': lv <= rv}[op]


def interpret(stream, symbols):
    """Annotates every item with 'selected' (bool) and 'ctx' (why); returns the final symbol table.
    Raises Stray for #elif/#else/#endif without an opener, Undefined when a reached condition uses an undefined symbol."""
    symbols = dict(symbols)
    stack = []     # entries: {'parent': bool (enclosing selected), 'taken': bool, 'cur': bool, 'else_seen': bool}

    def active():
        return stack[-1]['cur'] if stack else True

    for it in stream:
        k = it['k']
        if k in ('if', 'ifdef', 'ifndef'):
            par = active()
            if par:
                if k == 'if':
                    r = evaluate(it['cond'], symbols)
                else:
                    r = (it['name'] in symbols) == (k == 'ifdef')
            else:
                r = False
            it['selected'] = par
            it['value'] = r
            stack.append({'parent': par, 'taken': r, 'cur': r, 'opener': k,
                          'ctx': 'sel' if r else ('unsel:nested-in-unselected' if not par else 'unsel:condition-false')})
        elif k == 'elif':
            if not stack:
                raise Stray('elif')
            e = stack[-1]
            it['selected'] = e['parent']
            if e['parent'] and not e['taken']:
                r = evaluate(it['cond'], symbols)
                e['ctx'] = 'sel' if r else 'unsel:condition-false'
            else:
                r = False
                e['ctx'] = 'unsel:nested-in-unselected' if not e['parent'] else 'unsel:earlier-branch-taken'
            e['cur'] = r
            e['taken'] = e['taken'] or r
        elif k == 'else':
            if not stack:
                raise Stray('else')
            e = stack[-1]
            it['selected'] = e['parent']
            r = e['parent'] and not e['taken']
            e['ctx'] = 'sel' if r else ('unsel:nested-in-unselected' if not e['parent'] else 'unsel:earlier-branch-taken')
            e['cur'] = r
            e['taken'] = True
        elif k == 'endif':
            if not stack:
                raise Stray('endif')
            e = stack.pop()
            it['selected'] = e['parent']
        else:
            sel = active()
            it['selected'] = sel
            it['ctx'] = stack[-1]['ctx'] if stack else 'sel:top'
            it['depth'] = len(stack)
            if k == 'define' and sel:
                if it['name'] in symbols:
                    it['dup'] = True
                else:
                    symbols[it['name']] = it.get('val')
    it_open = len(stack)
    return symbols, it_open
