"""Reference encoder (Appendix A.8 / C01): ISA definition + chosen operands + values -> prescribed bit string.

Integer arithmetic only; shares no code with bespokeasm's PackedBits.  Reads the operand configuration from the ISA
definition object itself.

Statement description (JSON-able):
  {'mn': mnemonic, 'variant': index into the instruction's variant list (0 = the top-level 'bytecode' one if present),
   'spec': name of the specific-operand entry used, or None when operand sets are used,
   'ops': [ {'id': operand id chosen, 'val': int|None, 'key': str|None, 'index': {'id':..., 'val':..., 'key':...}|None} ]}
Values are the *operand values* (expression values; for relative operands the target address).
"""


class Reject(Exception):
    """The model says the statement must be rejected (constraint violated)."""


class DontCare(Exception):
    pass


def variants_of(isa, mn):
    conf = isa['instructions'][mn]
    vs = []
    if 'bytecode' in conf:
        vs.append(conf)
    vs.extend(conf.get('variants', []) or [])
    return vs


def operand_confs(isa, vconf, spec, choice_ids):
    """Returns the list of operand configuration dicts for the chosen alternatives, in operand order."""
    ops = vconf.get('operands') or {}
    res = []
    if spec is not None:
        lst = ops['specific_operands'][spec]['list']
        items = list(lst.items())
        assert [k for k, _ in items] == list(choice_ids), (choice_ids, [k for k, _ in items])
        return [c for _, c in items], ops['specific_operands'][spec]
    sets = ops.get('operand_sets', {}).get('list', []) if ops else []
    for sname, oid in zip(sets, choice_ids):
        res.append(isa['operand_sets'][sname]['operand_values'][oid])
    return res, ops.get('operand_sets', {}) if ops else {}


def fits(v, n):
    return -(1 << (n - 1)) <= v < (1 << n) if n > 0 else v == 0


def _code_and_arg(isa, conf, op, addr, instr_size, zones, sizing=False):
    """-> (code field or None, position, arg field or None); a field is (value, size, aligned, endian, kind)."""
    default_endian = isa['general'].get('endian', 'big')
    t = conf['type']
    if sizing:
        op = dict(op, val=op.get('val') or 0)
    code = None
    arg = None
    pos = (conf.get('bytecode') or {}).get('position', 'suffix') if 'bytecode' in conf else None

    def argfield(v, a, kind='arg'):
        return (v, a['size'], bool(a['byte_align']), a.get('endian', default_endian), kind)

    if t in ('numeric', 'indirect_numeric', 'deferred_numeric'):
        if 'bytecode' in conf:
            code = (conf['bytecode']['value'], conf['bytecode']['size'], False, 'big', 'code')
        v = op['val']
        if conf['argument'].get('valid_address', False):
            z = zones['GLOBAL']
            if not (z[0] <= v <= z[1]):
                if not sizing:
                    raise Reject('valid_address outside GLOBAL')
        arg = argfield(v, conf['argument'])
    elif t == 'address':
        if 'bytecode' in conf:
            code = (conf['bytecode']['value'], conf['bytecode']['size'], False, 'big', 'code')
        a = conf['argument']
        v = op['val']
        zname = a.get('memory_zone', 'GLOBAL')
        z = zones[zname]
        if not (z[0] <= v <= z[1]):
            if not sizing:
                raise Reject('address outside zone ' + zname)
        if a.get('slice_lsb', False):
            if not a.get('match_address_msb', False):
                raise DontCare('slice_lsb without match_address_msb')
            n = a['size']
            if (v >> n) != (addr >> n):
                if not sizing:
                    raise Reject('sliced address: high bits differ from the instruction address')
            v = v & ((1 << n) - 1)
        arg = argfield(v, a)
    elif t == 'relative_address':
        if 'bytecode' in conf:
            code = (conf['bytecode']['value'], conf['bytecode']['size'], False, 'big', 'code')
        a = conf['argument']
        target = op['val']
        z = zones['GLOBAL']
        if not (z[0] <= target <= z[1]):
            if not sizing:
                raise Reject('relative target outside GLOBAL')
        off = target - addr
        if conf.get('offset_from_instruction_end', False):
            off -= instr_size - 1
        if a.get('max') is not None and off > a['max']:
            if not sizing:
                raise Reject('relative offset above max')
        if a.get('min') is not None and off < a['min']:
            if not sizing:
                raise Reject('relative offset below min')
        arg = argfield(off, a)
    elif t == 'register':
        if 'bytecode' in conf:
            code = (conf['bytecode']['value'], conf['bytecode']['size'], False, 'big', 'code')
    elif t == 'indirect_register':
        if 'bytecode' in conf:
            code = (conf['bytecode']['value'], conf['bytecode']['size'], False, 'big', 'code')
        if 'offset' in conf:
            o = conf['offset']
            arg = (op.get('val') or 0, o['size'], bool(o['byte_align']), o.get('endian', default_endian), 'arg')
        elif op.get('val') is not None:
            if not sizing:
                raise Reject('offset given to an indirect register operand without offset')
    elif t in ('indexed_register', 'indirect_indexed_register'):
        if 'bytecode' not in conf:
            raise DontCare('indexed register operand without its own code')
        iconf = conf['index_operands'][op['index']['id']]
        icode, _, iarg = _code_and_arg(isa, iconf, op['index'], addr, instr_size, zones, sizing)
        mv, ms = conf['bytecode']['value'], conf['bytecode']['size']
        if icode is not None:
            # the index code is a field of its own width inside the composite code
            if not sizing and not fits(icode[0], icode[1]):
                raise Reject(f'value {icode[0]} does not fit the {icode[1]}-bit index code field')
            code = ((mv << icode[1]) | (icode[0] & ((1 << icode[1]) - 1)), ms + icode[1], False, 'big', 'code')
        else:
            code = (mv, ms, False, 'big', 'code')
        arg = iarg
    elif t == 'enumeration':
        k = op['key']
        bd = (conf.get('bytecode') or {}).get('value_dict')
        if bd is not None and k in bd:
            code = (bd[k], conf['bytecode']['size'], False, 'big', 'code')
        ad = (conf.get('argument') or {}).get('value_dict')
        if ad is not None and k in ad:
            arg = argfield(ad[k], conf['argument'])
    elif t == 'numeric_enumeration':
        v = op['val']
        bd = (conf.get('bytecode') or {}).get('value_dict')
        ad = (conf.get('argument') or {}).get('value_dict')
        if bd is not None:
            if v not in bd and not sizing:
                raise Reject('not a member of the numeric enumeration')
            code = (bd.get(v, 0), conf['bytecode']['size'], False, 'big', 'code')
        if ad is not None:
            if v not in ad and not sizing:
                raise Reject('not a member of the numeric enumeration')
            arg = argfield(ad.get(v, 0), conf['argument'])
    elif t == 'numeric_bytecode':
        v = op['val']
        b = conf['bytecode']
        if v > b['max'] or v < b['min']:
            if not sizing:
                raise Reject('numeric_bytecode outside min/max')
        code = (v, b['size'], False, 'big', 'code')
    elif t == 'empty':
        if 'bytecode' in conf:
            code = (conf['bytecode']['value'], conf['bytecode']['size'], False, 'big', 'code')
    else:
        raise DontCare('operand type ' + t)
    return code, pos, arg


def fields(isa, stmt, addr, zones, instr_size=None, sizing=False):
    """Ordered field list [(value,size,aligned,endian,kind)] of one instruction statement."""
    vconf = variants_of(isa, stmt['mn'])[stmt['variant']]
    bc = vconf['bytecode']
    default_endian = isa['general'].get('endian', 'big')
    oend = bc.get('endian', default_endian)
    opcode = (bc['value'], bc['size'], False, oend, 'opcode')
    suffix = None
    if 'suffix' in bc:
        suffix = (bc['suffix']['value'], bc['suffix']['size'], False, oend, 'suffix')
    confs, group = operand_confs(isa, vconf, stmt.get('spec'), [o['id'] for o in stmt['ops']])
    if instr_size is None:
        instr_size = size_of(isa, stmt)
    pre, suf, args = [], [], []
    for conf, op in zip(confs, stmt['ops']):
        code, pos, arg = _code_and_arg(isa, conf, op, addr, instr_size, zones, sizing)
        if code is not None:
            if pos == 'prefix':
                pre.insert(0, code)
            else:
                suf.append(code)
        if arg is not None:
            args.append(arg)
    if group.get('reverse_bytecode_order', False):
        pre.reverse()
        suf.reverse()
    if group.get('reverse_argument_order', False):
        args.reverse()
    out = pre + [opcode] + suf
    if suffix is not None:
        out.append(suffix)
    return out + args


def size_of(isa, stmt):
    """Byte size — depends only on field sizes and alignment flags (values are irrelevant)."""
    fl = fields(isa, stmt, 0, _AnyZones(), instr_size=1, sizing=True)
    bits = 0
    for v, n, al, e, k in fl:
        if al and bits % 8:
            bits += 8 - bits % 8
        bits += n
    return (bits + 7) // 8


class _AnyZones(dict):
    def __getitem__(self, k):
        return (-(1 << 80), 1 << 80)


def bits_of_field(v, n, endian):
    """n-bit field -> list of bits, first emitted first."""
    if n == 0:
        return []
    u = v & ((1 << n) - 1)
    if endian == 'big':
        return [(u >> i) & 1 for i in range(n - 1, -1, -1)]
    # little: cut into bytes from the least significant end; each full byte in that order, the final chunk carries the
    # remaining (n mod 8) high bits
    out = []
    full = n // 8
    for b in range(full):
        byte = (u >> (8 * b)) & 0xFF
        out.extend((byte >> i) & 1 for i in range(7, -1, -1))
    rem = n % 8
    if rem:
        top = (u >> (8 * full)) & ((1 << rem) - 1)
        out.extend((top >> i) & 1 for i in range(rem - 1, -1, -1))
    return out


def pack(field_list, check_range=True):
    bits = []
    for v, n, al, e, k in field_list:
        if check_range and not fits(v, n):
            raise Reject(f'value {v} does not fit {n}-bit {k} field')
        if al and len(bits) % 8:
            bits.extend([0] * (8 - len(bits) % 8))
        bits.extend(bits_of_field(v, n, e))
    if len(bits) % 8:
        bits.extend([0] * (8 - len(bits) % 8))
    out = bytearray()
    for i in range(0, len(bits), 8):
        b = 0
        for x in bits[i:i + 8]:
            b = (b << 1) | x
        out.append(b)
    if not out:
        out.append(0)     # an instruction with zero total bits still occupies... (never generated)
    return bytes(out)


def encode(isa, stmt, addr, zones):
    sz = size_of(isa, stmt)
    fl = fields(isa, stmt, addr, zones, instr_size=sz)
    b = pack(fl)
    assert len(b) == sz, (len(b), sz)
    return b, fl
