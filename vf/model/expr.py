"""Reference semantics of numeric expressions (Appendix A.7).  Exact arithmetic; never imports bespokeasm.

AST (JSON-able lists):
  ['num', value, text]        literal with its surface text
  ['name', ident]             label / constant
  ['neg', x]
  ['bin', op, l, r]           op in + - * / % << >> & | ^
  ['byte', n, x]              BYTEn(x)
  ['lsb', x]                  LSB(x)
  ['par', x]                  redundant parentheses (surface only)
"""
from fractions import Fraction

LEVEL = {'&': 0, '|': 0, '^': 0, '<<': 1, '>>': 1, '+': 2, '-': 2, '*': 3, '/': 3, '%': 3}
BINOPS = list(LEVEL)
LIMIT = 1 << 62


class DontCare(Exception):
    pass


def _int(v, what):
    if isinstance(v, Fraction):
        if v.denominator != 1:
            raise DontCare(f'non-integer operand of {what}')
        return int(v)
    return v


def evaluate(ast, env):
    """Exact value (Fraction or int) of the AST; raises DontCare outside the domain the statement fixes."""
    k = ast[0]
    if k == 'num':
        return ast[1]
    if k == 'name':
        if ast[1] not in env:
            raise KeyError(ast[1])
        return env[ast[1]]
    if k == 'par':
        return evaluate(ast[1], env)
    if k == 'neg':
        return -evaluate(ast[1], env)
    if k in ('byte', 'lsb'):
        n = ast[1] if k == 'byte' else 0
        x = _int(evaluate(ast[-1], env), 'BYTEn')
        return (x >> (8 * n)) & 0xFF
    op, l, r = ast[1], evaluate(ast[2], env), evaluate(ast[3], env)
    if op == '+':
        v = l + r
    elif op == '-':
        v = l - r
    elif op == '*':
        v = l * r
    elif op == '/':
        if r == 0:
            raise DontCare('division by zero')
        v = Fraction(l) / Fraction(r)
        if v.denominator == 1:
            v = int(v)
    elif op == '%':
        l, r = _int(l, '%'), _int(r, '%')
        if l < 0 or r <= 0:
            raise DontCare('% outside non-negative / positive')
        v = l % r
    elif op in ('<<', '>>'):
        l, r = _int(l, op), _int(r, op)
        if not 0 <= r <= 62:
            raise DontCare('shift count')
        v = (l << r) if op == '<<' else (l >> r)
    else:
        l, r = _int(l, op), _int(r, op)
        v = (l & r) if op == '&' else (l | r) if op == '|' else (l ^ r)
    if abs(v) >= LIMIT:
        raise DontCare('magnitude')
    return v


def result(ast, env):
    """Final integer result: exact value truncated toward zero."""
    v = evaluate(ast, env)
    if isinstance(v, Fraction):
        n = abs(v.numerator) // v.denominator
        return n if v >= 0 else -n
    return v


def level(ast):
    k = ast[0]
    if k == 'bin':
        return LEVEL[ast[1]]
    if k == 'neg':
        return 4
    return 5


def tokens(ast, min_parens=True):
    """Token list of the minimal-parentheses rendering (documented precedence, left associativity)."""
    k = ast[0]
    if k == 'num':
        return [ast[2]]
    if k == 'name':
        return [ast[1]]
    if k == 'par':
        return ['('] + tokens(ast[1]) + [')']
    if k == 'neg':
        inner = tokens(ast[1])
        if level(ast[1]) < 4:
            inner = ['('] + inner + [')']
        return ['-'] + inner
    if k == 'byte':
        return [f'BYTE{ast[1]}('] + tokens(ast[2]) + [')']
    if k == 'lsb':
        return ['LSB('] + tokens(ast[1]) + [')']
    op = ast[1]
    lt = tokens(ast[2])
    if level(ast[2]) < LEVEL[op]:
        lt = ['('] + lt + [')']
    rt = tokens(ast[3])
    if level(ast[3]) <= LEVEL[op]:
        rt = ['('] + rt + [')']
    return lt + [op] + rt


def render(ast, rng=None):
    """Surface text. With rng: variable spacing (never merging tokens, '%' operator always spaced)."""
    toks = tokens(ast)
    return join_tokens(toks, rng)


def join_tokens(toks, rng=None):
    out = []
    prev = None
    for t in toks:
        if prev is not None:
            need = _needs_space(prev, t)
            if need or rng is None or rng.random() < 0.6:
                out.append(' ' if rng is None or need else rng.choice([' ', '  ', ' ']))
            # else: glued
        out.append(t)
        prev = t
    return ''.join(out)


def _needs_space(a, b):
    # the modulo operator is always spaced (a glued % starts a binary literal)
    if a == '%' or b == '%':
        return True
    wa = a[-1].isalnum() or a[-1] in "_'$"
    wb = b[0].isalnum() or b[0] in "_'$%."
    if wa and wb:
        return True
    # '<<' '>>' next to '<' '>' never generated; keep '-' '-' apart for readability only
    return False


# ---------------------------------------------------------------------------------------------------------------------
# literals
def lit(value, notation, rng=None):
    """['num', value, text] in the requested notation. value >= 0."""
    assert value >= 0
    # leading zeros change no value in any notation (a decimal 010 is ten, not eight)
    z = '0' * rng.choice([1, 1, 2, 3]) if (rng is not None and rng.random() < 0.15) else ''
    if notation == 'dec':
        t = z + str(value)
    elif notation == 'dollar':
        t = '$' + z + _hexcase(value, rng)
    elif notation == '0x':
        t = '0x' + z + _hexcase(value, rng)
    elif notation == 'H':
        h = z + _hexcase(value, rng)
        # a trailing-H literal that starts like a binary literal (b0.., b1..) would be lexically ambiguous
        if h[0] in 'bB' and len(h) > 1 and h[1] in '01':
            h = '0' + h
        t = h + 'H'
    elif notation == 'pct':
        t = '%' + z + format(value, 'b')
    elif notation == 'b':
        t = 'b' + z + format(value, 'b')
    elif notation == 'char':
        t = "'" + chr(value) + "'"
    else:
        raise ValueError(notation)
    return ['num', value, t]


def _hexcase(v, rng):
    h = format(v, 'x')
    if rng is None:
        return h
    c = rng.random()
    if c < 0.4:
        return h
    if c < 0.8:
        return h.upper()
    return ''.join(ch.upper() if rng.random() < 0.5 else ch for ch in h)


NOTATIONS = ['dec', 'dollar', '0x', 'H', 'pct', 'b', 'char']
CHAR_POOL = [c for c in map(chr, range(33, 127)) if c not in ",'\"\\: "]


# ---------------------------------------------------------------------------------------------------------------------
# independent recogniser of the documented grammar, over token lists
def well_formed(toks):
    """LL(1) recogniser:  E := T (binop T)* ;  T := '-' T | FUNC E ')' | '(' E ')' | literal | name"""
    pos = [0]

    def peek():
        return toks[pos[0]] if pos[0] < len(toks) else None

    def eat():
        pos[0] += 1

    def term():
        t = peek()
        if t is None:
            return False
        if t == '-':
            eat()
            return term()
        if t == '(':
            eat()
            if not expr():
                return False
            if peek() != ')':
                return False
            eat()
            return True
        if is_func(t):
            eat()
            if not expr():
                return False
            if peek() != ')':
                return False
            eat()
            return True
        if is_literal(t) or is_name(t):
            eat()
            return True
        return False

    def expr():
        if not term():
            return False
        while peek() in LEVEL:
            eat()
            if not term():
                return False
        return True

    ok = expr()
    return ok and pos[0] == len(toks)


def is_func(t):
    return t == 'LSB(' or (len(t) == 6 and t.startswith('BYTE') and t[4].isdigit() and t[5] == '(')


def is_literal(t):
    import re
    return re.fullmatch(r"\d+|\$[0-9a-fA-F]+|0x[0-9a-fA-F]+|[0-9a-fA-F]+H|[%b][01]+|'.'", t) is not None


def is_name(t):
    import re
    return re.fullmatch(r'[._]?[A-Za-z][A-Za-z0-9_]*|_[A-Za-z0-9_]+', t) is not None and not is_literal(t) \
        and not t.startswith('..') and not t.startswith('__')


# ---------------------------------------------------------------------------------------------------------------------
# text -> AST (used where the model has to evaluate text it did not build itself, e.g. after symbol substitution)
import re as _re

_TOKEN = _re.compile(r"\s*(BYTE\d\(|LSB\(|<<|>>|\$[0-9a-fA-F]+|0x[0-9a-fA-F]+|[0-9][0-9a-fA-F]*H\b|%[01]+|\d+|'.'|"
                     r"[._]?[A-Za-z_][A-Za-z0-9_]*|[-+*/%&|^()])")


class ParseError(Exception):
    pass


def tokenize(text):
    pos = 0
    out = []
    text = text.strip()
    while pos < len(text):
        m = _TOKEN.match(text, pos)
        if not m:
            raise ParseError('bad character at %d in %r' % (pos, text))
        out.append(m.group(1))
        pos = m.end()
    return out


def _lit_value(t):
    if t[0] == '$':
        return int(t[1:], 16)
    if t.startswith('0x'):
        return int(t[2:], 16)
    if t.endswith('H'):
        return int(t[:-1], 16)
    if t[0] == '%':
        return int(t[1:], 2)
    if t[0] == "'":
        return ord(t[1])
    return int(t)


def parse(text_or_tokens):
    toks = tokenize(text_or_tokens) if isinstance(text_or_tokens, str) else list(text_or_tokens)
    pos = [0]

    def peek():
        return toks[pos[0]] if pos[0] < len(toks) else None

    def eat():
        t = toks[pos[0]]
        pos[0] += 1
        return t

    def primary():
        t = peek()
        if t is None:
            raise ParseError('unexpected end')
        if t == '-':
            eat()
            return ['neg', primary()]
        if t == '(':
            eat()
            e = expr(0)
            if peek() != ')':
                raise ParseError('expected )')
            eat()
            return ['par', e]
        if is_func(t):
            eat()
            e = expr(0)
            if peek() != ')':
                raise ParseError('expected )')
            eat()
            return ['lsb', e] if t == 'LSB(' else ['byte', int(t[4]), e]
        if _re.fullmatch(r"\$[0-9a-fA-F]+|0x[0-9a-fA-F]+|[0-9][0-9a-fA-F]*H|%[01]+|\d+|'.'", t):
            eat()
            return ['num', _lit_value(t), t]
        if _re.fullmatch(r'[._]?[A-Za-z_][A-Za-z0-9_]*', t):
            eat()
            return ['name', t]
        raise ParseError('unexpected token ' + t)

    def expr(minlevel):
        left = primary()
        while True:
            t = peek()
            if t not in LEVEL or LEVEL[t] < minlevel:
                return left
            eat()
            right = expr(LEVEL[t] + 1)
            left = ['bin', t, left, right]

    e = expr(0)
    if pos[0] != len(toks):
        raise ParseError('trailing tokens')
    return e
