"""Decoders for the four human-readable output formats, written from the format definitions (not from the printers)."""
import re


class DecodeError(Exception):
    pass


# ---------------------------------------------------------------------------------------------------------------------
def decode_listing(text):
    """-> list of rows {'file','line','addr','bytes','text','comment'}; columns located from each header rule."""
    rows = []
    cur_file = None
    cols = None
    rule_seen = 0
    for raw in text.split('\n'):
        if raw.startswith('File: '):
            cur_file = raw[6:]
            cols = None
            rule_seen = 0
            continue
        if cur_file is None or raw.strip() == '':
            continue
        if re.fullmatch(r'-+(\+-+)+', raw):
            plus = [i for i, ch in enumerate(raw) if ch == '+']
            if len(plus) != 4:
                raise DecodeError('listing rule with %d columns' % (len(plus) + 1))
            cols = plus
            rule_seen += 1
            continue
        if cols is None:
            raise DecodeError('row before header rule: ' + raw[:60])
        if rule_seen < 2:
            continue        # the header text line between the two rules
        # the first three columns (line, address, machine code) never contain '|'; the instruction text may
        parts = raw.split('|', 3)
        if len(parts) < 4:
            raise DecodeError('row with fewer than four columns: ' + raw[:60])
        c0, c1, c2 = parts[0].strip(), parts[1].strip(), parts[2].strip()
        rest = parts[3]
        width = cols[3] - cols[2] - 1
        c3 = rest[:width] if len(rest) > width and rest[width:width + 1] == '|' else rest.rsplit('|', 1)[0]
        c4 = rest[width + 1:].strip() if len(rest) > width and rest[width:width + 1] == '|' else rest.rsplit('|', 1)[-1].strip()
        try:
            bs = [int(x, 16) for x in c2.split()] if c2 else []
        except ValueError:
            raise DecodeError('bad byte column: ' + c2)
        if c0 == '':
            if not rows:
                raise DecodeError('continuation row first')
            rows[-1]['bytes'].extend(bs)
            continue
        try:
            ln = int(c0)
            addr = int(c1, 16) if c1 else None
        except ValueError:
            raise DecodeError('bad line/address column: ' + raw[:60])
        rows.append({'file': cur_file, 'line': ln, 'addr': addr, 'bytes': bs, 'text': c3.strip(), 'raw_text': c3,
                     'comment': c4})
    return rows


def listing_map(rows):
    M = {}
    for r in rows:
        if r['addr'] is None:
            continue
        for i, b in enumerate(r['bytes']):
            M[r['addr'] + i] = b
    return M


# ---------------------------------------------------------------------------------------------------------------------
def decode_intel_hex(text):
    """Intel HEX record types 00/01/02/04 (03/05 ignored), checksum verified. -> {addr: byte}"""
    M = {}
    base = 0
    eof = False
    for raw in text.split('\n'):
        line = raw.strip()
        if not line:
            continue
        if eof:
            raise DecodeError('data after EOF record')
        if not line.startswith(':'):
            raise DecodeError('record without colon: ' + line[:40])
        try:
            rec = bytes.fromhex(line[1:])
        except ValueError:
            raise DecodeError('non-hex record: ' + line[:40])
        if len(rec) < 5 or len(rec) != rec[0] + 5:
            raise DecodeError('record length mismatch: ' + line[:40])
        if sum(rec) & 0xFF:
            raise DecodeError('checksum: ' + line[:40])
        n, off, typ = rec[0], (rec[1] << 8) | rec[2], rec[3]
        data = rec[4:4 + n]
        if typ == 0:
            for i, b in enumerate(data):
                M[base + off + i] = b
        elif typ == 1:
            eof = True
        elif typ == 2:
            base = ((data[0] << 8) | data[1]) << 4
        elif typ == 4:
            base = ((data[0] << 8) | data[1]) << 16
        elif typ in (3, 5):
            pass
        else:
            raise DecodeError('record type %d' % typ)
    if not eof:
        raise DecodeError('no EOF record')
    return M



# ---------------------------------------------------------------------------------------------------------------------
def decode_hexdump(text):
    """Rows 'addr  b b ... |ascii|' ; '--' marks an absent byte. -> {addr: byte}"""
    M = {}
    for raw in text.split('\n'):
        if not raw.strip():
            continue
        m = re.match(r'^([0-9A-Fa-f]+)\s+(.*?)\s*\|(.*)\|\s*$', raw)
        if not m:
            raise DecodeError('hexdump row: ' + raw[:60])
        addr = int(m.group(1), 16)
        cells = m.group(2).split()
        if len(cells) > 16:
            raise DecodeError('hexdump row with %d cells' % len(cells))
        for i, c in enumerate(cells):
            if c == '--':
                continue
            if not re.fullmatch(r'[0-9A-Fa-f]{2}', c):
                raise DecodeError('hexdump cell: ' + c)
            M[addr + i] = int(c, 16)
    return M


# ---------------------------------------------------------------------------------------------------------------------
def decode_minhex(text, origin=0):
    """Compact hex: ':'-rows of bytes; a row holding a single address sets the position.
    Assumption (stated in evidence): without an address row the data continues contiguously, starting at the origin."""
    M = {}
    pos = origin
    for raw in text.split('\n'):
        line = raw.strip()
        if not line:
            continue
        if line.startswith(':'):
            for c in line[1:].split():
                if not re.fullmatch(r'[0-9A-Fa-f]{2}', c):
                    raise DecodeError('minhex cell: ' + c)
                M[pos] = int(c, 16)
                pos += 1
        else:
            if not re.fullmatch(r'[0-9A-Fa-f]+', line):
                raise DecodeError('minhex address row: ' + line[:40])
            pos = int(line, 16)
    return M
