"""Reference two-pass layout model (Appendix A.1–A.3, A.9): zones, cursors, labels, memory map.  Never imports bespokeasm.

Input: a stream of line dicts (the selected lines of all files, includes already flattened with
{'k':'include_begin'} / {'k':'include_end'} markers).  Line kinds:
  label(name) const(name,val) instr/data/bytes/fill/zero/zerountil (byte lines; size via size_of / fields)
  org(addr, zone|None) align(p|None) memzone(name) mute unmute create_memzone(name,start,end) other (no effect)
Output: Result with per-line addr/size/zone/muted, label table, memory map M, verdict kind.
"""


class Result:
    def __init__(self):
        self.kind = 'ACCEPT'         # ACCEPT | REJECT | DONT_CARE
        self.reason = None
        self.lines = []              # the input dicts, annotated in place (addr, size, zone, muted)
        self.labels = {}             # (name, scope key) -> value  ; scope key: ('g',) | ('f', file) | ('l', file, region)
        self.M = {}                  # address -> byte (unmuted byte lines + predefined data)
        self.zones = {}
        self.byte_lines = []
        self.notes = []

    def reject(self, why):
        if self.kind != 'REJECT':
            self.kind = 'REJECT'
            self.reason = why

    def dont_care(self, why):
        if self.kind == 'ACCEPT':
            self.kind = 'DONT_CARE'
            self.reason = why


BYTE_KINDS = ('instr', 'data', 'bytes', 'fill', 'zero', 'zerountil')


def zone_table(addr_bits, predefined):
    """-> {name: [start, end]} including GLOBAL."""
    z = {}
    for p in predefined or []:
        z[p['name']] = [p['start'], p['end']]
    if 'GLOBAL' not in z:
        z['GLOBAL'] = [0, (1 << addr_bits) - 1]
    return z


def layout(lines, addr_bits, origin=0, predefined_zones=None, page_size=1, predefined_data=None, size_of=None):
    """Pass 1: addresses.  size_of(line, addr) -> byte size of a byte line (instr/data/bytes)."""
    res = Result()
    zones = zone_table(addr_bits, predefined_zones)
    res.zones = zones
    cursor = {n: z[0] for n, z in zones.items()}
    cursor['GLOBAL'] = origin
    G = zones['GLOBAL']
    cur_zone = 'GLOBAL'
    mute = 0
    stack = []
    for ln in lines:
        k = ln['k']
        ln['zone'] = cur_zone
        ln['muted'] = mute > 0
        if k == 'include_begin':
            stack.append(cur_zone)
            cur_zone = 'GLOBAL'
            continue
        if k == 'include_end':
            cur_zone = stack.pop()
            continue
        if k == 'create_memzone':
            n, s, e = ln['name'], ln['start'], ln['end']
            if n in zones:
                res.reject('duplicate zone name')
            elif s > e:
                res.reject('inverted zone')
            elif e > (1 << addr_bits) - 1:
                res.reject('zone beyond address width')
            elif s < G[0] or e > G[1]:
                res.reject('zone outside GLOBAL')
            else:
                zones[n] = [s, e]
                cursor[n] = s
            continue
        if k == 'mute':
            mute += 1
            continue
        if k == 'unmute':
            mute = max(0, mute - 1)
            continue
        if k == 'org':
            zn = ln.get('zone_name')
            if zn is None:
                cur_zone = 'GLOBAL'
                a = ln['addr']
            else:
                if zn not in zones:
                    res.reject('unknown zone')
                    continue
                cur_zone = zn
                a = zones[zn][0] + ln['addr']
            ln['zone'] = cur_zone
            ln['addr_set'] = a
            Z = zones[cur_zone]
            if not (Z[0] <= a <= Z[1]) or not (G[0] <= a <= G[1]):
                # nothing has been placed there yet: only bytes placed outside make rejection mandatory
                res.notes.append('org outside zone')
                ln['outside'] = True
            cursor[cur_zone] = a
            continue
        if k == 'memzone':
            if ln['name'] not in zones:
                res.reject('unknown zone')
                continue
            cur_zone = ln['name']
            ln['zone'] = cur_zone
            continue
        if k == 'align':
            p = ln.get('p') or page_size or 1
            a = cursor[cur_zone]
            if p <= 0:
                res.dont_care('page size <= 0')
                continue
            na = ((a + p - 1) // p) * p
            ln['addr'] = na
            cursor[cur_zone] = na
            Z = zones[cur_zone]
            if na > Z[1] + 1:
                res.notes.append('align beyond zone')
                ln['outside'] = True
            continue
        if k == 'label':
            ln['addr'] = cursor[cur_zone]
            continue
        if k in BYTE_KINDS:
            a = cursor[cur_zone]
            ln['addr'] = a
            if k == 'fill' or k == 'zero':
                n = ln['n']
                if n < 0:
                    res.dont_care('negative fill count')
                    n = 0
            elif k == 'zerountil':
                n = ln['a'] - a + 1 if ln['a'] >= a else 0
            else:
                n = size_of(ln, a)
            ln['size'] = n
            Z = zones[cur_zone]
            if n > 0:
                if a < Z[0] or a + n - 1 > Z[1]:
                    res.reject(f'bytes outside zone {cur_zone}')
                inG = (Z[0] >= G[0] and Z[1] <= G[1])
                if inG and (a < G[0] or a + n - 1 > G[1]):
                    res.reject('bytes outside GLOBAL')
            else:
                if a < Z[0] or a > Z[1] + 1:
                    res.dont_care('zero-length line outside its zone')
            cursor[cur_zone] = a + n
            res.byte_lines.append(ln)
            continue
        # const / comment / other: no layout effect
    # a cursor parked outside its zone with nothing placed there: the statement does not fix the outcome
    if res.kind == 'ACCEPT' and res.notes:
        res.dont_care('cursor moved outside a zone without placing bytes: ' + res.notes[0])
    res.lines = lines
    res.cursor = cursor
    res.final_zone = cur_zone
    res.predefined_data = predefined_data or []
    return res


def overlaps(res):
    """Interval check over unmuted byte lines and predefined data blocks. Returns (kind, detail)."""
    iv = []
    for ln in res.byte_lines:
        if ln.get('size', 0) > 0:
            iv.append((ln['addr'], ln['addr'] + ln['size'] - 1, ln.get('muted', False), ln))
    for pd in res.predefined_data:
        if pd['size'] > 0:
            iv.append((pd['address'], pd['address'] + pd['size'] - 1, False, pd))
    iv.sort(key=lambda t: (t[0], t[1]))
    hard = soft = None
    # sweep: compare each interval with the running maximum end of everything before it
    for i in range(len(iv)):
        for j in range(i + 1, len(iv)):
            if iv[j][0] > iv[i][1]:
                break
            if iv[i][2] or iv[j][2]:
                soft = (iv[i], iv[j])
            else:
                hard = (iv[i], iv[j])
                return 'REJECT', hard
    if soft:
        return 'DONT_CARE', soft
    return 'ACCEPT', None


def memory_map(res, bytes_of):
    """Pass 2: M[a+i] = byte i of each unmuted byte line; bytes_of(line) -> bytes (len == size)."""
    M = {}
    for pd in res.predefined_data:
        for i in range(pd['size']):
            M[pd['address'] + i] = pd['value'] & 0xFF
    for ln in res.byte_lines:
        b = bytes_of(ln)
        ln['bytes'] = b.hex()
        assert len(b) == ln['size'], (ln, len(b))
        if not ln.get('muted'):
            for i, x in enumerate(b):
                M[ln['addr'] + i] = x
    res.M = M
    return M


def image(M, start=0, end=None, fill=0):
    if end is None:
        if not M:
            return None
        end = max(M)
    if end < start:
        return b''
    return bytes(M.get(a, fill & 0xFF) for a in range(start, end + 1))


def data_bytes(width, vals, endian):
    out = bytearray()
    for v in vals:
        out += (v & ((1 << (8 * width)) - 1)).to_bytes(width, endian)
    return bytes(out)
