"""Reference semantics of preprocessor symbol substitution (Appendix A.5): whole-word, to a fix point, with cycle
detection.  Works on text; never imports bespokeasm."""
import re

IDENT = re.compile(r'(?<![A-Za-z0-9_])[A-Za-z_][A-Za-z0-9_]*(?![A-Za-z0-9_])')


class Cycle(Exception):
    pass


def substitute(text, symbols, _active=()):
    """Replaces every maximal identifier that names a defined symbol by that symbol's (recursively substituted) text."""
    def rep(m):
        name = m.group(0)
        if name not in symbols:
            return name
        if name in _active:
            raise Cycle(name)
        return substitute(symbols[name] or '', symbols, _active + (name,))
    return IDENT.sub(rep, text)
