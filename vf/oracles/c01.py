"""C01 — instruction encoding is exactly the bit layout the ISA definition prescribes.

Oracle: vf.model.encode (independent integer-arithmetic encoder) over generated ISA definitions and statements
synthesised from a chosen variant/alternative with known values; compared with the image bytes at the model address.
Supporting probe: trace of PackedBits.append_bits per instruction (`fields`), `sizes`.
"""
import re

from vf import core, isa as isamod, gen_isa
from vf.model import encode, layout

LABEL_POOL = ['start', 'loop1', 'Data_blk', 'tgt9', 'end_of', 'w', 'vec_tbl', 'L3', 'ld_x', 'adc2', 'mov_it', 'q7z']


def stmt_tags(isa, stmt, fl, addr, size, target_dir):
    """Feature buckets of one encoded statement (computed from the model's field list and the ISA definition)."""
    tags = set()
    vconf = encode.variants_of(isa, stmt['mn'])[stmt['variant']]
    confs, group = encode.operand_confs(isa, vconf, stmt.get('spec'), [o['id'] for o in stmt['ops']])
    default_endian = isa['general'].get('endian', 'big')
    npre = nsuf = nargs = 0
    for c, o in zip(confs, stmt['ops']):
        t = c['type']
        if 'bytecode' in c:
            pos = c['bytecode'].get('position', 'suffix')
            tags.add(f'type:{t}/code-{pos}')
            if pos == 'prefix':
                npre += 1
            else:
                nsuf += 1
        else:
            tags.add(f'type:{t}/no-code')
        if t == 'relative_address':
            tags.add('relative:' + ('from-end' if c.get('offset_from_instruction_end') else 'from-start') + '/' +
                     target_dir.get(id(o), 'literal'))
            if c.get('use_curly_braces'):
                tags.add('relative:curly')
        if t == 'address' and c['argument'].get('slice_lsb'):
            tags.add('address:sliced')
        if c.get('decorator'):
            tags.add('decorator:' + ('prefix' if c['decorator'].get('is_prefix') else 'postfix'))
    bits = 0
    for v, n, al, e, k in fl:
        if al and bits % 8:
            bits += 8 - bits % 8
        off = bits % 8
        if k == 'arg':
            nargs += 1
            tags.add(f'field:{gen_isa.size_class(n)}/{e}/{"aligned" if al else "packed"}/{"off" if off else "byte"}')
            if v < 0 and n % 8:
                tags.add('negative-in-non-byte-multiple-field')
        bits += n
    if npre >= 2:
        tags.add('prefix-codes>=2')
    if group.get('reverse_bytecode_order') and (npre >= 2 or nsuf >= 2):
        tags.add('reverse_bytecode_order/>=2-codes')
    if group.get('reverse_argument_order') and nargs >= 2:
        tags.add('reverse_argument_order/>=2-args')
    if 'suffix' in vconf['bytecode']:
        tags.add('opcode-suffix')
    if vconf['bytecode'].get('endian', default_endian) != default_endian:
        tags.add('opcode-endian!=default')
    if stmt.get('spec'):
        tags.add('specific-operands')
    if vconf['bytecode']['size'] % 8:
        tags.add('opcode-not-byte-multiple')
    return tags


def layout_sig(fl):
    out = []
    bits = 0
    for v, n, al, e, k in fl:
        if al and bits % 8:
            bits += 8 - bits % 8
        out.append(f'{k[0]}{n}{"a" if al else ""}{e[0]}@{bits % 8}')
        bits += n
    return ' '.join(out)


def build_program(rng, isa, zones_pre, nstmt, max_addr, twin=None, macro_pair=None):
    """-> (lines, labels, isa) ; lines: [{'k','text',...}] with model addr/size/bytes; None if nothing could be built."""
    addr_bits = isa['general']['address_size']
    zt = layout.zone_table(addr_bits, (isa.get('predefined') or {}).get('memory_zones'))
    zones = {k: tuple(v) for k, v in zt.items()}
    top = min(zones['GLOBAL'][1], max_addr)
    names = list(LABEL_POOL)
    rng.shuffle(names)
    regs = set(isa['general'].get('registers', []))
    structure = [{'k': 'org', 'addr': rng.choice([0, 0, 1, 3, rng.randrange(0, max(1, top // 4))]), 'zone_name': None}]
    for i in range(nstmt):
        if names and rng.random() < 0.3:
            structure.append({'k': 'label', 'name': names.pop()})
        structure.append({'k': 'instr', 'stmt': gen_isa.pick_statement(rng, isa)})
        if rng.random() < 0.06:
            structure.append({'k': 'org', 'addr': None, 'zone_name': None, 'gap': rng.randrange(1, 40)})
    for attempt in range(6):
        # phase 1: addresses
        cur = None
        kept = []
        for ln in structure:
            if ln['k'] == 'org':
                a = ln['addr'] if ln.get('gap') is None else (cur or 0) + ln['gap']
                if a > top:
                    break
                ln = dict(ln, addr_val=a)
                cur = a
                kept.append(ln)
            elif ln['k'] == 'label':
                kept.append(dict(ln, addr=cur))
            else:
                sz = encode.size_of(isa, ln['stmt'])
                if cur + sz - 1 > top:
                    break
                kept.append(dict(ln, addr=cur, size=sz))
                cur += sz
        labels = {l['name']: l['addr'] for l in kept if l['k'] == 'label'}
        # phase 2: values
        bad = None
        for ln in kept:
            if ln['k'] != 'instr':
                continue
            if not gen_isa.assign_values(rng, isa, ln['stmt'], ln['addr'], ln['size'], zones, labels):
                bad = ln['stmt']
                break
        if bad is None:
            break
        structure = [l for l in structure if not (l['k'] == 'instr' and l['stmt'] is bad)]
    else:
        return None
    if not any(l['k'] == 'instr' for l in kept):
        return None
    # drop trailing non-byte lines so the image ends with an emitted byte
    while kept and kept[-1]['k'] != 'instr':
        kept.pop()
    labels = {l['name']: l['addr'] for l in kept if l['k'] == 'label'}
    # twin statements: the same statement twice, its numeric operand written as two constants whose names differ only in
    # letter case and whose values differ - no emitted bit may depend on an earlier statement
    consts = []
    if twin is None:
        twin = rng.random() < 0.4
    if twin:
        import copy
        simple = ('numeric', 'address', 'register', 'enumeration', 'numeric_bytecode', 'indirect_register', 'numeric_enumeration', 'empty')
        last = kept[-1]
        end = last['addr'] + last['size']
        for ln in [l for l in kept if l['k'] == 'instr']:
            stmt = ln['stmt']
            vconf = encode.variants_of(isa, stmt['mn'])[stmt['variant']]
            confs, _ = encode.operand_confs(isa, vconf, stmt.get('spec'), [o['id'] for o in stmt['ops']])
            if not all(c['type'] in simple and not (c.get('argument') or {}).get('slice_lsb') for c in confs):
                continue
            ks = [k for k, c in enumerate(confs) if c['type'] in ('numeric', 'address') and stmt['ops'][k].get('val') is not None]
            if not ks or end + ln['size'] - 1 > top:
                continue
            k = ks[0]
            v1 = stmt['ops'][k]['val']
            for v2 in (v1 ^ 1, v1 + 1, v1 - 1, v1 ^ 2):
                st2 = copy.deepcopy(stmt)
                st2['ops'][k]['val'] = v2
                try:
                    encode.encode(isa, st2, end, zones)
                except (encode.Reject, encode.DontCare):
                    continue
                n1, n2 = rng.choice([('Twn_q', 'twn_q'), ('KVAL', 'kval'), ('Lim_x', 'LIM_X')])
                stmt['ops'][k]['text'] = n1
                st2['ops'][k]['text'] = n2
                consts = [(n1, v1), (n2, v2)]
                kept.append({'k': 'instr', 'stmt': st2, 'addr': end, 'size': ln['size'], 'twin': True})
                break
            if consts:
                break
    out = []
    for nm, v in consts:
        out.append({'k': 'const', 'text': f'{nm} = {v}'})
    for ln in kept:
        if ln['k'] == 'org':
            out.append({'k': 'org', 'text': f'.org {gen_isa.render_value(rng, ln["addr_val"])}', 'addr': ln['addr_val']})
        elif ln['k'] == 'label':
            out.append({'k': 'label', 'text': ln['name'] + ':', 'name': ln['name'], 'addr': ln['addr']})
        else:
            stmt = ln['stmt']
            target_dir = {}
            vconf = encode.variants_of(isa, stmt['mn'])[stmt['variant']]
            confs, _ = encode.operand_confs(isa, vconf, stmt.get('spec'), [o['id'] for o in stmt['ops']])
            for c, o in zip(confs, stmt['ops']):
                if c['type'] == 'relative_address':
                    target_dir[id(o)] = 'forward' if o['val'] > ln['addr'] else 'backward'
            try:
                b, fl = encode.encode(isa, stmt, ln['addr'], zones)
            except (encode.Reject, encode.DontCare) as e:   # generator promised valid values
                raise AssertionError(f'generator produced a rejected statement: {e} {stmt}')
            sp = (lambda: rng.choice(['', '', ' ', '  ']))
            text = gen_isa.render_statement(rng, isa, stmt, labels, sp)
            out.append({'k': 'instr', 'text': text, 'addr': ln['addr'], 'size': ln['size'], 'bytes': b.hex(),
                        'fields': [[v, n, al, e, k] for v, n, al, e, k in fl],
                        'tags': sorted(stmt_tags(isa, stmt, fl, ln['addr'], ln['size'], target_dir) |
                                       ({'twin-statement:operand-names-differ-in-case-only'} if ln.get('twin') else set())),
                        'sig': layout_sig(fl)})
    # two neighbouring statements written as the two steps of a macro without operands: each step is encoded as the statement
    # it is, at its own address and with its own size (an address-relative step knows nothing of its sibling)
    if macro_pair is None:
        macro_pair = rng.random() < 0.35
    pairs = [i for i in range(len(out) - 1) if out[i]['k'] == 'instr' and out[i + 1]['k'] == 'instr' and
             out[i]['addr'] + out[i]['size'] == out[i + 1]['addr'] and not any('twin' in t for t in out[i]['tags'] + out[i + 1]['tags'])]
    if macro_pair and pairs and 'macros' not in isa:
        rel_end = [i for i in pairs if any(t.startswith('relative:from-end') for t in out[i]['tags'] + out[i + 1]['tags'])]
        rel = [i for i in pairs if any(t.startswith('relative:') for t in out[i]['tags'] + out[i + 1]['tags'])]
        i = rng.choice(rel_end or rel or pairs)
        isa['macros'] = {'c01_pair': [{'instructions': [out[i]['text'], out[i + 1]['text']]}]}
        for j in (i, i + 1):
            out[j]['tags'] = sorted(set(out[j]['tags']) | {'step-of-a-macro'} |
                                    {'step-of-a-macro/' + t for t in out[j]['tags'] if t.startswith('relative:from-')})
            out[j]['written'] = out[j]['text']
        out[i]['text'] = rng.choice(['c01_pair', 'C01_PAIR', '  c01_pair'])
        out[i + 1]['text'] = None
    return out


def sweep_isa(aligned, endian, default_endian):
    obj = isamod.base_isa(address_size=16, endian=default_endian)
    obj['operand_sets'] = {}
    obj['instructions'] = {}
    for n in range(1, 65):
        obj['operand_sets'][f'o{n}'] = {'operand_values': {f'v{n}': {
            'type': 'numeric', 'argument': {'size': n, 'byte_align': aligned, 'endian': endian}}}}
        for pre in range(1, 9):
            obj['instructions'][f'f{n}_{pre}'] = {
                'bytecode': {'value': (1 << pre) - 1, 'size': pre},
                'operands': {'count': 1, 'operand_sets': {'list': [f'o{n}']}}}
    return obj


def sweep_values(n):
    mask = (1 << n) - 1
    vals = [0, 1, mask, 1 << (n - 1), -1, -(1 << (n - 1)), 0xAAAAAAAAAAAAAAAA & mask, 0x0123456789ABCDEF & mask]
    return vals


class C01(core.Check):
    pid = 'C01'
    level = 'exploration'
    rule = ('generated ISA definitions (address width 8..32, default endian, opcode 1..64 bits +- endian +- suffix, 0..3 '
            'operands from textually-disjoint operand sets or a specific-operand list, all 13 operand types, code '
            'size/position, argument size 1..64 / byte_align / endian, reverse options) x statements synthesised from a '
            'chosen variant and alternative with in-range values (boundary-biased), placed at varied addresses; expected '
            'bytes from an independent bit-string encoder. Plus the exhaustive grid: one argument of size 1..64 x '
            'align{0,1} x endian{big,little} x preceding opcode bits 1..8 x 8 values. distinct_nontrivial = distinct layout '
            'signatures (kind,size,aligned,endian,bit offset per field) with >=2 fields or a non-byte-multiple field.')
    assumptions = (
        'operand codes have no configurable byte order: laid out MSB first',
        'within the prefix group the first operand\'s code is adjacent to the opcode (prefix group in reverse operand order, '
        'suffix group in operand order); reverse_bytecode_order reverses both groups (behaviour of the pinned commit and of '
        'its tests; the wiki documenting it is not available offline)',
        'an indexed-register operand\'s code is its own code followed by the index operand\'s code, as one field',
        'values are inside their field range (range enforcement is C12); operand expressions avoid the shapes C07 owns',
        'alternatives of one operand set are textually disjoint (ambiguity is C13)',
    )
    chunk = 600
    required_buckets = {b: 3 for b in (
        [f'type:{t}/code-{p}' for t in ('numeric', 'address', 'relative_address', 'register', 'indirect_register',
                                        'indexed_register', 'indirect_indexed_register', 'indirect_numeric',
                                        'deferred_numeric', 'enumeration', 'numeric_enumeration', 'numeric_bytecode',
                                        'empty') for p in ('prefix', 'suffix')] +
        [f'type:{t}/no-code' for t in ('numeric', 'address', 'relative_address', 'indirect_register', 'indirect_numeric',
                                       'deferred_numeric', 'enumeration', 'numeric_enumeration')] +
        ['prefix-codes>=2', 'reverse_bytecode_order/>=2-codes', 'reverse_argument_order/>=2-args', 'opcode-suffix',
         'opcode-endian!=default', 'relative:from-start/forward', 'relative:from-start/backward',
         'relative:from-end/forward', 'relative:from-end/backward', 'negative-in-non-byte-multiple-field',
         'address:sliced', 'relative:curly', 'decorator:prefix', 'decorator:postfix', 'specific-operands',
         'twin-statement:operand-names-differ-in-case-only', 'sets-and-specific-in-one-variant', 'step-of-a-macro',
         'step-of-a-macro/relative:from-end/forward', 'step-of-a-macro/relative:from-end/backward', 'index-code:negative'] +
        [f'grid:{c}/{e}/{a}' for c in ('1', '2-7', '8', '9-15', '16', '17-31', '32', '33-63', '64')
         for e in ('big', 'little') for a in ('aligned', 'packed')])}

    def __init__(self):
        self.n_stmt = 0
        self.exhaustive_grid = 0
        self.trace_agree = 0
        self.trace_differ = 0

    def _case(self, obj, lines, fmt, tag):
        fn, text = isamod.render_isa(obj, fmt)
        src = ''.join(l['text'] + '\n' for l in lines if l.get('text') is not None)
        return {'runs': [{'files': {fn: text, 'p.asm': src}, 'argv': ['compile', '-c', fn, 'p.asm', '-o', 'out.bin'],
                          'probes': ['steps', 'fields', 'sizes', 'contracts'], 'step_limit': 3_000_000}],
                'meta': {'lines': lines, 'fmt': fmt}, 'tags': [tag]}

    def cases(self, tier, seed):
        # exhaustive grid (seed independent)
        for aligned in (False, True):
            for endian in ('big', 'little'):
                obj = sweep_isa(aligned, endian, 'big' if endian == 'little' else 'little')
                stmts = []
                for n in range(1, 65):
                    for pre in range(1, 9):
                        for v in sweep_values(n):
                            stmts.append((n, pre, v))
                for i in range(0, len(stmts), 128):
                    lines = [{'k': 'org', 'text': '.org 0', 'addr': 0}]
                    addr = 0
                    for n, pre, v in stmts[i:i + 128]:
                        mn = f'f{n}_{pre}'
                        st = {'mn': mn, 'variant': 0, 'spec': None, 'ops': [{'id': f'v{n}', 'val': v}]}
                        b, fl = encode.encode(obj, st, addr, {'GLOBAL': (0, 65535)})
                        txt = f'{mn} {v}' if v >= 0 else f'{mn} -{-v}'
                        lines.append({'k': 'instr', 'text': txt, 'addr': addr, 'size': len(b), 'bytes': b.hex(),
                                      'fields': [[a, s, al, e, k] for a, s, al, e, k in fl],
                                      'tags': [f'grid:{gen_isa.size_class(n)}/{endian}/{"aligned" if aligned else "packed"}'],
                                      'sig': layout_sig(fl)})
                        addr += len(b)
                        self.exhaustive_grid += 1
                    yield self._case(obj, lines, 'json', 'grid')
        # one variant with both an operand-set pattern and an explicitly listed combination, each with its own reverse options
        # (absent / true): the options of one pattern never leak into statements matched by the other
        import itertools as _it
        for fa, fb, ga, gb in _it.product([None, True], repeat=4):
            obj = isamod.base_isa(address_size=16, endian='big')
            obj['general']['registers'] = ['a', 'b']
            obj['operand_sets'] = {
                'rs': {'operand_values': {'ra': {'type': 'register', 'register': 'a', 'bytecode': {'value': 1, 'size': 3}},
                                          'rb': {'type': 'register', 'register': 'b', 'bytecode': {'value': 2, 'size': 3}}}},
                'n16': {'operand_values': {'nn': {'type': 'numeric', 'bytecode': {'value': 5, 'size': 3}, 'argument': {'size': 16, 'byte_align': True}}}},
                'n8': {'operand_values': {'n8': {'type': 'numeric', 'bytecode': {'value': 6, 'size': 3}, 'argument': {'size': 8, 'byte_align': True}}}}}
            sets = {'list': ['n8', 'n16']}
            spec = {'list': {'sx': {'type': 'indirect_numeric', 'bytecode': {'value': 3, 'size': 3}, 'argument': {'size': 16, 'byte_align': True}},
                             'sy': {'type': 'numeric', 'bytecode': {'value': 4, 'size': 3}, 'argument': {'size': 8, 'byte_align': True}}}}
            if fa:
                sets['reverse_argument_order'] = True
            if fb:
                sets['reverse_bytecode_order'] = True
            if ga:
                spec['reverse_argument_order'] = True
            if gb:
                spec['reverse_bytecode_order'] = True
            obj['instructions'] = {'ldq': {'bytecode': {'value': 2, 'size': 2}, 'operands': {'count': 2, 'operand_sets': sets,
                                                                                         'specific_operands': {'only': spec}}}}
            lines = [{'k': 'org', 'text': '.org 0', 'addr': 0}]
            addr = 0
            for st, txt in (({'mn': 'ldq', 'variant': 0, 'spec': 'only', 'ops': [{'id': 'sx', 'val': 0x1234}, {'id': 'sy', 'val': 0x56}]}, 'ldq [$1234], $56'),
                            ({'mn': 'ldq', 'variant': 0, 'spec': None, 'ops': [{'id': 'n8', 'val': 0x9A}, {'id': 'nn', 'val': 0xBCDE}]}, 'ldq $9a, $bcde'),
                            ({'mn': 'ldq', 'variant': 0, 'spec': 'only', 'ops': [{'id': 'sx', 'val': 0x0102}, {'id': 'sy', 'val': 3}]}, 'ldq [258], 3')):
                b, fl = encode.encode(obj, st, addr, {'GLOBAL': (0, 65535)})
                lines.append({'k': 'instr', 'text': txt, 'addr': addr, 'size': len(b), 'bytes': b.hex(),
                              'fields': [[a, s_, al, e, k] for a, s_, al, e, k in fl],
                              'tags': ['sets-and-specific-in-one-variant', 'specific-operands' if st['spec'] else 'operand-sets'],
                              'sig': layout_sig(fl)})
                addr += len(b)
            yield self._case(obj, lines, 'json', 'sets+specific')
        # the index of an (indirect) indexed register as an operand code of its own (numeric_bytecode, also negative; an
        # enumeration of numbers mapping to codes): its bits sit next to the register's code and touch nothing else
        for typ, fmt_ in (('indexed_register', '{r}+{x}'), ('indirect_indexed_register', '[{r} + {x}]')):
            for isz, rsz, opc_bits in ((4, 3, 1), (3, 2, 3), (5, 4, 7), (2, 6, 8)):
                obj = isamod.base_isa(address_size=16, endian='big')
                obj['general']['registers'] = ['x', 'sp']
                obj['operand_sets'] = {'ix': {'operand_values': {
                    'ox': {'type': typ, 'register': 'x', 'bytecode': {'value': (1 << rsz) - 2, 'size': rsz},
                           'index_operands': {'nb': {'type': 'numeric_bytecode', 'bytecode': {'size': isz, 'min': -(1 << (isz - 1)), 'max': (1 << isz) - 1}}}},
                    'osp': {'type': typ, 'register': 'sp', 'bytecode': {'value': 1, 'size': rsz},
                            'index_operands': {'nb': {'type': 'numeric_bytecode', 'bytecode': {'size': isz, 'min': -(1 << (isz - 1)), 'max': (1 << isz) - 1}}}}}}}
                obj['instructions'] = {'lda': {'bytecode': {'value': 1, 'size': opc_bits}, 'operands': {'count': 1, 'operand_sets': {'list': ['ix']}}}}
                vals = sorted({0, 1, (1 << isz) - 1, -1, -(1 << (isz - 1)), (1 << (isz - 1)) - 1, -2 if isz > 2 else -1})
                lines = [{'k': 'const', 'text': f'C01_M{-v} = 0 - {-v}'} for v in vals if v < 0] + [{'k': 'org', 'text': '.org 0', 'addr': 0}]
                addr = 0
                for oid, reg in (('ox', 'x'), ('osp', 'sp')):
                    for v in vals:
                        st = {'mn': 'lda', 'variant': 0, 'spec': None, 'ops': [{'id': oid, 'index': {'id': 'nb', 'val': v}}]}
                        b, fl = encode.encode(obj, st, addr, {'GLOBAL': (0, 65535)})
                        txt = 'lda ' + fmt_.format(r=reg, x=(v if v >= 0 else f'C01_M{-v}'))
                        lines.append({'k': 'instr', 'text': txt, 'addr': addr, 'size': len(b), 'bytes': b.hex(),
                                      'fields': [[a, s_, al, e, k] for a, s_, al, e, k in fl],
                                      'tags': ['index-given-as-an-operand-code', 'index-code:negative' if v < 0 else 'index-code:non-negative'],
                                      'sig': layout_sig(fl)})
                        addr += len(b)
                yield self._case(obj, lines, 'json', 'index-code')
        # the selected variant's opcode: a short form listed in front of a general form that takes the same text - and a third one
        # behind both (the first variant that takes the statement gives every field)
        for endian in ('big', 'little'):
            obj = isamod.base_isa(address_size=16, endian=endian)
            obj['general']['registers'] = ['a', 'b']
            obj['operand_sets'] = {
                'reg': {'operand_values': {'ra': {'type': 'register', 'register': 'a', 'bytecode': {'value': 1, 'size': 4}},
                                           'rb': {'type': 'register', 'register': 'b', 'bytecode': {'value': 2, 'size': 4}}}},
                'i8': {'operand_values': {'n8': {'type': 'numeric', 'argument': {'size': 8, 'byte_align': True}}}},
                'i16': {'operand_values': {'n16': {'type': 'numeric', 'argument': {'size': 16, 'byte_align': True}}}}}
            obj['instructions'] = {'ld': {
                'bytecode': {'value': 0x1, 'size': 4},
                'operands': {'count': 2, 'specific_operands': {'short_a': {'list': {
                    'sa': {'type': 'register', 'register': 'a', 'bytecode': {'value': 0xA, 'size': 4}},
                    'sn': {'type': 'numeric', 'argument': {'size': 8, 'byte_align': True}}}}}},
                'variants': [{'bytecode': {'value': 0x2, 'size': 4}, 'operands': {'count': 2, 'operand_sets': {'list': ['reg', 'i16']}}},
                             {'bytecode': {'value': 0x3, 'size': 4}, 'operands': {'count': 2, 'operand_sets': {'list': ['reg', 'i8']}}}]}}
            lines = [{'k': 'org', 'text': '.org 0', 'addr': 0}]
            addr = 0
            for st, txt in (({'mn': 'ld', 'variant': 0, 'spec': 'short_a', 'ops': [{'id': 'sa'}, {'id': 'sn', 'val': 0x12}]}, 'ld a, $12'),
                            ({'mn': 'ld', 'variant': 1, 'spec': None, 'ops': [{'id': 'rb'}, {'id': 'n16', 'val': 0x1234}]}, 'ld b, $1234'),
                            ({'mn': 'ld', 'variant': 1, 'spec': None, 'ops': [{'id': 'rb'}, {'id': 'n16', 'val': 7}]}, 'ld b, 7'),
                            ({'mn': 'ld', 'variant': 0, 'spec': 'short_a', 'ops': [{'id': 'sa'}, {'id': 'sn', 'val': 7}]}, 'LD A, 7')):
                b, fl = encode.encode(obj, st, addr, {'GLOBAL': (0, 65535)})
                lines.append({'k': 'instr', 'text': txt, 'addr': addr, 'size': len(b), 'bytes': b.hex(),
                              'fields': [[a, s_, al, e, k] for a, s_, al, e, k in fl],
                              'tags': ['statement-taken-by-several-variants'], 'sig': layout_sig(fl)})
                addr += len(b)
            yield self._case(obj, lines, 'json', 'several-variants-take-it')
        # operands spelled like a mnemonic behind `$` (a hexadecimal number) or behind `.` (a local label): part of the operand
        for endian in ('big', 'little'):
            obj = isamod.base_isa(address_size=16, endian=endian)
            obj['operand_sets'] = {'i16': {'operand_values': {'n16': {'type': 'numeric', 'argument': {'size': 16, 'byte_align': True}}}}}
            obj['instructions'] = {'ldi': {'bytecode': {'value': 0x21, 'size': 8}, 'operands': {'count': 1, 'operand_sets': {'list': ['i16']}}},
                                   'adc': {'bytecode': {'value': 0x31, 'size': 8}}, 'dec': {'bytecode': {'value': 0x32, 'size': 8}},
                                   'add': {'bytecode': {'value': 0x33, 'size': 8}}, 'bad': {'bytecode': {'value': 0x34, 'size': 8}}}
            lines = [{'k': 'org', 'text': '.org 0', 'addr': 0}, {'k': 'label', 'text': 'c01_host:', 'addr': 0}, {'k': 'label', 'text': '.dec:', 'addr': 0}]
            addr = 0
            for txt, v in (('ldi $adc', 0xADC), ('ldi $dec', 0xDEC), ('ldi -$add', -0xADD), ('ldi $bad + $add', 0xBAD + 0xADD), ('ldi .dec', 0),
                           ('LDI $ADC', 0xADC), ('ldi $0adc', 0xADC), ('ldi 0 + $dec', 0xDEC)):
                st = {'mn': 'ldi', 'variant': 0, 'spec': None, 'ops': [{'id': 'n16', 'val': v}]}
                b, fl = encode.encode(obj, st, addr, {'GLOBAL': (0, 65535)})
                lines.append({'k': 'instr', 'text': txt, 'addr': addr, 'size': len(b), 'bytes': b.hex(),
                              'fields': [[a, s_, al, e, k] for a, s_, al, e, k in fl],
                              'tags': ['operand-spelled-like-a-mnemonic-behind-$-or-.'], 'sig': layout_sig(fl)})
                addr += len(b)
            yield self._case(obj, lines, 'json', 'mnemonic-spelling-inside-an-operand')
        # seed-independent prelude + seeded random programs
        n_pre = 250
        n_rand = 700 if tier == 'quick' else 12000
        for i in range(n_pre + n_rand):
            rng = core.rng_for(0 if i < n_pre else seed, self.pid, 'prog', i)
            obj, zones = gen_isa.gen_isa(rng)
            lines = build_program(rng, obj, zones, rng.randrange(4, 30), 1500)
            if not lines:
                continue
            fmt = 'yaml' if (gen_isa.needs_yaml(obj) or rng.random() < 0.08) else 'json'
            yield self._case(obj, lines, fmt, 'prelude' if i < n_pre else 'random')

    def judge(self, case, outcomes):
        o = outcomes[0]
        lines = case['meta']['lines']
        stmts = [l for l in lines if l['k'] == 'instr']
        if o.get('timed_out'):
            return [core.violated('termination:' + str(o['timed_out']), {'probes': (o.get('probes') or {}).get('steps')})]
        img = (o.get('files') or {}).get('out.bin')
        if o.get('exit') != 0 or img is None:
            err = (o.get('stderr') or '')[-700:]
            m = re.search(r'line (\d+)', err)
            culprit = None
            if m:
                ln = int(m.group(1))
                if 1 <= ln <= len(lines):
                    culprit = lines[ln - 1]
            cls = re.sub(r'[0-9]+', 'N', (err.strip().splitlines() or ['?'])[-1])[:80]
            types = ','.join(sorted({t.split('/')[0] for t in (culprit or {}).get('tags', []) if t.startswith('type:')}))
            return [core.violated(f'accepted-statement-rejected[{types}]', {'exit': o.get('exit'), 'stderr': err,
                                                                          'culprit': culprit, 'class': cls})]
        data = bytes.fromhex(img)
        vs = []
        probe = ((o.get('probes') or {}).get('sizes') or {})
        if probe.get('mismatch'):
            vs.append(core.violated('reserved!=emitted', {'mismatch': probe['mismatch'][:3]}))
        cb = ((o.get('probes') or {}).get('contracts') or {}).get('broken')
        if cb:
            vs.append(core.violated('contract-broken/append_bits-postcondition', {'v': cb[:3]}))
        # supporting monitor: the append_bits trace of every instruction must be the model's field list
        tr = ((o.get('probes') or {}).get('fields') or {}).get('instructions')
        if tr is not None:
            if (o['probes']['fields'].get('post_violations')):
                vs.append(core.violated('append_bits-cursor-postcondition', {'v': o['probes']['fields']['post_violations'][:3]}))
            by_addr = sorted(stmts, key=lambda l: l['addr'])
            for l, t in zip(by_addr, tr):
                if t['addr'] != l['addr']:
                    break
                mine = [[f[0] & ((1 << f[1]) - 1), f[1], f[2], f[3]] for f in l['fields']]
                theirs = [[f[0] & ((1 << f[1]) - 1), f[1], f[2], f[3]] for f in t['fields'] if f[1] > 0]
                if mine == theirs:
                    self.trace_agree += 1
                else:
                    self.trace_differ += 1
        for l in stmts:
            self.n_stmt += 1
            got = data[l['addr']:l['addr'] + l['size']]
            nt = None
            if len(l['fields']) >= 2 or any(f[1] % 8 for f in l['fields']):
                nt = l['sig']
            if got.hex() == l['bytes']:
                vs.append(core.held(buckets=l['tags'], nt=nt))
            else:
                types = ','.join(sorted({t.split('/')[0][5:] for t in l['tags'] if t.startswith('type:')})) or 'grid'
                vs.append(core.violated(f'bytes-differ[{types}]', {'text': l['text'], 'addr': l['addr'], 'expected': l['bytes'],
                                                                 'got': got.hex(), 'fields': l['fields']},
                                        buckets=l['tags'], nt=nt))
                break       # later statements may only differ because this one shifted them
        return vs

    def sample_of(self, case, outcomes):
        lines = case['meta']['lines']
        return {'source': [l['text'] for l in lines[:12]],
                'expected': [{'text': l['text'], 'addr': l['addr'], 'bytes': l['bytes'], 'fields': l['fields']}
                             for l in lines if l['k'] == 'instr'][:4],
                'isa_instructions': list(case['runs'][0]['files'])[0]}

    def extra_evidence(self):
        return {'evaluations': self.n_stmt, 'statements_checked': self.n_stmt, 'exhaustive': False,
                'fields_trace': {'agree_with_model': self.trace_agree, 'differ_from_model': self.trace_differ},
                'grid': f'{self.exhaustive_grid} grid statements (size 1..64 x align x endian x preceding bits 1..8 x 8 values): '
                        'enumerated completely'}
