"""C02 — address assignment and label values are consistent across both passes.

Oracle: two-pass layout model (zone cursors, per-line address and size, labels = cursor at the label, constants = value
of their expression); observed through (a) the listing's address column for every compilable line, (b) the image
(label probes: operands / data referencing labels before and after their definition).  Probes: sizes, cursor.
"""
from vf import core, isa as isamod, gen_prog
from vf.model import layout, formats


def build(rng, features=None, n=None):
    for attempt in range(12):
        g = gen_prog.Structured(rng, 16, features)
        g.gen(n or rng.randrange(8, 40))
        if g.finish():
            return g
    return None


class C02(core.Check):
    pid = 'C02'
    level = 'exploration'
    rule = ('structured programs interleaving labels of three scopes, constants (also from constants), instructions of sizes '
            '1..5 bytes, data, fills, absolute / backward / zone-relative origins, .align with default and explicit page sizes '
            '(incl. non powers of two, already-aligned addresses), zone switches, muted regions, conditionally excluded lines, '
            'and label probes (operands, data, BYTEn(label), label differences) before and after the definition; expected '
            'addresses and bytes from the layout model; observed via the listing address column of every line and the image. '
            'thorough adds the exhaustive .align sweep p in {1,2,3,4,8,16,256} x address 0..2p. distinct_nontrivial = distinct '
            '(sorted feature-tag set) of programs with at least one label reference.')
    rule = rule + ' ' + 'macro lines whose sub-byte steps are padded to whole bytes one by one stand among the byte lines.'
    assumptions = ('a label immediately followed by an origin/alignment/zone directive is not generated (the statement does not '
                   'fix whether it takes the address before or after the directive)',
                   'layout-affecting expressions use literals only; negative fill counts are not generated')
    chunk = 600
    required_buckets = {b: 3 for b in ['predefined-data-block-and-no-origin-in-front', 'labels-that-differ-in-the-scope-prefix-only', 'configured-origin-inside-a-named-zone', 'ref:forward', 'ref:backward', 'ref:in-expression', 'ref:byte-extraction',
                                       'ref:difference', 'org:forward', 'org:backwards', 'org:zone-relative', 'zone-switch',
                                       'align:from-aligned', 'align:from-unaligned', 'align:default-page',
                                       'align:explicit-page', 'align:non-power-of-2', 'muted-line', 'excluded-line',
                                       'const-from-const', 'label-before:instr', 'label-before:data', 'label-before:fill',
                                       'label-at-end', 'zerountil:behind-by-2+', 'zerountil:adjacent', 'zerountil:ahead',
                                       'global-redefined', 'global-redefined+origin-above-start', 'include-from:ZP', 'include-from:HI_z',
                                       'include-from:GLOBAL', 'label-at-2**address_size', 'macro-line', 'macro-line:sub-byte-steps', 'string-behind-a-wide-data-directive', 'chain-nested-in-excluded-branch']}

    def make_case(self, g, rng, extra_tags=()):
        isa = g.isa
        fmt = 'yaml' if rng.random() < 0.08 else 'json'
        fn, text = isamod.render_isa(isa, fmt)
        src = ''.join(l['text'] + '\n' for l in g.lines)
        res = g.res
        tags = set(g.tags) | set(extra_tags)
        exp_lines = {}
        prev_label = False
        sel = [l for l in g.lines if not l.get('excluded') and l['k'] != 'cond']
        for i, ln in enumerate(g.lines):
            if ln.get('excluded'):
                tags.add('excluded-line')
                continue
            k = ln['k']
            a = None
            if k == 'label' or k in layout.BYTE_KINDS or k == 'align':
                a = ln.get('addr')
            elif k == 'org':
                a = ln.get('addr_set')
            if k == 'align':
                p = ln.get('p') or g.page
                # cursor before the directive = aligned address minus what was added; recompute from the previous lines
                tags.add('align:explicit-page' if ln.get('p') else 'align:default-page')
                if p & (p - 1):
                    tags.add('align:non-power-of-2')
            if ln.get('muted') and k in layout.BYTE_KINDS:
                tags.add('muted-line')
            if a is not None:
                exp_lines[str(i + 1)] = {'addr': a, 'k': k, 'bytes': ln.get('bytes') if k in layout.BYTE_KINDS else None,
                                         'muted': bool(ln.get('muted')), 'text': ln['text']}
        # label-before buckets and align-from buckets need the cursor history
        cur = {}
        pend = False
        for ln in sel:
            if ln['k'] == 'label':
                pend = True
            elif ln['k'] in layout.BYTE_KINDS:
                if pend:
                    tags.add('label-before:' + ('fill' if ln['k'] in ('fill', 'zero', 'zerountil') else ln['k']))
                pend = False
        if pend or (sel and sel[-1]['k'] == 'label'):
            tags.add('label-at-end')
        # align from aligned / unaligned: compare with the cursor the model had before the directive
        z_cur = {}
        for ln in sel:
            zn = ln.get('zone')
            if ln['k'] == 'align':
                p = ln.get('p') or g.page
                before = z_cur.get(zn)
                if before is not None and p > 1:
                    tags.add('align:from-aligned' if before % p == 0 else 'align:from-unaligned')
                z_cur[zn] = ln['addr']
            elif ln['k'] == 'org':
                z_cur[ln['zone']] = ln['addr_set']
            elif ln['k'] in layout.BYTE_KINDS:
                z_cur[zn] = ln['addr'] + ln['size']
            elif ln['k'] == 'label':
                z_cur.setdefault(zn, ln['addr'])
        img = layout.image(res.M, 0, None, 0)
        return {'runs': [{'files': {fn: text, 'p.asm': src},
                          'argv': ['compile', '-c', fn, 'p.asm', '-o', 'out.bin', '-p', '-t', 'listing',
                                   '--pretty-print-output', 'l.txt'],
                          'probes': ['steps', 'sizes', 'cursor'], 'step_limit': 3_000_000}],
                'meta': {'lines': exp_lines, 'image': img.hex() if img is not None else None,
                         'labels': {**g.glob, **g.filel, **{f'{r}:{n}': a for (r, n), a in g.loc.items()}}},
                'tags': sorted(tags)}

    def cases(self, tier, seed):
        yield from self.predefined_data_cases()
        yield from self.prefix_twin_cases()
        yield from self.origin_inside_zone_cases()
        n_pre = 200
        n = 300 if tier == 'quick' else 8000
        for i in range(n_pre + n):
            rng = core.rng_for(0 if i < n_pre else seed, self.pid, i)
            g = build(rng)
            if g is None:
                continue
            yield self.make_case(g, rng)
        # directed .align cases (seed independent): page p, address a  -> the next line sits at ceil(a/p)*p
        pages = [2, 3, 8] if tier == 'quick' else [1, 2, 3, 4, 8, 16, 256]
        for p in pages:
            for a in range(0, 2 * p + 1):
                for explicit in (True, False):
                    rng = core.rng_for(0, self.pid, 'align', p, a, explicit)
                    g = gen_prog.Structured(rng, 16, {'zones': False})
                    g.isa = gen_prog.layout_isa(16, page_size=None if explicit else p)
                    g.zones = []
                    g.origin = 0
                    g.page = 1 if explicit else p
                    g.lines = [{'k': 'org', 'addr': a, 'zone_name': None}, {'k': 'align', 'p': p if explicit else None},
                               {'k': 'label', 'name': 'after', 'scope': 'g'}, {'k': 'data', 'width': 2, 'vals': [{'ref': 'after', 'k': 0}]},
                               {'k': 'data', 'width': 1, 'vals': [0xEF]}]
                    if g.finish():
                        yield self.make_case(g, rng, ['align-sweep'])

        # directed .zerountil cases: the target lies rel bytes from the cursor; the following lines sit right after it
        for a in ([0x10, 0x40, 0x7F] if tier == 'quick' else [0, 1, 0x10, 0x3F, 0x40, 0x7F, 0x100, 0x1234]):
            for rel in (-9, -4, -3, -2, -1, 0, 1, 2, 7):
                for moved in (False, True):
                    if a + rel < 0:
                        continue
                    rng = core.rng_for(0, self.pid, 'zu', a, rel, moved)
                    g = gen_prog.Structured(rng, 16, {'zones': False})
                    g.isa = gen_prog.layout_isa(16)
                    g.zones = []
                    g.origin = 0
                    g.page = 1
                    # cursor reaches a + 9 before the directive; target = cursor + rel
                    pre = [{'k': 'org', 'addr': a, 'zone_name': None}, {'k': 'fill', 'n': 9, 'v': 0xC3}]
                    if moved:
                        # the bytes behind the cursor were placed elsewhere, so addresses behind the cursor are free
                        pre = [{'k': 'org', 'addr': a + 9, 'zone_name': None}]
                    g.lines = pre + [{'k': 'zerountil', 'a': a + 9 + rel},
                                     {'k': 'label', 'name': 'after', 'scope': 'g'},
                                     {'k': 'data', 'width': 2, 'vals': [{'ref': 'after', 'k': 0}, {'ref': 'later', 'k': 1}]},
                                     {'k': 'label', 'name': 'later', 'scope': 'g'}, {'k': 'data', 'width': 1, 'vals': [0xEF]}]
                    if g.finish():
                        yield self.make_case(g, rng, ['zerountil-sweep', 'zerountil:' + ('behind-by-2+' if rel <= -2 else 'adjacent' if rel == -1 else 'ahead')])

        # a label right after the byte that fills the last address: its value is 2**address_size, in every kind of reference
        for ab in (8, 12, 16):
            for k_ in range(3):
                rng = core.rng_for(0, self.pid, 'top', ab, k_)
                g = gen_prog.Structured(rng, ab, {'zones': False, 'vary_width': False, 'global_zone': False})
                g.isa = gen_prog.layout_isa(ab)
                g.zones = []
                g.origin = 0
                g.page = 1
                top = (1 << ab) - 1
                n_tail = [1, 3, 6][k_]
                g.lines = [{'k': 'org', 'addr': top - n_tail - 7, 'zone_name': None},
                           {'k': 'data', 'width': 2, 'vals': [{'ref': 'end_of_space', 'k': 0}, {'diff': ('end_of_space', 'tail_l')}]},
                           {'k': 'label', 'name': 'tail_l', 'scope': 'g'},
                           {'k': 'data', 'width': 4, 'vals': [{'ref': 'end_of_space', 'k': -1}]},
                           {'k': 'data', 'width': 1, 'vals': [0x5A] * n_tail},
                           {'k': 'label', 'name': 'end_of_space', 'scope': 'g'}]
                if g.finish():
                    yield self.make_case(g, rng, ['label-at-2**address_size', 'label-at-end'])
        # directed include cases: an included file is laid out from the GLOBAL cursor whatever zone its includer had selected,
        # its labels take those addresses, and the includer's next line follows its own zone's last byte
        zones = [{'name': 'ZP', 'start': 0x100, 'end': 0x17F}, {'name': 'HI_z', 'start': 0x300, 'end': 0x3FF}]
        k = 0
        for zn in ('ZP', 'HI_z', 'GLOBAL'):
            for pre_n in (0, 3):
                for inc_shape in ('label-first', 'bytes-first', 'org-first'):
                    for how in ('memzone', 'zone-org'):
                        if zn == 'GLOBAL' and how == 'zone-org':
                            continue
                        rng = core.rng_for(0, self.pid, 'inc', k)
                        k += 1
                        isa = gen_prog.layout_isa(16, zones=zones)
                        sel = [{'k': 'memzone', 'name': zn}] if how == 'memzone' else [{'k': 'org', 'addr': 4, 'zone_name': zn}]
                        main_a = [{'k': 'data', 'width': 1, 'vals': [0x11] * 2}] + sel + \
                            ([{'k': 'data', 'width': 1, 'vals': [0x12] * pre_n}] if pre_n else []) + [{'k': 'label', 'name': 'before_inc'}]
                        inc = {'label-first': [{'k': 'label', 'name': 'inc_lbl'}, {'k': 'data', 'width': 1, 'vals': [0x21, 0x22, 0x23]}],
                               'bytes-first': [{'k': 'data', 'width': 1, 'vals': [0x21]}, {'k': 'label', 'name': 'inc_lbl'},
                                               {'k': 'data', 'width': 1, 'vals': [0x22]}],
                               'org-first': [{'k': 'org', 'addr': 0x40, 'zone_name': None}, {'k': 'label', 'name': 'inc_lbl'},
                                             {'k': 'data', 'width': 1, 'vals': [0x21, 0x22]}]}[inc_shape]
                        main_b = [{'k': 'label', 'name': 'after_inc'}, {'k': 'data', 'width': 1, 'vals': [0x31]},
                                  {'k': 'ref2', 'names': ['before_inc', 'inc_lbl', 'after_inc', 'tail_lbl']},
                                  {'k': 'memzone', 'name': 'GLOBAL'}, {'k': 'label', 'name': 'tail_lbl'}, {'k': 'data', 'width': 1, 'vals': [0x41]}]
                        stream = main_a + [{'k': 'include_begin'}] + inc + [{'k': 'include_end'}] + main_b
                        for l in stream:
                            if l['k'] == 'ref2':
                                l['k'] = 'data'
                                l['width'] = 2
                                l['vals'] = [0] * len(l['names'])
                        res = layout.layout(stream, 16, origin=0, predefined_zones=zones, size_of=lambda l, a: l['width'] * len(l['vals']))
                        if res.kind != 'ACCEPT' or layout.overlaps(res)[0] != 'ACCEPT':
                            continue
                        lab = {l['name']: l['addr'] for l in stream if l['k'] == 'label'}
                        for l in stream:
                            if 'names' in l:
                                l['vals'] = [lab[n] for n in l['names']]
                        layout.memory_map(res, lambda l: layout.data_bytes(l['width'], l['vals'], 'big'))

                        def text(l):
                            if 'names' in l:
                                return '.2byte ' + ', '.join(l['names'])
                            if l['k'] == 'data':
                                return '.byte ' + ', '.join(str(v) for v in l['vals'])
                            return gen_prog.render_line(l, None)
                        fn, itext = isamod.render_isa(isa, 'json')
                        fl = {fn: itext, 'p.asm': '\n'.join([text(l) for l in main_a] + ['#include "inc.asm"'] + [text(l) for l in main_b]) + '\n',
                              'inc.asm': '\n'.join(text(l) for l in inc) + '\n'}
                        yield {'runs': [{'files': fl, 'argv': ['compile', '-c', fn, 'p.asm', '-o', 'out.bin'],
                                         'probes': ['steps', 'sizes', 'cursor'], 'step_limit': 3_000_000}],
                               'meta': {'lines': {}, 'image': layout.image(res.M, 0, None, 0).hex(), 'labels': lab},
                               'tags': sorted({'include-sweep', 'include-from:' + zn, 'included-file:' + inc_shape, 'ref:forward', 'ref:backward'})}

    def predefined_data_cases(self):
        """data blocks predefined by the configuration lie at their configured addresses and take no part in the placing of the
        program's lines: the first line sits at the origin, labels count from there, the block's name is its address"""
        k = 0
        for blocks in ([('io_blk', 0x40, 4)], [('io_blk', 0x08, 1)], [('io_blk', 0x40, 2), ('tbl_b', 0x60, 5)], [('io_blk', 0x1000, 3)]):
            for origin in (None, 0x10):
                for lead in ('bytes', 'label', 'align', 'zone-relative-origin'):
                    k += 1
                    data = [{'name': n_, 'address': a_, 'value': 0x5A, 'size': z_} for n_, a_, z_ in blocks]
                    isa = gen_prog.layout_isa(16, data=data, origin=origin)
                    first = {'bytes': [], 'label': [], 'align': [{'k': 'align', 'p': 4}],
                             'zone-relative-origin': [{'k': 'org', 'addr': (origin or 0) + 2, 'zone_name': 'GLOBAL'}]}[lead]
                    stream = first + [{'k': 'label', 'name': 'start_l'}, {'k': 'data', 'width': 1, 'vals': [1, 2]},
                                      {'k': 'ref2', 'names': ['start_l', 'after_l'] + [n_ for n_, _, _ in blocks]},
                                      {'k': 'label', 'name': 'after_l'}, {'k': 'data', 'width': 1, 'vals': [3]}]
                    for l in stream:
                        if l['k'] == 'ref2':
                            l.update(k='data', width=2, vals=[0] * len(l['names']))
                    res = layout.layout(stream, 16, origin=origin or 0, predefined_data=data, size_of=lambda l, a: l['width'] * len(l['vals']))
                    if res.kind != 'ACCEPT' or layout.overlaps(res)[0] != 'ACCEPT':
                        continue
                    lab = {l['name']: l['addr'] for l in stream if l['k'] == 'label'}
                    lab.update({n_: a_ for n_, a_, _ in blocks})
                    for l in stream:
                        if 'names' in l:
                            l['vals'] = [lab[n] for n in l['names']]
                    layout.memory_map(res, lambda l: layout.data_bytes(l['width'], l['vals'], 'big'))

                    def text(l):
                        if 'names' in l:
                            return '.2byte ' + ', '.join(l['names'])
                        if l['k'] == 'data':
                            return '.byte ' + ', '.join(str(v) for v in l['vals'])
                        return gen_prog.render_line(l, None)
                    fn, itext = isamod.render_isa(isa, 'json')
                    yield {'runs': [{'files': {fn: itext, 'p.asm': '\n'.join(text(l) for l in stream) + '\n'}, 'argv': ['compile', '-c', fn, 'p.asm', '-o', 'out.bin'],
                                     'probes': ['steps', 'sizes', 'cursor'], 'step_limit': 3_000_000}],
                           'meta': {'lines': {}, 'image': layout.image(res.M, 0, None, 0).hex(), 'labels': lab},
                           'tags': sorted({'predefined-data-block-and-no-origin-in-front', 'first-line:' + lead, 'ref:forward', 'ref:backward'})}

    def origin_inside_zone_cases(self):
        """a configured origin that lies inside a predefined named zone is where GLOBAL starts, nothing else: the zone's own lines
        start at the zone's first address"""
        for zs, ze, origin in ((0x100, 0x1FF, 0x140), (0x100, 0x1FF, 0x1FF), (0x40, 0x5F, 0x41), (0x100, 0x1FF, 0x100), (0x100, 0x1FF, 0x80)):
            for first in ('global', 'zone'):
                zones = [{'name': 'ZN', 'start': zs, 'end': ze}]
                isa = gen_prog.layout_isa(16, origin=origin, zones=zones)
                g_part = [{'k': 'label', 'name': 'g_lbl'}, {'k': 'data', 'width': 1, 'vals': [1]}]
                z_part = [{'k': 'memzone', 'name': 'ZN'}, {'k': 'label', 'name': 'z_lbl'}, {'k': 'data', 'width': 1, 'vals': [2, 3]},
                          {'k': 'ref2', 'names': ['z_lbl', 'g_lbl', 'after_l']}, {'k': 'memzone', 'name': 'GLOBAL'}]
                stream = (g_part + z_part if first == 'global' else z_part + g_part) + [{'k': 'label', 'name': 'after_l'}, {'k': 'data', 'width': 1, 'vals': [4]}]
                for l in stream:
                    if l['k'] == 'ref2':
                        l.update(k='data', width=2, vals=[0] * len(l['names']))
                res = layout.layout(stream, 16, origin=origin, predefined_zones=zones, size_of=lambda l, a: l['width'] * len(l['vals']))
                if res.kind != 'ACCEPT' or layout.overlaps(res)[0] != 'ACCEPT':
                    continue
                lab = {l['name']: l['addr'] for l in stream if l['k'] == 'label'}
                for l in stream:
                    if 'names' in l:
                        l['vals'] = [lab[n] for n in l['names']]
                layout.memory_map(res, lambda l: layout.data_bytes(l['width'], l['vals'], 'big'))

                def text(l):
                    if 'names' in l:
                        return '.2byte ' + ', '.join(l['names'])
                    if l['k'] == 'data':
                        return '.byte ' + ', '.join(str(v) for v in l['vals'])
                    return gen_prog.render_line(l, None)
                fn, itext = isamod.render_isa(isa, 'json')
                yield {'runs': [{'files': {fn: itext, 'p.asm': '\n'.join(text(l) for l in stream) + '\n'}, 'argv': ['compile', '-c', fn, 'p.asm', '-o', 'out.bin'],
                                 'probes': ['steps', 'sizes', 'cursor'], 'step_limit': 3_000_000}],
                       'meta': {'lines': {}, 'image': layout.image(res.M, 0, None, 0).hex(), 'labels': lab},
                       'tags': sorted({'configured-origin-inside-a-named-zone' if zs < origin <= ze else 'configured-origin-and-a-named-zone', 'ref:forward', 'ref:backward'})}

    def prefix_twin_cases(self):
        """labels whose names differ in the scope prefix only (x, _x, .x) are three labels with three addresses, whichever of
        them a reference names and from wherever it does"""
        k = 0
        for base in ('delay', 'x', 'loop_1'):
            for order in (('', '_', '.'), ('_', '', '.'), ('', '.', '_')):
                for org in (0x100, 0):
                    k += 1
                    names = [p_ + base for p_ in order]
                    stream = [{'k': 'org', 'addr': org, 'zone_name': None}]
                    for j, nm in enumerate(names):
                        if nm.startswith('.') and j == 0:
                            continue
                        stream += [{'k': 'label', 'name': nm}, {'k': 'data', 'width': 1, 'vals': [0x10 + j] * (j + 1)}]
                        if not nm.startswith('.'):
                            # right behind a non-local label, every name defined so far (and the later ones of wider scope)
                            stream.append({'k': 'ref2', 'names': [n_ for n_ in names[:j + 1] if not n_.startswith('.')] +
                                           [n_ for n_ in names[j + 1:] if not n_.startswith('.')]})
                    last_local = [n_ for n_ in names if n_.startswith('.')]
                    stream.append({'k': 'ref2', 'names': [n_ for n_ in names if not n_.startswith('.')] +
                                   (last_local if stream and names.index(last_local[0]) == len(names) - 1 else [])})
                    for l in stream:
                        if l['k'] == 'ref2':
                            l.update(k='data', width=2, vals=[0] * len(l['names']))
                    res = layout.layout(stream, 16, origin=0, size_of=lambda l, a: l['width'] * len(l['vals']))
                    if res.kind != 'ACCEPT' or layout.overlaps(res)[0] != 'ACCEPT':
                        continue
                    lab = {l['name']: l['addr'] for l in stream if l['k'] == 'label'}
                    for l in stream:
                        if 'names' in l:
                            l['vals'] = [lab[n] for n in l['names']]
                    layout.memory_map(res, lambda l: layout.data_bytes(l['width'], l['vals'], 'big'))

                    def text(l):
                        if 'names' in l:
                            return '.2byte ' + ', '.join(l['names'])
                        if l['k'] == 'data':
                            return '.byte ' + ', '.join(str(v) for v in l['vals'])
                        return gen_prog.render_line(l, None)
                    isa = gen_prog.layout_isa(16)
                    fn, itext = isamod.render_isa(isa, 'json')
                    yield {'runs': [{'files': {fn: itext, 'p.asm': '\n'.join(text(l) for l in stream) + '\n'}, 'argv': ['compile', '-c', fn, 'p.asm', '-o', 'out.bin'],
                                     'probes': ['steps', 'sizes', 'cursor'], 'step_limit': 3_000_000}],
                           'meta': {'lines': {}, 'image': layout.image(res.M, 0, None, 0).hex(), 'labels': lab},
                           'tags': sorted({'labels-that-differ-in-the-scope-prefix-only', 'ref:forward', 'ref:backward'})}

    def judge(self, case, outcomes):
        o = outcomes[0]
        m = case['meta']
        tags = case['tags']
        nt = '|'.join(tags) if any(t.startswith('ref:') for t in tags) else None
        if o.get('timed_out'):
            return [core.violated('termination:' + str(o['timed_out']), {'source': case['runs'][0]['files']['p.asm'][:800]})]
        files = o.get('files') or {}
        img = files.get('out.bin')
        if o.get('exit') != 0 or img is None:
            return [core.violated('valid-program-rejected', {'exit': o.get('exit'), 'stderr': (o.get('stderr') or '')[-500:],
                                                             'source': case['runs'][0]['files']['p.asm'][:1500]}, buckets=tags)]
        vs = []
        pr = o.get('probes') or {}
        if (pr.get('sizes') or {}).get('mismatch'):
            vs.append(core.violated('reserved!=emitted', {'mismatch': pr['sizes']['mismatch'][:3]}))
        if (pr.get('cursor') or {}).get('violations'):
            vs.append(core.violated('cursor-outside-zone', {'v': pr['cursor']['violations'][:3]}))
        # (a) listing address column
        lst = files.get('l.txt')
        listing_ok = False
        if lst is not None:
            try:
                rows = formats.decode_listing(bytes.fromhex(lst).decode('utf-8', 'replace'))
                listing_ok = True
            except formats.DecodeError as e:
                rows = []
                self.listing_unavailable = getattr(self, 'listing_unavailable', 0) + 1
            if listing_ok:
                by_line = {}
                for r in rows:
                    by_line.setdefault(r['line'], []).append(r)
                for ln, e in sorted(m['lines'].items(), key=lambda kv: int(kv[0])):
                    rr = by_line.get(int(ln))
                    if not rr:
                        vs.append(core.violated('line-missing-from-listing/' + e['k'], {'line': ln, 'text': e['text']}, buckets=tags))
                        break
                    if rr[0]['addr'] != e['addr']:
                        vs.append(core.violated('listing-address/' + e['k'], {'line': ln, 'text': e['text'], 'expected': e['addr'],
                                                                             'got': rr[0]['addr'],
                                                                             'source': case['runs'][0]['files']['p.asm'][:1200]},
                                                buckets=tags, nt=nt))
                        break
                    if e['bytes'] is not None and not e['muted'] and bytes(rr[0]['bytes']).hex() != e['bytes'] and not vs:
                        vs.append(core.violated('listing-bytes/' + e['k'], {'line': ln, 'text': e['text'], 'expected': e['bytes'],
                                                                           'got': bytes(rr[0]['bytes']).hex(),
                                                                           'labels': m['labels']}, buckets=tags, nt=nt))
                        break
        # (b) the image (label probes)
        if m['image'] is not None and img != m['image']:
            got = bytes.fromhex(img)
            exp = bytes.fromhex(m['image'])
            first = next((i for i in range(min(len(got), len(exp))) if got[i] != exp[i]), min(len(got), len(exp)))
            culprit = None
            for ln, e in m['lines'].items():
                if e['bytes'] is not None and e['addr'] <= first < e['addr'] + max(1, len(e['bytes']) // 2):
                    culprit = e
            vs.append(core.violated('image-differs/' + (culprit['k'] if culprit else 'length'),
                                    {'first_diff_at': first, 'culprit': culprit, 'len_expected': len(exp), 'len_got': len(got),
                                     'labels': m['labels'], 'source': case['runs'][0]['files']['p.asm'][:1200]},
                                    buckets=tags, nt=nt))
        if not vs:
            vs.append(core.held(buckets=tags + (['listing-decoded'] if listing_ok else []), nt=nt))
        return vs

    def sample_of(self, case, outcomes):
        return {'source': case['runs'][0]['files']['p.asm'][:900],
                'expected_addresses': {k: v['addr'] for k, v in list(case['meta']['lines'].items())[:12]},
                'labels': case['meta']['labels']}

    def extra_evidence(self):
        return {'listing_undecodable_runs': getattr(self, 'listing_unavailable', 0)}
