"""C03 — the binary image is a faithful window onto the assembled memory map.

Oracle: memory map M from the layout model (unmuted byte lines + predefined data), expected file =
[M.get(a, fill) for a in start..end], end default max(dom M).  Probe: `files` (exactly one write-open of the output).
"""
from vf import core, isa as isamod, gen_prog
from vf.model import layout


def build_program(rng, last_kind=None, predefined=None):
    """Sparse program: shuffled, non-overlapping segments; returns (isa, lines, model result)."""
    data = []
    n_seg = rng.randrange(1, 5)
    # choose segment start addresses with gaps, ascending, then shuffle the source order
    addr = rng.choice([0, 0, 2, 5, 16, 40])
    segs = []
    isa = None
    use_pre = predefined if predefined is not None else rng.random() < 0.25
    for s in range(n_seg):
        lines = []
        size = 0
        for _ in range(rng.randrange(1, 4)):
            ln = gen_prog.rand_byte_line(rng, gen_prog.layout_isa(16), big=rng.random() < 0.3)
            if rng.random() < 0.15:
                # a string line (bare, where the ISA allows it, or behind .cstr): bytes like any others, muted like any others
                txt_ = rng.choice(['AB', 'x', 'mute me', 'Zq9'])
                ln = {'k': 'bytes', 'bytes': (txt_.encode() + b'\0').hex(), 'text': rng.choice(['"{}"', '"{}"', '.cstr "{}"']).format(txt_),
                      'string_line': True}
            lines.append(ln)
        segs.append({'lines': lines})
    isa = gen_prog.layout_isa(16, endian=rng.choice(['big', 'little']))
    cur = addr
    for sg in segs:
        sz = 0
        for ln in sg['lines']:
            if ln['k'] in ('fill', 'zero'):
                sz += ln['n']
            else:
                sz += gen_prog.byte_line_size(isa, ln)
        sg['addr'] = cur
        sg['size'] = sz
        cur += sz + rng.choice([0, 1, 2, 3, 9, 30])
    if use_pre:
        pa = cur + rng.choice([0, 1, 4])
        psz = rng.choice([1, 2, 5])
        data = [{'name': 'pre_blk', 'address': pa, 'value': rng.randrange(0, 256), 'size': psz}]
        isa = gen_prog.layout_isa(16, endian=isa['general']['endian'], data=data)
        cur = pa + psz + rng.choice([0, 2])
    isa['general']['allow_embedded_strings'] = True
    order = list(range(len(segs)))
    if rng.random() < 0.5:
        rng.shuffle(order)
    lines = []
    if rng.random() < 0.2:
        # an #unmute / #emit while nothing is muted changes nothing: a later #mute still mutes
        lines += [{'k': 'unmute', 'text': rng.choice(['#unmute', '#emit']), 'surplus': True}] * rng.choice([1, 1, 2])
    muted_seg = rng.randrange(len(segs)) if rng.random() < 0.3 else None
    for si in order:
        sg = segs[si]
        lines.append({'k': 'org', 'addr': sg['addr'], 'zone_name': None})
        if si == muted_seg:
            lines.append({'k': 'mute'})
            if rng.random() < 0.6:
                # directives inside a branch that is not compiled change nothing: the segment stays muted
                lines.append({'k': 'comment', 'text': rng.choice(['#if 0', '#ifdef NOT_DEFINED_ANYWHERE']) + '\n' +
                              rng.choice(['#unmute', '#emit']) + '\n#endif'})
        for i, ln in enumerate(sg['lines']):
            lines.append(ln)
            if rng.random() < 0.12:
                lines.append(rng.choice([{'k': 'fill', 'n': 0, 'v': 7}, {'k': 'zero', 'n': 0},
                                         {'k': 'bytes', 'bytes': '', 'text': '.byte ""'}]))
        if si == muted_seg:
            lines.append({'k': 'unmute', 'text': rng.choice(['#unmute', '#emit'])})
    # the last stream line decides "highest address that received an emitted byte"
    lk = last_kind or rng.choice(['byte', 'byte', 'label', 'muted', 'zero-length', 'org'])
    if lk == 'label':
        lines.append({'k': 'label', 'name': 'the_end'})
    elif lk == 'muted':
        lines += [{'k': 'mute'}, {'k': 'data', 'width': 1, 'vals': [0x5A, 0x5B]}, {'k': 'unmute', 'text': '#unmute'}]
    elif lk == 'zero-length':
        lines.append(rng.choice([{'k': 'fill', 'n': 0, 'v': 1}, {'k': 'zero', 'n': 0}]))
    elif lk == 'org':
        lines.append({'k': 'org', 'addr': cur + 5, 'zone_name': None})
    res = layout.layout(lines, 16, origin=0, predefined_data=data, size_of=lambda l, a: gen_prog.byte_line_size(isa, l))
    zones = {k: tuple(v) for k, v in res.zones.items()}
    layout.memory_map(res, lambda l: gen_prog.byte_line_bytes(isa, l, None, zones))
    for ln in lines:
        ln['text'] = gen_prog.render_line(ln, rng)
    return isa, lines, res, lk


def windows(rng, res, M):
    """Interesting (start, end) pairs for this program; each tagged."""
    if not M:
        return [(0, None, 's:0', 'e:absent')]
    first, last = min(M), max(M)
    multi = [l for l in res.byte_lines if l.get('size', 0) >= 2 and not l.get('muted')]
    gaps = [a for a in range(first, last) if a not in M]
    starts = [(0, 's:0'), (first, 's:=first'), (last, 's:=last'), (last + 3, 's:>last')]
    if first > 0:
        starts.append((first - 1, 's:<first'))
    if multi:
        l = rng.choice(multi)
        starts.append((l['addr'] + rng.randrange(1, l['size']), 's:mid-line'))
    if gaps:
        starts.append((rng.choice(gaps), 's:in-gap'))
    ends = [(None, 'e:absent'), (last, 'e:=last'), (last + 1, 'e:=last+1'), (last + 40, 'e:>last')]
    if multi:
        l = rng.choice(multi)
        ends.append((l['addr'] + rng.randrange(0, l['size'] - 1), 'e:mid-line'))
    if gaps:
        ends.append((rng.choice(gaps), 'e:in-gap'))
    out = []
    for s, st in starts:
        for e, et in ends:
            if e is not None and e < s:
                continue
            out.append((s, e, st, et))
    # a single line straddling both bounds
    for l in multi:
        if l['size'] >= 3:
            out.append((l['addr'] + 1, l['addr'] + l['size'] - 2, 's:mid-line', 'e:mid-line/same-line'))
            break
    return out


class C03(core.Check):
    pid = 'C03'
    level = 'exploration'
    rule = ('sparse programs (shuffled .org segments, multi-byte lines, zero-length lines, muted regions, predefined data, '
            'varied last line) x windows: start in {0, <first, =first, mid-line, in gap, =last, >last}, end in {absent, =last, '
            'mid-line, in gap, last+1, >last}, fill 0..255; expected file = [M.get(a, fill) for a in start..end]. '
            'distinct_nontrivial = distinct (start class, end class, last-line kind, fill!=0, muted, predefined) tuples. '
            'thorough adds 20 fixed programs x every (start,end) with 0<=start<=end<=40.')
    rule = rule + ' ' + 'A directed family puts windows below / above a redefined GLOBAL zone and beyond a small address space.'
    assumptions = ('programs that emit no byte with no explicit end, end < start and fill outside 0..255 are DONT_CARE',
                   'byte-producing lines never overlap here (C04 owns overlap)')
    chunk = 1500
    required_buckets = {b: 3 for b in ['s:0', 's:<first', 's:=first', 's:mid-line', 's:in-gap', 's:>last', 's:=last',
                                       'e:absent', 'e:=last', 'e:mid-line', 'e:in-gap', 'e:>last', 'e:=last+1',
                                       'e:mid-line/same-line', 'last:byte', 'last:label', 'last:muted', 'last:zero-length',
                                       'last:org', 'fill!=0', 'predefined-data', 'muted-region', 'stale-longer-image-present', 'mute-around-include',
                                       's:below-redefined-global', 'e:above-redefined-global', 'e:beyond-address-space',
                                       'muted-embedded-string', 'surplus-unmute-before-a-muted-region', 'mute-change-inside-a-conditional-branch', 'explicit-end-and-no-byte-emitted']}

    def make_case(self, isa, lines, res, lk, s, e, fill, tags):
        fn, text = isamod.render_isa(isa, 'json')
        src = ''.join(l['text'] + '\n' for l in lines)
        argv = ['compile', '-c', fn, 'p.asm', '-o', 'out.bin']
        if s:
            argv += ['-s', str(s)]
        if e is not None:
            argv += ['-e', str(e)]
        if fill:
            argv += ['-f', str(fill)]
        M = res.M
        exp = layout.image(M, s, e, fill)
        ok = layout.overlaps(res)[0]
        span = (e if e is not None else (max(M) if M else 0)) + 1
        files = {fn: text, 'p.asm': src}
        self._n = getattr(self, '_n', 0) + 1
        if self._n % 3 == 0:
            # an older, longer image is already there: the new image replaces it completely
            files['out.bin'] = 'Z' * (span + 500)
            tags = list(tags) + ['stale-longer-image-present']
        return {'runs': [{'files': files, 'argv': argv, 'probes': ['steps', 'files'],
                          'step_limit': 60 * span + 20000}],
                'meta': {'expected': None if exp is None else exp.hex(), 'kind': res.kind if ok == 'ACCEPT' else ok,
                         'why': (res.reason or res.kind) if ok == 'ACCEPT' else 'overlap:' + ok,
                         'window': [s, e, fill], 'M': {str(k): v for k, v in sorted(M.items())}},
                'tags': tags}

    def cases(self, tier, seed):
        n_pre = 120
        n = 150 if tier == 'quick' else 2500
        for i in range(n_pre + n):
            rng = core.rng_for(0 if i < n_pre else seed, self.pid, i)
            lk = ['byte', 'label', 'muted', 'zero-length', 'org'][i % 5] if i < n_pre else None
            isa, lines, res, lk = build_program(rng, lk, predefined=(i % 4 == 0) if i < n_pre else None)
            M = res.M
            ws = windows(rng, res, M)
            if tier == 'quick' and i >= n_pre:
                ws = rng.sample(ws, min(len(ws), 8))
            for s, e, st, et in ws:
                fill = rng.choice([0, 0, 255, 0xA5, rng.randrange(1, 256)])
                tags = [st, et, 'last:' + lk]
                if fill:
                    tags.append('fill!=0')
                if res.predefined_data:
                    tags.append('predefined-data')
                if any(l.get('muted') and l['k'] in layout.BYTE_KINDS for l in lines):
                    tags.append('muted-region')
                if any(l.get('surplus') for l in lines) and any(l.get('muted') and l['k'] in layout.BYTE_KINDS for l in lines):
                    tags.append('surplus-unmute-before-a-muted-region')
                if any(l.get('muted') and l.get('string_line') and l['text'].startswith('"') for l in lines):
                    tags.append('muted-embedded-string')
                yield self.make_case(isa, lines, res, lk, s, e, fill, tags)
        # muting that is entered, left or deepened around an #include: the addresses of muted bytes get the fill value
        isa_i = gen_prog.layout_isa(16)
        fn_i, text_i = isamod.render_isa(isa_i, 'json')
        inc_variants = {'plain': ['.byte $22'], 'unmutes-once': ['.byte $22', '#unmute', '.byte $23'], 'mutes-once': ['.byte $22', '#mute', '.byte $23'],
                        'balanced': ['#mute', '.byte $22', '#unmute', '.byte $23']}
        for depth in (0, 1, 2, 3):
            for vname, inc in inc_variants.items():
                for after in (0, 1, 2):
                    for fill in (0xFF, 0):
                        main = ['.byte $11'] + ['#mute'] * depth + ['#include "m.asm"', '.byte $31']
                        for k_ in range(after):
                            main += ['#unmute', f'.byte ${0x41 + k_:02x}']
                        main += ['#unmute'] * 4 + ['.byte $7e']
                        flat = []
                        for t_ in main:
                            flat += inc if t_.startswith('#include') else [t_]
                        mc, out = 0, []
                        for t_ in flat:
                            if t_ == '#mute':
                                mc += 1
                            elif t_ == '#unmute':
                                mc = max(0, mc - 1)
                            else:
                                out.append(int(t_.split('$')[1], 16) if mc == 0 else fill)
                        argv = ['compile', '-c', fn_i, 'p.asm', '-o', 'out.bin'] + (['-f', str(fill)] if fill else [])
                        yield {'runs': [{'files': {fn_i: text_i, 'p.asm': '\n'.join(main) + '\n', 'm.asm': '\n'.join(inc) + '\n'},
                                         'argv': argv, 'probes': ['steps', 'files'], 'step_limit': 200000}],
                               'meta': {'expected': bytes(out).hex(), 'kind': 'ACCEPT', 'why': '', 'window': [0, None, fill],
                                        'M': {str(a_): v_ for a_, v_ in enumerate(out)}},
                               'tags': ['s:0', 'e:absent', 'muted-region', 'mute-around-include', f'include-at-mute-depth:{depth}'] +
                                       (['fill!=0'] if fill else [])}
        # a #mute / #unmute inside a compiled branch stays in force when the chain moves on to its #elif / #else / #endif
        for k_, (body, out_) in enumerate([
                (['.byte $11', '#if 1', '#mute', '#else', '.byte $99', '#endif', '.byte $22', '#unmute', '.byte $33'], [0x11, None, 0x33]),
                (['.byte $11', '#if 0', '.byte $98', '#elif 1', '#mute', '#elif 1', '#unmute', '#else', '#unmute', '#endif', '.byte $22', '#emit', '.byte $33'],
                 [0x11, None, 0x33]),
                (['#mute', '.byte $11', '#if 1', '#unmute', '#else', '#mute', '#endif', '.byte $22', '.byte $33'], [None, 0x22, 0x33]),
                (['.byte $11', '#ifdef C03_NOT_DEFINED', '#else', '#mute', '#endif', '.byte $22', '#if 1', '#emit', '#elif 1', '#mute', '#endif', '.byte $33'],
                 [0x11, None, 0x33]),
                (['.byte $11', '#if 1', '#if 1', '#mute', '#else', '#endif', '#else', '#endif', '.byte $22, $23', '#unmute', '.byte $33'], [0x11, None, None, 0x33])]):
            for fill in (0xEE, 0):
                exp_ = bytes(fill if v_ is None else v_ for v_ in out_)
                argv = ['compile', '-c', fn_i, 'p.asm', '-o', 'out.bin'] + (['-f', str(fill)] if fill else [])
                yield {'runs': [{'files': {fn_i: text_i, 'p.asm': '\n'.join(body) + '\n'}, 'argv': argv, 'probes': ['steps', 'files'], 'step_limit': 200000}],
                       'meta': {'expected': exp_.hex(), 'kind': 'ACCEPT', 'why': '', 'window': [0, None, fill],
                                'M': {str(a_): v_ for a_, v_ in enumerate(out_) if v_ is not None}},
                       'tags': ['s:0', 'e:absent', 'muted-region', 'mute-change-inside-a-conditional-branch'] + (['fill!=0'] if fill else [])}
        # an explicit window over a program that emits no byte at all (everything muted, names only, an empty file): the
        # image is the window, filled
        for k_, body in enumerate([['#mute', '.org $10', '.byte 1, 2, 3', 'ram_top:', '.fill 4, 9'], ['K_ONLY = 5', 'lbl_only:'], [''],
                                   ['; nothing here'], ['#mute', '.byte 1', '#unmute', '#mute', '.byte 2'], ['#if 0', '.byte 1', '#endif'],
                                   ['.org $14', 'here:', '.zero 0', '.fill 0, 1']]):
            for s_, e_ in ((16, 31), (0, 0), (0, 7), (18, 18), (None, 5)):
                for fill in (0xEA, 0):
                    n_ = e_ - (s_ or 0) + 1
                    argv = ['compile', '-c', fn_i, 'p.asm', '-o', 'out.bin', '-e', str(e_)] + (['-s', str(s_)] if s_ is not None else []) + \
                        (['-f', str(fill)] if fill else [])
                    yield {'runs': [{'files': {fn_i: text_i, 'p.asm': '\n'.join(body) + '\n'}, 'argv': argv, 'probes': ['steps', 'files'], 'step_limit': 200000}],
                           'meta': {'expected': (bytes([fill]) * n_).hex(), 'kind': 'ACCEPT', 'why': '', 'window': [s_ or 0, e_, fill], 'M': {}},
                           'tags': ['s:' + ('absent' if s_ is None else 'given'), 'e:given', 'explicit-end-and-no-byte-emitted'] + (['fill!=0'] if fill else []) +
                                   (['muted-region'] if '#mute' in body else [])}
        # windows that reach outside a redefined GLOBAL zone, or beyond a small address space: the window is what the
        # command line says, whatever the zones are
        for ab, gs, ge in [(8, 0x10, 0xEF), (8, 0, 0x7F), (8, 0x20, 0xFF), (4, 0, 15), (5, 2, 29), (16, 0x100, 0xFFF)]:
            top = (1 << ab) - 1
            gz = None if (gs, ge) == (0, top) else (gs, ge)
            isa_g = gen_prog.layout_isa(ab, origin=(gs if gz else None), global_zone=gz)
            fn_g, text_g = isamod.render_isa(isa_g, 'json')
            body = [0x11, 0x22, 0x33]
            for at in sorted({gs, gs + 3, ge - 2}):
                Mg = {at + k_: body[k_] for k_ in range(3)}
                src_g = f'.org {at}\n.byte $11, $22, $33\n'
                for s_ in sorted({0, max(0, gs - 1), gs, at + 1}):
                    for e_ in sorted({ge, ge + 1, ge + 6, top, top + 9, at + 1}) + [None]:
                        if e_ is not None and e_ < s_:
                            continue
                        for fill in (0, 0xA5):
                            last_ = e_ if e_ is not None else max(Mg)
                            if last_ < s_:
                                continue
                            exp_ = bytes(Mg.get(a_, fill) for a_ in range(s_, last_ + 1))
                            argv = ['compile', '-c', fn_g, 'p.asm', '-o', 'out.bin'] + (['-s', str(s_)] if s_ else []) + \
                                (['-e', str(e_)] if e_ is not None else []) + (['-f', str(fill)] if fill else [])
                            tg = ['window-vs-zones']
                            if gz and s_ < gs:
                                tg.append('s:below-redefined-global')
                            if gz and e_ is not None and e_ > ge:
                                tg.append('e:above-redefined-global')
                            if e_ is not None and e_ > top:
                                tg.append('e:beyond-address-space')
                            yield {'runs': [{'files': {fn_g: text_g, 'p.asm': src_g}, 'argv': argv, 'probes': ['steps', 'files'],
                                             'step_limit': 60 * (last_ + 1) + 200000}],
                                   'meta': {'expected': exp_.hex(), 'kind': 'ACCEPT', 'why': '', 'window': [s_, e_, fill],
                                            'M': {str(a_): v_ for a_, v_ in sorted(Mg.items())}},
                                   'tags': tg + (['fill!=0'] if fill else [])}
        if tier == 'thorough':
            for p in range(20):
                rng = core.rng_for(0, self.pid, 'grid', p)
                isa, lines, res, lk = build_program(rng, None)
                if not res.M or max(res.M) > 60:
                    continue
                for s in range(0, 41):
                    for e in range(s, 41):
                        yield self.make_case(isa, lines, res, lk, s, e, 0xA5, ['grid'])

    def judge(self, case, outcomes):
        o = outcomes[0]
        m = case['meta']
        tags = case['tags']
        if o.get('timed_out'):
            return [core.violated('termination:' + str(o['timed_out']),
                                  {'window': m['window'], 'probe': (o.get('probes') or {}).get('steps'),
                                   'source': case['runs'][0]['files']['p.asm'][:600]},
                                  buckets=tags)]
        if m['kind'] != 'ACCEPT':
            return [core.dont_care(m.get('why') or m['kind'])]
        if m['expected'] is None:
            return [core.dont_care('no byte emitted and no explicit end')]
        img = (o.get('files') or {}).get('out.bin')
        nt = '|'.join(t for t in tags if t != 'grid')
        if o.get('exit') != 0 or img is None:
            return [core.violated('valid-program-rejected', {'exit': o.get('exit'), 'stderr': (o.get('stderr') or '')[-400:],
                                                             'argv': case['runs'][0]['argv'],
                                                             'source': case['runs'][0]['files']['p.asm'][:600]}, buckets=tags)]
        vs = []
        fp = (o.get('probes') or {}).get('files')
        if fp is not None:
            w = [x for x in fp['writes'] if x == 'out.bin']
            if len(w) != 1:
                vs.append(core.violated('output-opened-%d-times' % len(w), {'writes': fp['writes']}))
        if img == m['expected']:
            vs.append(core.held(buckets=tags, nt=nt))
            return vs
        got = bytes.fromhex(img)
        exp = bytes.fromhex(m['expected'])
        if len(got) != len(exp):
            cls = 'length'
        else:
            cls = 'content'
        st = [t for t in tags if t.startswith('s:')]
        et = [t for t in tags if t.startswith('e:')]
        lt = [t for t in tags if t.startswith('last:')]
        sig = f'image-{cls}/{(st or ["grid"])[0]}/{(et or ["grid"])[0]}' + (('/' + lt[0]) if cls == 'length' and lt else '')
        vs.append(core.violated(sig, {'window': m['window'], 'expected': m['expected'][:200], 'got': img[:200],
                                      'len_expected': len(exp), 'len_got': len(got),
                                      'source': case['runs'][0]['files']['p.asm'][:700]}, buckets=tags, nt=nt))
        return vs

    def sample_of(self, case, outcomes):
        return {'source': case['runs'][0]['files']['p.asm'][:700], 'argv': case['runs'][0]['argv'],
                'expected_image': case['meta']['expected'][:120] if case['meta']['expected'] else None,
                'window[start,end,fill]': case['meta']['window']}
