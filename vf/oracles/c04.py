"""C04 — two lines never silently occupy the same address.

Oracle: interval arithmetic over the layout model's ranges: any positive-length intersection of two unmuted
byte-producing lines (or predefined data blocks) => must reject; pairwise disjoint => must accept and the image holds
every line's bytes.
"""
import itertools

from vf import core, isa as isamod, gen_prog
from vf.model import layout, formats

MEANS = ['org', 'zone-org', 'memzone', 'zerountil', 'predefined', 'align', 'created-zone']


def place(rng, idx, a, l, means, val):
    """-> (source lines, predefined zones, predefined data) placing l bytes of value `val` at address a."""
    zones, data, lines = [], [], []
    if means == 'predefined' and l > 0:
        data.append({'name': f'pd{idx}', 'address': a, 'value': val, 'size': l})
        return lines, zones, data, 'predefined'
    if means == 'zerountil' and l > 0:
        lines.append({'k': 'org', 'addr': a, 'zone_name': None})
        lines.append({'k': 'zerountil', 'a': a + l - 1})
        return lines, zones, data, 'zerountil'
    if means == 'zone-org':
        zs = max(0, a - rng.randrange(0, 6))
        zones.append({'name': f'Z{idx}', 'start': zs, 'end': a + l + rng.randrange(0, 8)})
        lines.append({'k': 'org', 'addr': a - zs, 'zone_name': f'Z{idx}'})
    elif means == 'memzone':
        zones.append({'name': f'Z{idx}', 'start': a, 'end': a + l + rng.randrange(0, 8)})
        lines.append({'k': 'memzone', 'name': f'Z{idx}'})
    elif means == 'created-zone':
        lines.append({'k': 'create_memzone', 'name': f'C{idx}', 'start': a, 'end': a + l + rng.randrange(0, 8)})
        lines.append({'k': 'memzone', 'name': f'C{idx}'})
    elif means == 'align' and a > 0:
        ps = [p for p in (2, 3, 4, 5, 8, 16) if a % p == 0]
        if ps:
            p = rng.choice(ps)
            d = rng.randrange(0, p)
            lines.append({'k': 'org', 'addr': max(a - d, 0) if a - d > a - p else a, 'zone_name': None})
            lines.append({'k': 'align', 'p': p})
        else:
            lines.append({'k': 'org', 'addr': a, 'zone_name': None})
            means = 'org'
    else:
        lines.append({'k': 'org', 'addr': a, 'zone_name': None})
        means = 'org'
    # the bytes themselves
    rest = l
    first = True
    while rest > 0 or first:
        first = False
        r = rng.random()
        if rest == 0:
            lines.append(rng.choice([{'k': 'fill', 'n': 0, 'v': val}, {'k': 'zero', 'n': 0},
                                     {'k': 'bytes', 'bytes': '', 'text': '.byte ""'}]))
            break
        if r < 0.5:
            n = rng.randrange(1, rest + 1)
            lines.append({'k': 'fill', 'n': n, 'v': val})
        elif r < 0.8:
            n = rng.randrange(1, min(rest, 4) + 1)
            lines.append({'k': 'data', 'width': 1, 'vals': [val] * n})
        elif rest >= 2:
            n = 2
            lines.append({'k': 'instr', 'stmt': gen_prog.make_stmt('ldi', [val])})
        else:
            n = 1
            lines.append({'k': 'instr', 'stmt': gen_prog.make_stmt('nop', [])})
        rest -= n
    return lines, zones, data, means


def geometry(a, l, b, m):
    if l == 0 or m == 0:
        if l == 0 and m == 0:
            return 'both-zero-length'
        (za, _), (oa, ol) = ((a, l), (b, m)) if l == 0 else ((b, m), (a, l))
        if oa < za < oa + ol:
            return 'zero-length-inside'
        if za == oa or za == oa + ol:
            return 'zero-length-at-edge'
        return 'zero-length-apart'
    if a == b and l == m:
        return 'identical'
    if a == b:
        return 'same-start'
    (a, l), (b, m) = sorted([(a, l), (b, m)])
    if a + l < b:
        return 'gap'
    if a + l == b:
        return 'touching'
    if b + m <= a + l:
        return 'containment'
    return 'overlap-1-byte' if a + l - b == 1 else 'overlap-many'


class C04(core.Check):
    pid = 'C04'
    level = 'exploration'
    rule = ('2..6 byte-producing items placed by .org, zone-relative .org, (overlapping) predefined zones, source-created '
            'zones, .align, .zerountil, predefined data, in random source order, in every pair geometry (gap, touching, '
            '1-byte overlap at either end, containment, same start, identical, long line spanning several, zero-length at '
            'edges); expectation from interval arithmetic on the model ranges. distinct_nontrivial = distinct (sorted pair '
            'geometries, placement means, source-order class) tuples. thorough: all pairs with start 0..6, length 0..3, both '
            'source orders (exhaustive) and sampled triples.')
    rule = rule + ' ' + 'Embedded strings with literal 2- and 3-byte characters are probed with a byte on every address around them.'
    assumptions = ('a zero-length line strictly inside another line, and overlaps involving a muted line, are DONT_CARE',)
    chunk = 1500
    no_image_reject = lambda self, c: c['meta'].get('kind') == 'REJECT'
    required_buckets = {b: 3 for b in ['geom:gap', 'geom:touching', 'geom:overlap-1-byte', 'geom:overlap-many',
                                       'geom:containment', 'geom:same-start', 'geom:identical', 'geom:zero-length-at-edge',
                                       'means:org', 'means:zone-org', 'means:memzone', 'means:zerountil', 'means:predefined',
                                       'means:align', 'means:created-zone', 'order:ascending', 'order:descending',
                                       'order:interleaved', 'overlap:non-adjacent', 'expect:REJECT', 'expect:ACCEPT',
                                       'output:bin', 'output:nobin', 'output:both', 'window-excludes-the-overlap',
                                       'means:macro-with-non-byte-steps', 'means:embedded-string', 'means:zerountil-behind-the-cursor', 'means:include-from-inside-a-zone', 'means:predefined-block-holding-the-fill-value', 'means:align-inside-a-zone-that-starts-off-the-page-grid', 'means:included-file-ends-in-another-zone', 'means:zone-resumed-after-a-backward-origin', 'means:configured-GLOBAL-with-origin-above-its-start', 'embedded-string:two-byte-character', 'embedded-string:three-byte-character', 'embedded-string:cstr-ending-in-its-terminator', 'embedded-string:cstr-ending-in-its-terminator/configured', 'embedded-string:string-behind-a-wide-directive', 'means:global-relative-org', 'unselected-origin-before-bytes']}

    def build(self, rng, items, means_list=None, order=None, mute=None, out_mode=None):
        """items: [(addr, len)]"""
        blocks = []
        zones, data = [], []
        tags = set()
        for i, (a, l) in enumerate(items):
            means = means_list[i] if means_list else rng.choice(MEANS)
            val = 0x11 * (i + 1) if l or True else 0
            ls, zs, ds, used = place(rng, i, a, l, means, val)
            tags.add('means:' + used)
            if ls and rng.random() < 0.25:
                # an origin / zone switch inside a branch that is not compiled, between the placement and the bytes it places
                dead = rng.choice(['.org 0', '.org 1', '.memzone GLOBAL', '.org 2 "GLOBAL"', '.org 29'])
                ls = ls[:-1] + [{'k': 'comment', 'text': rng.choice(['#if 0', '#ifdef C04_NOT_DEFINED', '#if 1\n#else']) + '\n' + dead + '\n#endif'}] + ls[-1:]
                tags.add('unselected-origin-before-bytes')
            blocks.append(ls)
            zones += zs
            data += ds
        idx = list(range(len(blocks)))
        if order == 'descending':
            idx.sort(key=lambda i: -items[i][0])
        elif order == 'ascending':
            idx.sort(key=lambda i: items[i][0])
        else:
            rng.shuffle(idx)
        starts = [items[i][0] for i in idx if blocks[i]]
        if starts == sorted(starts):
            tags.add('order:ascending')
        elif starts == sorted(starts, reverse=True):
            tags.add('order:descending')
        else:
            tags.add('order:interleaved')
        lines = []
        for i in idx:
            if mute == i:
                lines.append({'k': 'mute'})
            lines += blocks[i]
            if mute == i:
                lines.append({'k': 'unmute', 'text': '#unmute'})
        isa = gen_prog.layout_isa(16, zones=zones, data=data)
        res = layout.layout(lines, 16, origin=0, predefined_zones=zones, predefined_data=data,
                            size_of=lambda l, a: gen_prog.byte_line_size(isa, l))
        kind, pair = layout.overlaps(res)
        # zero-length strictly inside another line: the statement does not fix the outcome
        ivs = [(l['addr'], l['size']) for l in res.byte_lines] + [(d['address'], d['size']) for d in data]
        for (a, l), (b, m) in itertools.combinations(ivs, 2):
            g = geometry(a, l, b, m)
            tags.add('geom:' + g)
            if g == 'zero-length-inside' and kind == 'ACCEPT':
                kind = 'DONT_CARE'
        if res.kind != 'ACCEPT':
            kind = res.kind if res.kind == 'DONT_CARE' or kind == 'ACCEPT' else kind
            if res.kind == 'REJECT':
                kind = 'DONT_CARE'        # containment problems are C05's subject
        # overlap between lines that are not adjacent in address order
        pos = sorted((a, a + l) for a, l in ivs if l > 0)
        for i in range(len(pos)):
            for j in range(i + 2, len(pos)):
                if pos[j][0] < pos[i][1] and not pos[i + 1][0] < pos[i][1]:
                    tags.add('overlap:non-adjacent')
        for i in range(len(pos)):
            for j in range(i + 2, len(pos)):
                if pos[j][0] < pos[i][1]:
                    tags.add('overlap:non-adjacent')
        zt = {k: tuple(v) for k, v in res.zones.items()}
        exp = None
        if kind == 'ACCEPT':
            layout.memory_map(res, lambda l: gen_prog.byte_line_bytes(isa, l, None, zt))
            exp = {str(k): v for k, v in res.M.items()}
        for ln in lines:
            ln['text'] = gen_prog.render_line(ln, rng)
        tags.add('expect:' + kind)
        fn, text = isamod.render_isa(isa, 'json')
        src = ''.join(l['text'] + '\n' for l in lines)
        end = max([a + l for a, l in ivs] + [1]) + 2
        # the overlap rule does not depend on which outputs were asked for
        if out_mode is None:
            out_mode = rng.choice(['bin', 'bin', 'bin', 'nobin', 'both'])
        tags.add('output:' + out_mode)
        argv = ['compile', '-c', fn, 'p.asm']
        window = ['-e', str(end)]
        if kind == 'REJECT' and rng.random() < 0.5:
            # an image window that leaves the overlapping bytes out (but keeps some other byte in): still an overlap
            live = [(a, a + l - 1) for a, l in ivs if l > 0]
            both = sorted(set(range(pair[0][0], pair[0][1] + 1)) & set(range(pair[1][0], pair[1][1] + 1))) if pair else []
            if both:
                lo, hi = both[0], both[-1]
                opts = []
                if lo > 0 and any(s_ < lo for s_, _ in live):
                    opts.append(['-e', str(lo - 1)])
                    opts.append(['-s', '0', '-e', str(min(s_ for s_, _ in live))])
                if any(e_ > hi for _, e_ in live):
                    opts.append(['-s', str(hi + 1)])
                    opts.append(['-s', str(max(e_ for _, e_ in live)), '-e', str(end)])
                if opts:
                    window = rng.choice(opts)
                    tags.add('window-excludes-the-overlap')
        if out_mode in ('bin', 'both'):
            argv += ['-o', 'out.bin'] + window
        elif window[0] != '-e' or len(window) > 2 or window[1] != str(end):
            argv += window
        if out_mode in ('nobin', 'both'):
            argv += (['-n'] if out_mode == 'nobin' else []) + ['-p', '-t', 'intel_hex', '--pretty-print-output', 'out.hex']
        return {'runs': [{'files': {fn: text, 'p.asm': src}, 'argv': argv,
                          'probes': ['steps'], 'step_limit': 300000}],
                'meta': {'kind': kind, 'M': exp, 'end': end, 'intervals': ivs, 'out_mode': out_mode}, 'tags': sorted(tags)}

    def cases(self, tier, seed):
        # directed prelude: pair geometries x placement means x source order
        base = (10, 4)
        others = [(16, 3), (14, 3), (8, 3), (13, 3), (11, 2), (10, 2), (10, 4), (8, 10), (10, 0), (14, 0), (12, 0), (7, 3),
                  (13, 1), (9, 2)]
        k = 0
        for o in others:
            for m1 in MEANS:
                for m2 in (MEANS[(MEANS.index(m1) + k) % len(MEANS)], 'org'):
                    for order in ('ascending', 'descending'):
                        rng = core.rng_for(0, self.pid, 'pre', k)
                        k += 1
                        yield self.build(rng, [base, o], [m1, m2], order, out_mode=['bin', 'nobin', 'both', 'bin'][k % 4])
        # a long line spanning several short ones; overlap between non-adjacent lines
        for i in range(40):
            rng = core.rng_for(0, self.pid, 'span', i)
            items = [(5, 12), (6 + i % 3, 1), (9, 1), (12 + i % 4, 2)]
            yield self.build(rng, items, None, None)
            items = [(5, 6), (7, 0), (8 + i % 2, 2)]       # zero-length between: must not hide the real predecessor
            yield self.build(rng, items, ['org', 'org', 'org'], 'ascending')
        # a macro whose steps are not whole bytes occupies the bytes its steps are padded to (not the packed bit count):
        # a line on any of those addresses overlaps it, the first address after them does not
        from vf.oracles import c10
        for endian in ('big', 'little'):
            isa_m = c10.base_isa(endian)
            isa_m['macros'] = {'mq2': [{'instructions': ['q4', 'q4']}], 'mq3': [{'instructions': ['q4', 'q12 7', 'q4']}],
                               'mq1': [{'instructions': ['q12 $21', 'q12 $43']}]}
            sizes = {'mq2': (2, '9090'), 'mq3': (4, '90607090'), 'mq1': (4, '62106430')}
            fn_m, text_m = isamod.render_isa(isa_m, 'json')
            for mac, (sz, hexb) in sizes.items():
                for at in range(0, sz + 2):
                    for order in ('macro-first', 'macro-last'):
                        a0 = 2
                        other = a0 + at - 1               # from one below the macro to one past its end
                        lines_ = [f'.org {a0}', mac] if order == 'macro-first' else []
                        lines_ += [f'.org {other}', '.byte $AA']
                        if order == 'macro-last':
                            lines_ += [f'.org {a0}', mac]
                        overlap = a0 <= other < a0 + sz
                        M_ = {a0 + i: int(hexb[2 * i:2 * i + 2], 16) for i in range(sz)}
                        M_[other] = 0xAA
                        end_ = a0 + sz + 3
                        yield {'runs': [{'files': {fn_m: text_m, 'p.asm': '\n'.join(lines_) + '\n'},
                                         'argv': ['compile', '-c', fn_m, 'p.asm', '-o', 'out.bin', '-e', str(end_)],
                                         'probes': ['steps'], 'step_limit': 300000}],
                               'meta': {'kind': 'REJECT' if overlap else 'ACCEPT', 'M': {str(k): v for k, v in M_.items()}, 'end': end_,
                                        'intervals': [[a0, sz], [other, 1]], 'out_mode': 'bin'},
                               'tags': sorted({'means:macro-with-non-byte-steps', 'expect:' + ('REJECT' if overlap else 'ACCEPT'), 'output:bin',
                                               'order:ascending' if (other >= a0) == (order == 'macro-first') else 'order:descending'})}
        # an embedded string occupies the bytes of its encoded text plus the terminator (a character written literally in the UTF-8 source may take several; escapes are not examined here): a line
        # on any of those addresses overlaps it, the first address after them does not
        isa_s = gen_prog.layout_isa(16)
        isa_s['general']['allow_embedded_strings'] = True
        fn_s, text_s = isamod.render_isa(isa_s, 'json')
        # a terminated string directive occupies its characters plus one terminator, also when the last character written
        # has the terminator's value
        isa_t = gen_prog.layout_isa(16)
        isa_t['general']['cstr_terminator'] = 10
        fn_t, text_t = isamod.render_isa(isa_t, 'json')
        fn_s0, text_s0 = fn_s, text_s
        for sname, stext, sbytes in (('two-byte-character', '"caf\u00e9"', 'caf\u00e9'.encode('utf-8') + b'\0'),
                                     ('two-byte-characters', '"gr\u00fc\u00df"', 'gr\u00fc\u00df'.encode('utf-8') + b'\0'),
                                     ('three-byte-character', '"\u20ac5"', '\u20ac5'.encode('utf-8') + b'\0'),
                                     ('ascii', '"plain"', b'plain\0'),
                                     ('cstr-ending-in-its-terminator', '.cstr "ab\\0"', b'ab\0\0'),
                                     ('cstr-ending-in-its-terminator', '.asciiz "\\0"', b'\0\0'),
                                     ('cstr-ending-in-its-terminator/configured', '.cstr "ab\\n"', b'ab\n\n'),
                                     ('cstr-ending-in-its-terminator/configured', '.asciiz "q\\n\\n"', b'q\n\n\n'),
                                     ('cstr-plain', '.cstr "ab"', b'ab\0'),
                                     # a string behind a wide data directive takes one word of that width per character
                                     ('string-behind-a-wide-directive', '.2byte "ab"', b'\0a\0b'),
                                     ('string-behind-a-wide-directive', '.4byte "AB"', b'\0\0\0A\0\0\0B'),
                                     ('string-behind-a-wide-directive', '.8byte "z"', b'\0\0\0\0\0\0\0z')):
            fn_s, text_s = (fn_t, text_t) if sname.endswith('/configured') else (fn_s0, text_s0)
            sz = len(sbytes)
            for at in range(0, sz + 2):
                for order in ('string-first', 'string-last', 'sequential'):
                    a0 = 2
                    other = a0 + at - 1
                    if order == 'sequential':
                        if at:
                            continue
                        lines_ = [f'.org {a0}', stext, '.byte $AA']
                        other = a0 + sz
                    else:
                        lines_ = [f'.org {a0}', stext] if order == 'string-first' else []
                        lines_ += [f'.org {other}', '.byte $AA']
                        if order == 'string-last':
                            lines_ += [f'.org {a0}', stext]
                    overlap = a0 <= other < a0 + sz
                    M_ = {a0 + i: sbytes[i] for i in range(sz)}
                    M_[other] = 0xAA
                    end_ = a0 + sz + 3
                    yield {'runs': [{'files': {fn_s: text_s, 'p.asm': '\n'.join(lines_) + '\n'},
                                     'argv': ['compile', '-c', fn_s, 'p.asm', '-o', 'out.bin', '-e', str(end_)],
                                     'env': {'PYTHONUTF8': '1'}, 'probes': ['steps'], 'step_limit': 300000}],
                           'meta': {'kind': 'REJECT' if overlap else 'ACCEPT', 'M': {str(k): v for k, v in M_.items()}, 'end': end_,
                                    'intervals': [[a0, sz], [other, 1]], 'out_mode': 'bin'},
                           'tags': sorted({'means:string-directive' if stext[0] == '.' else 'means:embedded-string', 'embedded-string:' + sname, 'expect:' + ('REJECT' if overlap else 'ACCEPT'),
                                           'output:bin', 'order:ascending' if (other >= a0) == (order != 'string-last') else 'order:descending'})}
        # a .zerountil whose target lies behind the cursor occupies nothing and moves nothing: the next line follows the
        # previous bytes, and a later line on an address already used still overlaps
        isa_z = gen_prog.layout_isa(16)
        fn_z, text_z = isamod.render_isa(isa_z, 'json')
        for a0 in (0x20, 0x100):
            for behind in (1, 2, 3, 5, 17):
                for shape in ('disjoint', 'overlap'):
                    if shape == 'disjoint':
                        lines_ = [f'.org {a0}', '.byte 1, 2, 3, 4', f'.zerountil {a0 + 4 - behind}', '.byte 5']
                        M_ = {a0 + i: i + 1 for i in range(5)}
                        iv_ = [[a0, 4], [a0 + 4, 1]]
                    else:
                        lines_ = [f'.org {a0}', f'.zerountil {a0 - behind}', '.byte $11', f'.org {a0}', '.byte $22']
                        M_ = {a0: 0x11}
                        iv_ = [[a0, 1], [a0, 1]]
                    end_ = a0 + 8
                    yield {'runs': [{'files': {fn_z: text_z, 'p.asm': '\n'.join(lines_) + '\n'},
                                     'argv': ['compile', '-c', fn_z, 'p.asm', '-o', 'out.bin', '-e', str(end_)],
                                     'probes': ['steps'], 'step_limit': 300000}],
                           'meta': {'kind': 'REJECT' if shape == 'overlap' else 'ACCEPT', 'M': {str(k): v for k, v in M_.items()}, 'end': end_,
                                    'intervals': iv_, 'out_mode': 'bin'},
                           'tags': sorted({'means:zerountil-behind-the-cursor', 'expect:' + ('REJECT' if shape == 'overlap' else 'ACCEPT'),
                                           'output:bin', 'order:ascending'})}
        # an included file starts at the GLOBAL cursor, whatever zone its includer has selected: its bytes collide with (or stay
        # clear of) what lies there, not what lies at the includer's zone cursor
        isa_i = gen_prog.layout_isa(16, zones=[{'name': 'ZL', 'start': 0, 'end': 0x0F}])
        fn_i, text_i = isamod.render_isa(isa_i, 'json')
        for k_, (main_, inc_, kind_, M_) in enumerate([
                (['.memzone ZL', '.byte 1, 2, 3, 4', '#include "inc.asm"'], ['.byte $C1'], 'REJECT', {0: 1, 1: 2, 2: 3, 3: 4}),
                (['.memzone ZL', '.byte 1, 2, 3, 4', '#include "inc.asm"'], ['.org 4', '.byte $C1'], 'ACCEPT', {0: 1, 1: 2, 2: 3, 3: 4, 4: 0xC1}),
                (['.org 8', '.byte $A1', '.memzone ZL', '.byte $B1, $B2', '#include "inc.asm"', '.byte $B3'], ['.byte $C1'], 'ACCEPT',
                 {8: 0xA1, 0: 0xB1, 1: 0xB2, 9: 0xC1, 2: 0xB3}),
                (['.org 2', '.byte $A1', '.memzone ZL', '.org 3 "ZL"', '#include "inc.asm"', '.byte $B3'], ['.byte $C1'], 'REJECT',
                 {2: 0xA1, 3: 0xC1}),
                (['.org 2', '.byte $A1', '.memzone ZL', '.org 4 "ZL"', '#include "inc.asm"', '.byte $B3'], ['.byte $C1'], 'ACCEPT',
                 {2: 0xA1, 3: 0xC1, 4: 0xB3}),
                (['.org 2', '.byte $A1', '.memzone ZL', '.org 4 "ZL"', '#include "inc.asm"', '.byte $B3'], ['.byte $C1, $C2'], 'REJECT',
                 {2: 0xA1, 3: 0xC1})]):
            end_ = 12
            yield {'runs': [{'files': {fn_i: text_i, 'p.asm': '\n'.join(main_) + '\n', 'inc.asm': '\n'.join(inc_) + '\n'},
                             'argv': ['compile', '-c', fn_i, 'p.asm', '-o', 'out.bin', '-e', str(end_)],
                             'probes': ['steps'], 'step_limit': 300000}],
                   'meta': {'kind': kind_, 'M': {str(k): v for k, v in M_.items()}, 'end': end_,
                            'intervals': [[a_, 1] for a_ in sorted(M_)], 'out_mode': 'bin'},
                   'tags': sorted({'means:include-from-inside-a-zone', 'means:configured-GLOBAL-with-origin-above-its-start', 'expect:' + kind_, 'output:bin', 'order:ascending'})}
        # a zone entered again with .memzone continues behind the line placed in it last - also when an origin had moved that
        # line below bytes placed in the zone earlier: what then counts is what lies at that address, not the zone's highest use
        base_z = ['.memzone ZL', '.org 8 "ZL"', '.byte $A1, $A2', '.org 2 "ZL"', '.byte $B1', '.org $20', '.byte $C1', '.memzone ZL', '.byte $D1']
        M_z = {8: 0xA1, 9: 0xA2, 2: 0xB1, 0x20: 0xC1, 3: 0xD1}
        base_g = ['.org $30', '.byte 1, 2', '.org $28', '.byte 3', '.memzone ZL', '.byte 4', '.memzone GLOBAL', '.byte 5']
        M_g = {0x30: 1, 0x31: 2, 0x28: 3, 0: 4, 0x29: 5}
        for k_, (main_, kind_, M_) in enumerate([
                (base_z, 'ACCEPT', M_z), (base_z + ['.org 3', '.byte $E1'], 'REJECT', M_z), (base_z + ['.org 10', '.byte $E1'], 'ACCEPT', {**M_z, **{10: 0xE1}}),
                (base_z + ['.byte $D2, $D3, $D4, $D5'], 'ACCEPT', {**M_z, **{4: 0xD2, 5: 0xD3, 6: 0xD4, 7: 0xD5}}),
                (base_z + ['.byte $D2, $D3, $D4, $D5, $D6'], 'REJECT', M_z),
                (base_g, 'ACCEPT', M_g), (base_g + ['.org $29', '.byte 6'], 'REJECT', M_g), (base_g + ['.org $32', '.byte 6'], 'ACCEPT', {**M_g, **{0x32: 6}}),
                (base_g + ['.fill 6, 7'], 'ACCEPT', {**M_g, **{a_: 7 for a_ in range(0x2A, 0x30)}}), (base_g + ['.fill 7, 7'], 'REJECT', M_g)]):
            end_ = 0x40
            yield {'runs': [{'files': {fn_i: text_i, 'p.asm': '\n'.join(main_) + '\n'},
                             'argv': ['compile', '-c', fn_i, 'p.asm', '-o', 'out.bin', '-e', str(end_)],
                             'probes': ['steps'], 'step_limit': 300000}],
                   'meta': {'kind': kind_, 'M': {str(k): v for k, v in M_.items()}, 'end': end_,
                            'intervals': [[a_, 1] for a_ in sorted(M_)], 'out_mode': 'bin'},
                   'tags': sorted({'means:zone-resumed-after-a-backward-origin', 'expect:' + kind_, 'output:bin', 'order:descending'})}
        # an included file that ends in another zone than its includer hands nothing back: the includer's next line follows the
        # includer's own last line, and collides with (or stays clear of) what lies there
        for k_, (main_, inc_, kind_, M_) in enumerate([
                (['.org $20', '.byte $A1', '#include "inc.asm"', '.byte $A2'], ['.memzone ZL', '.byte $C1'], 'ACCEPT', {0x20: 0xA1, 0: 0xC1, 0x21: 0xA2}),
                (['.org $20', '.byte $A1', '#include "inc.asm"', '.byte $A2', '.org 1', '.byte $E1'], ['.memzone ZL', '.byte $C1'], 'ACCEPT',
                 {0x20: 0xA1, 0: 0xC1, 0x21: 0xA2, 1: 0xE1}),
                (['.org $20', '.byte $A1', '#include "inc.asm"', '.byte $A2', '.org $21', '.byte $E1'], ['.memzone ZL', '.byte $C1'], 'REJECT',
                 {0x20: 0xA1, 0: 0xC1, 0x21: 0xA2}),
                (['.org $20', '.byte $A1', '#include "inc.asm"', '.byte $A2', '.org $21', '.byte $E1'], ['.org 4 "ZL"', '.byte $C1, $C2'], 'REJECT',
                 {0x20: 0xA1, 4: 0xC1, 5: 0xC2, 0x21: 0xA2}),
                (['.org $20', '.byte $A1', '#include "inc.asm"', '.byte $A2', '.org 6', '.byte $E1'], ['.org 4 "ZL"', '.byte $C1, $C2'], 'ACCEPT',
                 {0x20: 0xA1, 4: 0xC1, 5: 0xC2, 0x21: 0xA2, 6: 0xE1}),
                (['.memzone ZL', '.byte $B1', '#include "inc.asm"', '.byte $B2', '.org $28', '.byte $E1'], ['.org $27', '.byte $C1'], 'ACCEPT',
                 {0: 0xB1, 0x27: 0xC1, 1: 0xB2, 0x28: 0xE1}),
                (['.memzone ZL', '.byte $B1', '#include "inc.asm"', '.byte $B2', '.org 1', '.byte $E1'], ['.org $27', '.byte $C1'], 'REJECT',
                 {0: 0xB1, 0x27: 0xC1, 1: 0xB2})]):
            end_ = 0x30
            yield {'runs': [{'files': {fn_i: text_i, 'p.asm': '\n'.join(main_) + '\n', 'inc.asm': '\n'.join(inc_) + '\n'},
                             'argv': ['compile', '-c', fn_i, 'p.asm', '-o', 'out.bin', '-e', str(end_)],
                             'probes': ['steps'], 'step_limit': 300000}],
                   'meta': {'kind': kind_, 'M': {str(k): v for k, v in M_.items()}, 'end': end_,
                            'intervals': [[a_, 1] for a_ in sorted(M_)], 'out_mode': 'bin'},
                   'tags': sorted({'means:included-file-ends-in-another-zone', 'expect:' + kind_, 'output:bin', 'order:ascending'})}
        # .align counts pages from address 0, also inside a zone whose first address is no multiple of the page size
        for k_, (body, kind_, M_) in enumerate([
                (['#create_memzone ZQ $0104 $01FF', '.memzone ZQ', '.byte 1', '.align 16', '.byte $A1, $A2', '.org $110', '.byte $E1'], 'REJECT', {0x104: 1, 0x110: 0xA1, 0x111: 0xA2}),
                (['#create_memzone ZQ $0104 $01FF', '.memzone ZQ', '.byte 1', '.align 16', '.byte $A1, $A2', '.org $114', '.byte $E1'], 'ACCEPT',
                 {0x104: 1, 0x110: 0xA1, 0x111: 0xA2, 0x114: 0xE1}),
                (['#create_memzone ZQ $0104 $01FF', '.memzone ZQ', '.byte 1', '.align 16', '.byte $A1, $A2', '.org $112', '.byte $E1'], 'ACCEPT',
                 {0x104: 1, 0x110: 0xA1, 0x111: 0xA2, 0x112: 0xE1}),
                (['#create_memzone ZQ $0103 $01FF', '.org 2 "ZQ"', '.byte 1', '.align 8', '.byte $A1', '.org $108', '.byte $E1'], 'REJECT', {0x105: 1, 0x108: 0xA1}),
                (['#create_memzone ZQ $0103 $01FF', '.org 2 "ZQ"', '.byte 1', '.align 8', '.byte $A1', '.org $10B', '.byte $E1'], 'ACCEPT',
                 {0x105: 1, 0x108: 0xA1, 0x10B: 0xE1}),
                (['#create_memzone ZQ $0106 $01FF', '.memzone ZQ', '.align 4', '.byte $A1', '.org $106', '.byte $E1'], 'ACCEPT', {0x108: 0xA1, 0x106: 0xE1}),
                (['#create_memzone ZQ $0106 $01FF', '.memzone ZQ', '.align 4', '.byte $A1', '.org $108', '.byte $E1'], 'REJECT', {0x108: 0xA1})]):
            end_ = 0x120
            fn_a, text_a = isamod.render_isa(gen_prog.layout_isa(16), 'json')
            yield {'runs': [{'files': {fn_a: text_a, 'p.asm': '\n'.join(body) + '\n'},
                             'argv': ['compile', '-c', fn_a, 'p.asm', '-o', 'out.bin', '-e', str(end_)],
                             'probes': ['steps'], 'step_limit': 300000}],
                   'meta': {'kind': kind_, 'M': {str(k): v for k, v in M_.items()}, 'end': end_,
                            'intervals': [[a_, 1] for a_ in sorted(M_)], 'out_mode': 'bin'},
                   'tags': sorted({'means:align-inside-a-zone-that-starts-off-the-page-grid', 'expect:' + kind_, 'output:bin', 'order:descending'})}
        # a predefined data block occupies its addresses whatever its value is - also when that is the value gaps are filled with
        for val_, fill_ in ((0, None), (0x100, None), (0x5A, None)):
            isa_p = gen_prog.layout_isa(16, data=[{'name': 'pd_blk', 'address': 0x40, 'value': val_, 'size': 4}])
            fn_p, text_p = isamod.render_isa(isa_p, 'json')
            for body, kind_, extra in ((['.byte 1', '.org $41', '.byte $E1'], 'REJECT', {}), (['.byte 1', '.org $43', '.byte $E1'], 'REJECT', {}),
                                       (['.byte 1', '.org $3F', '.byte $E1, $E2'], 'REJECT', {}), (['.byte 1', '.org $44', '.byte $E1'], 'ACCEPT', {0x44: 0xE1}),
                                       (['.byte 1', '.org $3F', '.byte $E1'], 'ACCEPT', {0x3F: 0xE1})):
                M_ = {0: 1, **{0x40 + j_: val_ & 0xFF for j_ in range(4)}, **extra}
                end_ = 0x50
                argv_ = ['compile', '-c', fn_p, 'p.asm', '-o', 'out.bin', '-e', str(end_)] + (['-f', str(fill_)] if fill_ is not None else [])
                yield {'runs': [{'files': {fn_p: text_p, 'p.asm': '\n'.join(body) + '\n'}, 'argv': argv_, 'probes': ['steps'], 'step_limit': 300000}],
                       'meta': {'kind': kind_, 'M': {str(k): v for k, v in M_.items()}, 'end': end_, 'fill': fill_ or 0,
                                'intervals': [[a_, 1] for a_ in sorted(M_)], 'out_mode': 'bin'},
                       'tags': sorted({'means:predefined-block-holding-the-fill-value', 'expect:' + kind_, 'output:bin', 'order:ascending'})}
        # GLOBAL defined by the configuration together with a default origin above its start: the first bytes go to the origin
        for gs_, org_ in ((0x100, 0x120), (0x10, 0x18), (0, 0x40)):
            isa_o = gen_prog.layout_isa(16, global_zone=(gs_, 0x7FFF), origin=org_)
            fn_o, text_o = isamod.render_isa(isa_o, 'json')
            for body, kind_, M_ in (
                    (['.byte $A1, $A2', f'.org {gs_}', '.byte $B1'], 'ACCEPT', {org_: 0xA1, org_ + 1: 0xA2, gs_: 0xB1}),
                    (['.byte $A1, $A2', f'.org {org_ + 1}', '.byte $B1'], 'REJECT', {org_: 0xA1, org_ + 1: 0xA2}),
                    (['.byte $A1', f'.org {org_ - gs_} "GLOBAL"', '.byte $B1'], 'REJECT', {org_: 0xA1}),
                    (['.byte $A1', f'.org {org_ - gs_ + 1} "GLOBAL"', '.byte $B1'], 'ACCEPT', {org_: 0xA1, org_ + 1: 0xB1}),
                    ([f'.org {org_ + 2}', '.byte $B1', f'.org {org_}', '.byte 1, 2, 3'], 'REJECT', {org_ + 2: 0xB1}),
                    (['nop', 'c04_here:', '.2byte c04_here'], 'ACCEPT', {org_: 0xEA, org_ + 1: (org_ + 1) >> 8, org_ + 2: (org_ + 1) & 255})):
                end_ = org_ + 8
                yield {'runs': [{'files': {fn_o: text_o, 'p.asm': '\n'.join(body) + '\n'},
                                 'argv': ['compile', '-c', fn_o, 'p.asm', '-o', 'out.bin', '-e', str(end_)],
                                 'probes': ['steps'], 'step_limit': 300000}],
                       'meta': {'kind': kind_, 'M': {str(k): v for k, v in M_.items()}, 'end': end_,
                                'intervals': [[a_, 1] for a_ in sorted(M_)], 'out_mode': 'bin'},
                       'tags': sorted({'means:configured-GLOBAL-with-origin-above-its-start', 'expect:' + kind_, 'output:bin', 'order:ascending'})}
        # GLOBAL redefined with a non-zero start: '.org v "GLOBAL"' is v above that start, '.org a' is absolute
        for gs in (0x100, 0x10):
            isa_g = gen_prog.layout_isa(16, global_zone=(gs, 0x7FFF), origin=gs)
            fn_g, text_g = isamod.render_isa(isa_g, 'json')
            for v in (0x20, 3):
                for d_ in (-1, 0, 1, 2):
                    for order in ('rel-first', 'abs-first'):
                        rel = [f'.org {v} "GLOBAL"', '.byte $A1, $A2']
                        ab_ = [f'.org {gs + v + d_}', '.byte $B1']
                        lines_ = (rel + ab_) if order == 'rel-first' else (ab_ + rel)
                        overlap = 0 <= d_ <= 1
                        M_ = {gs + v: 0xA1, gs + v + 1: 0xA2, gs + v + d_: 0xB1}
                        end_ = gs + v + 4
                        yield {'runs': [{'files': {fn_g: text_g, 'p.asm': '\n'.join(lines_) + '\n'},
                                         'argv': ['compile', '-c', fn_g, 'p.asm', '-o', 'out.bin', '-e', str(end_)],
                                         'probes': ['steps'], 'step_limit': 300000}],
                               'meta': {'kind': 'REJECT' if overlap else 'ACCEPT', 'M': {str(k_): x_ for k_, x_ in M_.items()}, 'end': end_,
                                        'intervals': [[gs + v, 2], [gs + v + d_, 1]], 'out_mode': 'bin'},
                               'tags': sorted({'means:global-relative-org', 'expect:' + ('REJECT' if overlap else 'ACCEPT'), 'output:bin'})}
        n = 400 if tier == 'quick' else 12000
        for i in range(n):
            rng = core.rng_for(seed, self.pid, 'rand', i)
            cnt = rng.randrange(2, 7)
            items = [(rng.randrange(0, 30), rng.choice([0, 1, 1, 2, 3, 4, 6])) for _ in range(cnt)]
            mute = rng.randrange(cnt) if rng.random() < 0.1 else None
            yield self.build(rng, items, None, None, mute)
        if tier == 'thorough':
            rng = core.rng_for(0, self.pid, 'sweep')
            for a in range(0, 7):
                for l in range(0, 4):
                    for b in range(0, 7):
                        for m in range(0, 4):
                            for order in ('ascending', 'descending'):
                                yield self.build(rng, [(a, l), (b, m)], ['org', 'org'], order)

    def judge(self, case, outcomes):
        o = outcomes[0]
        m = case['meta']
        tags = case['tags']
        nt = '|'.join(t for t in tags)
        if o.get('timed_out'):
            return [core.violated('termination:' + str(o['timed_out']), {'src': case['runs'][0]['files']['p.asm']})]
        if m['kind'] == 'DONT_CARE':
            return [core.dont_care('zero-length inside / muted overlap / containment')]
        err = (o.get('stderr') or '')
        if m['kind'] == 'REJECT':
            if o.get('exit') == 0:
                return [core.violated('overlap-accepted', {'intervals': m['intervals'], 'source': case['runs'][0]['files']['p.asm'],
                                                           'image': (o.get('files') or {}).get('out.bin')}, buckets=tags, nt=nt)]
            return [core.held(buckets=tags, nt=nt)]
        img = (o.get('files') or {}).get('out.bin')
        mode = m.get('out_mode', 'bin')
        hx = (o.get('files') or {}).get('out.hex')
        if mode in ('nobin', 'both') and o.get('exit') == 0:
            if hx is None:
                return [core.violated('no-intel-hex-written', {'source': case['runs'][0]['files']['p.asm']}, buckets=tags, nt=nt)]
            try:
                D = formats.decode_intel_hex(bytes.fromhex(hx).decode('utf-8', 'replace'))
            except formats.DecodeError as e:
                return [core.violated('intel-hex-undecodable', {'error': str(e)}, buckets=tags, nt=nt)]
            E = {int(k): v for k, v in m['M'].items()}
            if D != E:
                return [core.violated('intel-hex-differs', {'expected': {str(k): v for k, v in sorted(E.items())[:40]},
                                                            'got': {str(k): v for k, v in sorted(D.items())[:40]},
                                                            'source': case['runs'][0]['files']['p.asm']}, buckets=tags, nt=nt)]
            if mode == 'nobin':
                if img is not None:
                    return [core.violated('binary-written-despite-no-binary', {}, buckets=tags, nt=nt)]
                return [core.held(buckets=tags, nt=nt)]
        if o.get('exit') != 0 or img is None:
            sig = 'disjoint-rejected-as-overlap' if 'overlap' in err else 'disjoint-program-rejected'
            return [core.violated(sig, {'intervals': m['intervals'], 'stderr': err[-400:],
                                        'source': case['runs'][0]['files']['p.asm']}, buckets=tags, nt=nt)]
        data = bytes.fromhex(img)
        exp = bytes(m['M'].get(str(a), 0) for a in range(0, m['end'] + 1))
        if data != exp:
            return [core.violated('image-differs', {'expected': exp.hex(), 'got': img, 'source': case['runs'][0]['files']['p.asm']},
                                  buckets=tags, nt=nt)]
        return [core.held(buckets=tags, nt=nt)]

    def sample_of(self, case, outcomes):
        return {'source': case['runs'][0]['files']['p.asm'][:600], 'expect': case['meta']['kind'],
                'intervals[start,len]': case['meta']['intervals'], 'exit': outcomes[0].get('exit')}
