"""C05 — memory zones confine and sequence the code assigned to them.

Oracle: zone model (one cursor per zone, containment of every positive-size line in its zone and in GLOBAL, zone-relative
vs bare origins, include starts in GLOBAL / includer resumes its zone, validity of declared zones).  Every stretch emits
marker bytes, so the image reveals where each stretch went.  Probe: `cursor` invariant.
"""
from vf import core, isa as isamod, gen_prog
from vf.model import layout


def zone_layout(rng, addr_bits):
    """-> (predefined zones list, global override or None, origin)"""
    top = (1 << addr_bits) - 1
    span = min(top, 0x3FF)
    kind = rng.choice(['plain', 'adjacent', 'overlapping', 'nested', 'global-redefined', 'global-redefined'])
    zones = []
    gz = None
    origin = None
    if kind in ('plain', 'adjacent', 'overlapping', 'nested'):
        a = rng.randrange(8, span // 3)
        l1 = rng.randrange(4, 24)
        zones.append({'name': 'ZA', 'start': a, 'end': a + l1 - 1})
        if kind == 'adjacent':
            zones.append({'name': 'ZB', 'start': a + l1, 'end': a + l1 + rng.randrange(3, 20)})
        elif kind == 'overlapping':
            zones.append({'name': 'ZB', 'start': a + l1 // 2, 'end': a + l1 + rng.randrange(3, 20)})
        elif kind == 'nested':
            zones.append({'name': 'ZB', 'start': a + 1, 'end': a + max(2, l1 // 2)})
        else:
            b = a + l1 + rng.randrange(4, 40)
            zones.append({'name': 'ZB', 'start': b, 'end': b + rng.randrange(3, 20)})
        if rng.random() < 0.3:
            zones.append({'name': 'TOPZ', 'start': top - rng.randrange(3, 12), 'end': top})
    else:
        gs = rng.randrange(4, span // 4)
        ge = min(top, gs + rng.randrange(60, 200))
        gz = (gs, ge)
        origin = rng.choice([gs, gs, gs + 3])
        a = gs + rng.randrange(10, 30)
        zones.append({'name': 'ZA', 'start': a, 'end': a + rng.randrange(4, 20)})
        zones.append({'name': 'ZB', 'start': ge - rng.randrange(3, 12), 'end': ge})
    return kind, zones, gz, origin


class C05(core.Check):
    pid = 'C05'
    level = 'exploration'
    rule = ('zone layouts (predefined plain / adjacent / overlapping / nested / reaching the top of memory, GLOBAL redefined to '
            'a sub-range with origin inside it, source-created zones valid and of each invalid kind) x programs of marker '
            'stretches switching zones by .memzone, zone-relative .org, "GLOBAL"-relative .org and bare .org, with final lines '
            'sized to end exactly at / one past a zone end and the GLOBAL end, and includes issued from inside a zone. '
            'Expectation from the zone model: REJECT iff a positive-size line leaves its zone or GLOBAL or a declared zone is '
            'invalid; else the image must equal the model map. distinct_nontrivial = distinct (layout kind, switch means, '
            'boundary class, expectation) tuples.')
    assumptions = ('in the generated layouts predefined zones lie inside GLOBAL; zones reaching beyond a redefined GLOBAL have a directed family of their own',
                   'an origin or alignment that parks the cursor outside a zone without placing a byte there is DONT_CARE')
    chunk = 1000
    no_image_reject = lambda self, c: c['meta'].get('kind') == 'REJECT'
    required_buckets = {b: 3 for b in [
        'boundary:ends-at-zone-end', 'boundary:one-past-zone-end', 'boundary:ends-at-global-end', 'boundary:one-past-global-end',
        'org:zone-offset-0', 'org:zone-offset-last', 'org:zone-offset-past', 'org:bare-after-zone', 'org:GLOBAL-relative',
        'same-zone>=3-stretches', 'create:valid', 'create:outside-global', 'create:duplicate', 'create:duplicate/same-range', 'zone-selected-inside-a-muted-block', 'create:in-a-branch-that-is-not-compiled', 'macro-of-part-byte-steps-at-a-zone-edge', 'zone-names-differing-in-letter-case-only', 'create:inverted',
        'create:beyond-width', 'layout:global-redefined', 'layout:overlapping', 'layout:adjacent', 'layout:nested',
        'include-from-zone', 'include-from-zone-then-continue', 'org:zone-offset-negative', 'org:bare-literal-inside-selected-zone', 'zerountil-in-zone', 'zone-switch-in-unselected-branch', 'isa-zone:inverted', 'isa-zone:beyond-width', 'inverted-by-1', 'expect:ACCEPT', 'expect:REJECT', 'isa-zone:reaches-beyond-redefined-GLOBAL', 'isa-zone:reaches-above', 'isa-zone:reaches-below']}

    def build(self, rng, directed=None):
        addr_bits = rng.choice([8, 10, 12, 16])
        kind, zones, gz, origin = zone_layout(rng, addr_bits)
        if addr_bits == 8:
            # keep everything inside 0..255
            zones = [z for z in zones if z['end'] <= 255]
            if gz and gz[1] > 255:
                gz = (gz[0], 255)
        tags = {'layout:' + kind}
        G = gz or (0, (1 << addr_bits) - 1)
        files = {}
        main = []
        marker = [0x10]

        def stretch(n, lines, at=None):
            """n marker bytes as 1..3 byte lines (with `at` = address of the first one: sometimes zeros up to an address)"""
            v = marker[0]
            marker[0] = (marker[0] + 0x11) & 0xFF or 0x10
            while n > 0:
                k = rng.randrange(1, min(n, 4) + 1)
                if at is not None and rng.random() < 0.2:
                    # .zerountil fills in the selected zone like any other byte line
                    lines.append({'k': 'zerountil', 'a': at + k - 1})
                    tags.add('zerountil-in-zone')
                    at += k
                    n -= k
                    continue
                if at is not None:
                    at += k
                if rng.random() < 0.5:
                    lines.append({'k': 'data', 'width': 1, 'vals': [v] * k})
                else:
                    lines.append({'k': 'fill', 'n': k, 'v': v})
                n -= k
        zt = layout.zone_table(addr_bits, ([{'name': 'GLOBAL', 'start': gz[0], 'end': gz[1]}] if gz else []) + zones)
        used = {n: 0 for n in zt}            # bytes already laid out per zone (model-side bookkeeping for the generator)
        cursor = {n: z[0] for n, z in zt.items()}
        cursor['GLOBAL'] = origin if origin is not None else 0
        count = {n: 0 for n in zt}
        cur = 'GLOBAL'
        created = []
        n_st = rng.randrange(2, 9)
        d = directed
        for i in range(n_st):
            r = rng.random()
            names = sorted(zt)
            if r < 0.3:
                z = rng.choice(names)
                main.append({'k': 'memzone', 'name': z})
                cur = z
            elif r < 0.5:
                z = rng.choice(names)
                room = zt[z][1] - zt[z][0]
                off = rng.choice([0, cursor[z] - zt[z][0], min(room, cursor[z] - zt[z][0] + 2)])
                off = max(off, cursor[z] - zt[z][0])          # never go back over placed bytes (overlap is C04)
                if off > room:
                    continue
                main.append({'k': 'org', 'addr': off, 'zone_name': z})
                tags.add('org:GLOBAL-relative' if z == 'GLOBAL' else
                         ('org:zone-offset-0' if off == 0 else 'org:zone-offset-last' if off == room else 'org:zone-offset-mid'))
                cur = z
                cursor[z] = zt[z][0] + off
            elif r < 0.62:
                a = max(cursor['GLOBAL'], G[0]) + rng.choice([0, 1, 5])
                # bare origins stay clear of the named zones (so stretches do not collide)
                hi = max([z['end'] for z in zones if z['end'] < G[1] - 40] + [a])
                if rng.random() < 0.5:
                    a = max(a, hi + 1)
                if a > G[1]:
                    continue
                if cur != 'GLOBAL':
                    tags.add('org:bare-after-zone')
                main.append({'k': 'org', 'addr': a, 'zone_name': None})
                cur = 'GLOBAL'
                cursor['GLOBAL'] = a
            elif r < 0.72 and len(created) < 2:
                nm = f'CZ{len(created)}'
                room_lo = max(G[0], cursor['GLOBAL'] + 60)
                if room_lo + 12 <= G[1]:
                    s = rng.randrange(room_lo, min(G[1] - 8, room_lo + 100))
                    e = min(G[1], s + rng.randrange(3, 16))
                    main.append({'k': 'create_memzone', 'name': nm, 'start': s, 'end': e})
                    zt[nm] = [s, e]
                    cursor[nm] = s
                    count[nm] = 0
                    created.append(nm)
                    tags.add('create:valid')
                    continue
            elif r < 0.8 and cur != 'GLOBAL' and 'inc.asm' not in files:
                inc = []
                stretch(rng.randrange(1, 4), inc)
                # the included file starts in GLOBAL: its bytes go to the GLOBAL cursor
                n = sum(l['n'] if l['k'] == 'fill' else len(l['vals']) for l in inc)
                if cursor['GLOBAL'] + n - 1 <= G[1]:
                    files['inc.asm'] = inc
                    main.append({'k': 'include_begin', 'text': '#include "inc.asm"'})
                    main.extend(inc)
                    main.append({'k': 'include_end'})
                    cursor['GLOBAL'] += n
                    tags.add('include-from-zone')
                    if rng.random() < 0.3:
                        continue
                    # usually the includer goes on at once, without re-selecting its zone
                    tags.add('include-from-zone-then-continue')
            if rng.random() < 0.2:
                # a zone switch inside a branch that is not compiled must not switch anything
                z = rng.choice(sorted(zt))
                dead = rng.choice([f'.memzone {z}', f'.org 0 "{z}"', f'.org {G[0] + 1}'])
                main.append({'k': 'comment', 'text': rng.choice(['#if 0', '#ifdef NOT_DEFINED_ANYWHERE']) + '\n' + dead + '\n#endif'})
                tags.add('zone-switch-in-unselected-branch')
            # a stretch of marker bytes in the current zone
            room = zt[cur][1] - cursor[cur] + 1
            groom = G[1] - cursor[cur] + 1
            room_eff = min(room, groom)
            if room_eff <= 0:
                continue
            n = rng.randrange(1, min(room_eff, 6) + 1)
            last = (i == n_st - 1)
            if last and d:
                if d == 'at-end':
                    n = room_eff
                elif d == 'past-end':
                    n = room_eff + 1
            elif rng.random() < 0.12:
                n = rng.choice([room_eff, room_eff + 1])
            if n > 300:
                continue
            if n == room_eff:
                tags.add('boundary:ends-at-global-end' if groom <= room else 'boundary:ends-at-zone-end')
            elif n == room_eff + 1:
                tags.add('boundary:one-past-global-end' if groom <= room else 'boundary:one-past-zone-end')
            stretch(n, main, at=cursor[cur])
            cursor[cur] += n
            count[cur] += 1
            if count[cur] >= 3:
                tags.add('same-zone>=3-stretches')
        if d == 'org-past':
            z = rng.choice(sorted(n for n in zt if n != 'GLOBAL'))
            room = zt[z][1] - zt[z][0]
            main.append({'k': 'org', 'addr': room + rng.choice([1, 1, 2]), 'zone_name': z})
            stretch(rng.randrange(1, 3), main)
            tags.add('org:zone-offset-past')
        if d == 'bare-org-into-zone':
            # a bare origin whose literal address lies inside the selected named zone is still absolute and reverts to GLOBAL:
            # the zone's own cursor stays where it was, GLOBAL goes on from the new address
            cand = sorted(n for n in zt if n != 'GLOBAL' and cursor[n] + 10 <= zt[n][1] and cursor[n] + 10 <= G[1] and cursor[n] >= zt[n][0])
            if cand:
                z = rng.choice(cand)
                main.append({'k': 'memzone', 'name': z})
                stretch(2, main)
                a = cursor[z] + 2 + 4
                main.append({'k': 'org', 'addr': a, 'zone_name': None})
                stretch(2, main)
                main.append({'k': 'memzone', 'name': z})
                stretch(2, main)
                main.append({'k': 'memzone', 'name': 'GLOBAL'})
                stretch(1, main)
                tags.add('org:bare-literal-inside-selected-zone')
        if d == 'org-below':
            # a negative zone-relative origin: the bytes land below the zone's first address (still inside GLOBAL)
            cand = sorted(n for n in zt if n != 'GLOBAL' and zt[n][0] - 4 >= G[0])
            if cand:
                z = rng.choice(cand)
                main.append({'k': 'org', 'addr': -rng.choice([1, 2, 4]), 'zone_name': z})
                stretch(rng.randrange(1, 3), main)
                tags.add('org:zone-offset-negative')
        if not any(l['k'] in layout.BYTE_KINDS for l in main):
            stretch(2, main)
        isa = gen_prog.layout_isa(addr_bits, zones=zones, global_zone=gz, origin=origin)
        return self.finish(rng, isa, main, files, addr_bits, zones, gz, origin, tags)

    def finish(self, rng, isa, main, files, addr_bits, zones, gz, origin, tags, force_kind=None):
        pz = ([{'name': 'GLOBAL', 'start': gz[0], 'end': gz[1]}] if gz else []) + list(zones)
        res = layout.layout(main, addr_bits, origin=origin or 0, predefined_zones=pz,
                            size_of=lambda l, a: gen_prog.byte_line_size(isa, l))
        kind = force_kind or res.kind
        if kind == 'ACCEPT':
            ok, _ = layout.overlaps(res)
            if ok != 'ACCEPT':
                kind = 'DONT_CARE'
        exp = None
        if kind == 'ACCEPT':
            zt = {k: tuple(v) for k, v in res.zones.items()}
            layout.memory_map(res, lambda l: gen_prog.byte_line_bytes(isa, l, None, zt))
            img = layout.image(res.M, 0, None, 0)
            exp = img.hex() if img is not None else None
        for ln in main:
            if 'text' not in ln or ln['k'] not in ('include_begin',):
                if ln['k'] not in ('include_begin', 'include_end'):
                    ln['text'] = gen_prog.render_line(ln, rng)
        inc_ids = {id(l) for ls in files.values() for l in ls}
        src_main = ''.join(l['text'] + '\n' for l in main if l['k'] != 'include_end' and id(l) not in inc_ids)
        fl = {'p.asm': src_main}
        for fn_, ls in files.items():
            fl[fn_] = ''.join(l['text'] + '\n' for l in ls)
        fn, text = isamod.render_isa(isa, 'json')
        fl[fn] = text
        tags = set(tags)
        tags.add('expect:' + kind)
        return {'runs': [{'files': fl, 'argv': ['compile', '-c', fn, 'p.asm', '-o', 'out.bin'],
                          'probes': ['steps', 'cursor', 'contracts'], 'step_limit': 5_000_000}],
                'meta': {'kind': kind, 'why': res.reason, 'image': exp}, 'tags': sorted(tags)}

    def invalid_zone_cases(self, rng, i):
        """source-created zones of each invalid kind, and invalid zones in the ISA definition"""
        addr_bits = rng.choice([8, 12, 16]) if i % 7 else rng.choice([12, 16])
        top = (1 << addr_bits) - 1
        gz = None
        if (rng.random() < 0.5 or i % 7 == 0) and addr_bits > 8:
            gz = (0x20, 0x7F)
        G = gz or (0, top)
        zones = [{'name': 'ZA', 'start': G[0] + 4, 'end': G[0] + 12}]
        which = ['create:outside-global', 'create:duplicate', 'create:inverted', 'create:beyond-width', 'create:valid',
                 'isa-zone:inverted', 'isa-zone:beyond-width'][i % 7]
        main = [{'k': 'data', 'width': 1, 'vals': [0x42]}]
        isa_zones = list(zones)
        force = None
        which_extra = None
        if which == 'create:outside-global':
            if gz:
                variants = [(G[0] - 3, G[0] + 5), (G[1] - 4, G[1] + 1), (G[1] + 2, G[1] + 9), (0, G[0] - 1), (G[0] - 1, G[0]),
                            (G[1], G[1] + 1), (G[0] - 1, G[1] + 1), (G[0] + 3, G[1] + 40)]
                s, e = variants[(i // 7) % len(variants)]
            else:
                if addr_bits >= 16:
                    which = 'create:beyond-width'
                    s, e = top - 3, top + 1
                else:
                    s, e = top - 3, top + 1
                    which = 'create:beyond-width'
            main.insert(0, {'k': 'create_memzone', 'name': 'NEWZ', 'start': s, 'end': e})
        elif which == 'create:duplicate':
            nm = ['ZA', 'GLOBAL', 'NEWZ'][(i // 14) % 3] if i < 140 else rng.choice(['ZA', 'GLOBAL', 'NEWZ'])
            # the second declaration is a reuse of the name whether or not it repeats the first one's range
            same = (i // 7) % 2 == 1
            if same:
                which_extra = 'create:duplicate/same-range'
            if nm == 'NEWZ':
                main.insert(0, {'k': 'create_memzone', 'name': 'NEWZ', 'start': G[0] + 20, 'end': G[0] + 25})
                main.insert(1, {'k': 'create_memzone', 'name': 'NEWZ', 'start': G[0] + (20 if same else 30), 'end': G[0] + (25 if same else 35)})
            elif same:
                b_ = {'ZA': (G[0] + 4, G[0] + 12), 'GLOBAL': G}[nm]
                main.insert(0, {'k': 'create_memzone', 'name': nm, 'start': b_[0], 'end': b_[1]})
            else:
                main.insert(0, {'k': 'create_memzone', 'name': nm, 'start': G[0] + 20, 'end': G[0] + 25})
        elif which == 'create:inverted':
            inv_by = [1, 5, 1, 2, 30][(i // 7) % 5]          # start exactly one above end is inverted too
            main.insert(0, {'k': 'create_memzone', 'name': 'NEWZ', 'start': G[0] + 30, 'end': G[0] + 30 - inv_by})
            which_extra = 'inverted-by-1' if inv_by == 1 else None
        elif which == 'create:beyond-width':
            main.insert(0, {'k': 'create_memzone', 'name': 'NEWZ', 'start': top - 2, 'end': top + rng.choice([1, 2, 300])})
        elif which == 'create:valid':
            s = G[0] + 20
            main.insert(0, {'k': 'create_memzone', 'name': 'NEWZ', 'start': s, 'end': s + 5})
            main += [{'k': 'memzone', 'name': 'NEWZ'}, {'k': 'data', 'width': 1, 'vals': [0x43, 0x44]}]
        elif which == 'isa-zone:inverted':
            inv_by = [1, 10, 1, 2][(i // 7) % 4]
            isa_zones.append({'name': 'BADZ', 'start': G[0] + 40, 'end': G[0] + 40 - inv_by})
            which_extra = 'inverted-by-1' if inv_by == 1 else None
            force = 'REJECT'
        elif which == 'isa-zone:beyond-width':
            isa_zones.append({'name': 'BADZ', 'start': top - 4, 'end': top + rng.choice([1, 5])})
            force = 'REJECT'
        isa = gen_prog.layout_isa(addr_bits, zones=isa_zones, global_zone=gz, origin=G[0] if gz else None)
        return self.finish(rng, isa, main, {}, addr_bits, zones if force else isa_zones, gz, G[0] if gz else None,
                           {which} | ({which_extra} if which_extra else set()), force_kind=force)

    def cases(self, tier, seed):
        n_pre = 260
        n = 400 if tier == 'quick' else 9000
        for i in range(n_pre + n):
            rng = core.rng_for(0 if i < n_pre else seed, self.pid, i)
            d = ['at-end', 'past-end', None, 'org-past', 'org-below', 'bare-org-into-zone'][i % 6] if i < n_pre else rng.choice(['at-end', 'past-end', 'org-past', 'org-below', 'bare-org-into-zone', None, None, None])
            yield self.build(rng, d)
        yield from self.sticking_out_cases()
        yield from self.muted_selection_cases()
        yield from self.uncompiled_declaration_cases()
        yield from self.macro_at_zone_end_cases()
        yield from self.case_twin_zone_cases()
        for i in range(140 if tier == 'quick' else 1400):
            rng = core.rng_for(0 if i < 140 else seed, self.pid, 'inv', i)
            yield self.invalid_zone_cases(rng, i)

    def case_twin_zone_cases(self):
        """zone names are names like labels: 'buf' and 'BUF' (configured, or declared in source) are two zones"""
        D = lambda *v: {'k': 'data', 'width': 1, 'vals': list(v)}     # noqa: E731
        Z = lambda n: {'k': 'memzone', 'name': n}                     # noqa: E731
        for k, (lo, hi) in enumerate((('buf', 'BUF'), ('Ram', 'ram'), ('io_x', 'IO_x'), ('zq', 'zQ'))):
            for where in ('configured', 'declared', 'one-each'):
                rng = core.rng_for(0, self.pid, 'twin', k, where)
                conf = [{'name': lo, 'start': 0x10, 'end': 0x1F}, {'name': hi, 'start': 0x40, 'end': 0x4F}]
                pre = conf if where == 'configured' else (conf[:1] if where == 'one-each' else [])
                main = [{'k': 'create_memzone', 'name': z['name'], 'start': z['start'], 'end': z['end']} for z in conf if z not in pre]
                main += [Z(lo), D(1, 2), Z(hi), D(3), Z(lo), D(4), {'k': 'org', 'addr': 2, 'zone_name': hi}, D(5), Z(lo), D(6)]
                isa = gen_prog.layout_isa(16, zones=pre)
                yield self.finish(rng, isa, main, {}, 16, pre, None, None, {'zone-names-differing-in-letter-case-only', 'twin:' + where})

    def macro_at_zone_end_cases(self):
        """a macro occupies the bytes of its steps, each padded to whole bytes: the last of them has to lie inside the zone, and
        the next line follows the last of them"""
        for k, (mname, mhex) in enumerate(gen_prog.MACRO_LINES):
            msz = len(mhex) // 2
            for where in ('ends-at-zone-end', 'one-past-zone-end', 'inside-then-byte', 'ends-at-global-end', 'one-past-global-end'):
                for ab in (12, 16):
                    rng = core.rng_for(0, self.pid, 'macro-end', k, where, ab)
                    top = (1 << ab) - 1
                    zones = [{'name': 'ZM', 'start': 0x40, 'end': 0x4F}]
                    M = {'k': 'bytes', 'bytes': mhex, 'text': mname}
                    if where.endswith('global-end'):
                        room = 6
                        main = [{'k': 'org', 'addr': top - room + 1, 'zone_name': None}]
                    else:
                        room = 16
                        main = [{'k': 'memzone', 'name': 'ZM'}]
                    lead = room - msz - {'ends-at-zone-end': 0, 'ends-at-global-end': 0, 'one-past-zone-end': -1, 'one-past-global-end': -1, 'inside-then-byte': 3}[where]
                    main.append({'k': 'fill', 'n': lead, 'v': 0x77})
                    main.append(M)
                    if where == 'inside-then-byte':
                        main.append({'k': 'data', 'width': 1, 'vals': [0xE1, 0xE2]})
                    isa = gen_prog.layout_isa(ab, zones=zones)
                    yield self.finish(rng, isa, main, {}, ab, zones, None, None,
                                      {'macro-of-part-byte-steps-at-a-zone-edge' if mname != 'duo' else 'macro-at-a-zone-edge', 'boundary:' + where})

    def uncompiled_declaration_cases(self):
        """a zone declaration in a branch that is not compiled declares nothing: the name stays free, and unknown"""
        C = lambda t: {'k': 'comment', 'text': t}                     # noqa: E731
        D = lambda *v: {'k': 'data', 'width': 1, 'vals': list(v)}     # noqa: E731
        mk = lambda a, b: {'k': 'create_memzone', 'name': 'ZD', 'start': a, 'end': b}     # noqa: E731
        for k, (main, force) in enumerate([
                ([D(1), C('#if 0\n#create_memzone ZD $20 $2F\n#endif'), {'k': 'memzone', 'name': 'ZD'}, D(2)], 'REJECT'),
                ([D(1), C('#ifdef C05_NOT_DEFINED\n#create_memzone ZD $20 $2F\n#endif'), {'k': 'org', 'addr': 2, 'zone_name': 'ZD'}, D(2)], 'REJECT'),
                ([D(1), C('#ifdef C05_BIG\n#create_memzone ZD $20 $2F\n#else'), mk(0x40, 0x4F), C('#endif'), {'k': 'memzone', 'name': 'ZD'}, D(2, 3)], None),
                ([D(1), C('#if 1'), mk(0x40, 0x4F), C('#else\n#create_memzone ZD $20 $2F\n#endif'), {'k': 'memzone', 'name': 'ZD'}, D(2, 3)], None),
                ([mk(0x20, 0x2F), C('#if 0\n#create_memzone ZD $30 $3F\n#endif'), {'k': 'memzone', 'name': 'ZD'}, D(2)], None),
                ([C('#if 0\n#create_memzone ZD $30 $3F\n#elif 0\n#create_memzone ZD $50 $5F\n#endif'), mk(0x20, 0x2F), {'k': 'org', 'addr': 3, 'zone_name': 'ZD'}, D(2)], None),
                ([C('#if 0\n#if 1\n#create_memzone ZD $30 $3F\n#endif\n#endif'), D(4), {'k': 'memzone', 'name': 'ZD'}, D(2)], 'REJECT')]):
            for ab in (12, 16):
                rng = core.rng_for(0, self.pid, 'dead-create', k, ab)
                isa = gen_prog.layout_isa(ab)
                import copy
                yield self.finish(rng, isa, copy.deepcopy(main), {}, ab, [], None, None, {'create:in-a-branch-that-is-not-compiled'}, force_kind=force)

    def muted_selection_cases(self):
        """a zone or origin directive inside #mute .. #unmute selects and positions like any other: muting silences bytes, nothing else"""
        C = lambda t: {'k': 'comment', 'text': t}                     # noqa: E731
        D = lambda *v: {'k': 'data', 'width': 1, 'vals': list(v)}     # noqa: E731
        zones = [{'name': 'ZA', 'start': 0x20, 'end': 0x2F}, {'name': 'ZONE1', 'start': 0x30, 'end': 0x30}]
        for k, (sel, unm) in enumerate([({'k': 'memzone', 'name': 'ZA'}, '#unmute'), ({'k': 'org', 'addr': 3, 'zone_name': 'ZA'}, '#emit'),
                                        ({'k': 'org', 'addr': 0x40, 'zone_name': None}, '#unmute'), ({'k': 'memzone', 'name': 'ZONE1'}, '#unmute')]):
            for tail in ((1,), (1, 2)):
                for pre_zone in (None, 'ZA'):
                    for ab in (12, 16):
                        rng = core.rng_for(0, self.pid, 'muted-sel', k, len(tail), pre_zone, ab)
                        main = [D(9)] + ([{'k': 'memzone', 'name': pre_zone}, D(8)] if pre_zone else []) + [C('#mute'), dict(sel), C(unm), D(*tail)]
                        isa = gen_prog.layout_isa(ab, zones=zones)
                        yield self.finish(rng, isa, main, {}, ab, zones, None, None, {'zone-selected-inside-a-muted-block'})

    def sticking_out_cases(self):
        """a zone predefined by the configuration may reach beyond a redefined GLOBAL zone; bytes may not"""
        for ab in (12, 16):
            for side, (zs, ze) in (('above', (0x1F0, 0x20F)), ('below', (0x0F0, 0x10F)), ('around', (0x0F8, 0x208))):
                isa = gen_prog.layout_isa(ab, global_zone=(0x100, 0x1FF), origin=0x100, zones=[{'name': 'ZX', 'start': zs, 'end': ze}])
                fn, text = isamod.render_isa(isa, 'json')
                for first, n in ((0x1FC, 4), (0x1FD, 4), (0x1FF, 1), (0x1FF, 2), (0x200, 1), (0x100, 2), (0x0FF, 1), (0x0FF, 2), (0x0FE, 1), (zs, 1)):
                    if not (zs <= first and first + n - 1 <= ze):
                        continue
                    inside = 0x100 <= first and first + n - 1 <= 0x1FF
                    for via in ('zone-org', 'fill-up-to'):
                        if via == 'zone-org':
                            body = ['.memzone ZX', f'.org {first - zs} "ZX"', '.byte ' + ', '.join(str(0x41 + k_) for k_ in range(n))]
                            M_ = {first + k_: 0x41 + k_ for k_ in range(n)}
                        else:
                            if first == zs or first - zs > 40:
                                pad = []
                                M_ = {}
                                body = ['.memzone ZX', f'.org {first - zs} "ZX"']
                            else:
                                body = ['.memzone ZX', f'.fill {first - zs}, $EE']
                                M_ = {zs + k_: 0xEE for k_ in range(first - zs)}
                                inside = inside and zs >= 0x100
                            body += ['.byte ' + ', '.join(str(0x41 + k_) for k_ in range(n))]
                            M_.update({first + k_: 0x41 + k_ for k_ in range(n)})
                        kind = 'ACCEPT' if inside else 'REJECT'
                        img = layout.image(M_, 0xE0, None, 0).hex() if inside else None
                        yield {'runs': [{'files': {fn: text, 'p.asm': '\n'.join(body) + '\n'},
                                         'argv': ['compile', '-c', fn, 'p.asm', '-o', 'out.bin', '-s', str(0xE0)],
                                         'probes': ['steps', 'cursor'], 'step_limit': 400000}],
                               'meta': {'kind': kind, 'why': f'bytes {first:#x}..{first + n - 1:#x} with GLOBAL 0x100..0x1ff', 'image': img},
                               'tags': sorted({'isa-zone:reaches-beyond-redefined-GLOBAL', 'isa-zone:reaches-' + side, 'expect:' + kind,
                                               'boundary:one-past-global-end' if (not inside and first + n - 1 == 0x200) else
                                               'boundary:ends-at-global-end' if (inside and first + n - 1 == 0x1FF) else 'boundary:other'})}

    def judge(self, case, outcomes):
        o = outcomes[0]
        m = case['meta']
        tags = case['tags']
        nt = '|'.join(tags)
        src = {k: v for k, v in case['runs'][0]['files'].items() if k.endswith('.asm')}
        if o.get('timed_out'):
            return [core.violated('termination:' + str(o['timed_out']), {'src': src})]
        if m['kind'] == 'DONT_CARE':
            return [core.dont_care(m.get('why') or 'dont-care')]
        if m['kind'] == 'REJECT':
            if o.get('exit') == 0:
                cls = next((t for t in tags if t.startswith(('boundary:one-past', 'create:', 'isa-zone:'))), 'other')
                return [core.violated('must-reject-accepted/' + cls, {'why': m.get('why'), 'src': src,
                                                                      'image': (o.get('files') or {}).get('out.bin', '')[:400]},
                                      buckets=tags, nt=nt)]
            return [core.held(buckets=tags, nt=nt)]
        img = (o.get('files') or {}).get('out.bin')
        if o.get('exit') != 0 or img is None:
            cls = next((t for t in tags if t.startswith('boundary:ends-at')), 'other')
            return [core.violated('fits-but-rejected/' + cls, {'stderr': (o.get('stderr') or '')[-400:], 'src': src},
                                  buckets=tags, nt=nt)]
        vs = []
        cv = ((o.get('probes') or {}).get('cursor') or {}).get('violations')
        if cv:
            vs.append(core.violated('cursor-outside-zone', {'v': cv[:3]}))
        cb = ((o.get('probes') or {}).get('contracts') or {}).get('broken')
        if cb:
            vs.append(core.violated('contract-broken/MemoryZone-invariant', {'v': cb[:3]}))
        if m['image'] is not None and img != m['image']:
            vs.append(core.violated('image-differs', {'expected': m['image'][:600], 'got': img[:600], 'src': src},
                                    buckets=tags, nt=nt))
        if not vs:
            vs.append(core.held(buckets=tags, nt=nt))
        return vs

    def sample_of(self, case, outcomes):
        return {'files': {k: v[:500] for k, v in case['runs'][0]['files'].items() if k.endswith('.asm')},
                'expect': case['meta']['kind'], 'why': case['meta'].get('why'), 'exit': outcomes[0].get('exit'),
                'tags': case['tags']}
