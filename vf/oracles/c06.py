"""C06 — label references resolve only within their lexical scope.

Oracle: lexical-scope model (Appendix A.6) over 1..4 files: every definition sits at a distinct address, so the bytes of
`.2byte <ref>` identify the definition used.  Each program has at most one possibly-illegal site so a rejection is
attributable.  Probe: `labels` (which scope object answered each lookup).
"""
import json
from vf import core, isa as isamod, gen_prog
from vf.model import layout

LOCALS = ['.loop', '.done', '.x1']
FILE_LABELS = ['_tmp', '_cnt', '_buf']
GLOBALS = ['main', 'sub_a', 'Data1', 'tbl_x', 'vec', 'fin', 'prt', 'q_entry', 'loop', 'done', 'G7', 'zz_top', 'each', 'bach', 'b1_1']
# the last three are declared in the ISA with these very spellings (upper / mixed case): a label or constant of exactly
# that spelling is a register name too
REGS = ['a', 'b', 'sp', 'SPQ', 'Rx', 'IDX']
KEYWORDS = ['org', 'fill', 'zero', 'byte', 'cstr', 'align', 'memzone', 'define', 'include', 'LSB', 'BYTE1', 'if', 'endif', 'mute']


# operand forms that embed an expression: source text and the bytes in front of the 16-bit value
VIA = {'indirect-numeric': ('vind [{}]', [0xB5]), 'deferred-numeric': ('vdef [[{}]]', [0xB7]), 'indexed-register': ('vidx sp + {}', [0xC6, 0x21]),
       'indirect-indexed-register': ('viix [a+{}]', [0xC9, 0x31]), 'indirect-register-offset': ('viro [sp + {}]', [0xCB, 0x05])}


def make_isa(zones, data=None):
    isa = gen_prog.layout_isa(16, endian='big', zones=zones, data=data)
    isa['general']['registers'] = list(isa['general']['registers']) + ['SPQ', 'Rx', 'IDX']
    a16 = {'size': 16, 'byte_align': True}
    isa['operand_sets'].update({
        'v_ind': {'operand_values': {'m': {'type': 'indirect_numeric', 'argument': dict(a16)}}},
        'v_def': {'operand_values': {'m': {'type': 'deferred_numeric', 'argument': dict(a16)}}},
        'v_idx': {'operand_values': {'m': {'type': 'indexed_register', 'register': 'sp', 'bytecode': {'value': 2, 'size': 4},
                                           'index_operands': {'n': {'type': 'numeric', 'bytecode': {'value': 1, 'size': 4}, 'argument': dict(a16)}}}}},
        'v_iix': {'operand_values': {'m': {'type': 'indirect_indexed_register', 'register': 'a', 'bytecode': {'value': 3, 'size': 4},
                                           'index_operands': {'n': {'type': 'numeric', 'bytecode': {'value': 1, 'size': 4}, 'argument': dict(a16)}}}}},
        'v_iro': {'operand_values': {'m': {'type': 'indirect_register', 'register': 'sp', 'bytecode': {'value': 5, 'size': 8}, 'offset': dict(a16)}}}})
    for mn_, (set_, code_) in {'vind': ('v_ind', 0xB5), 'vdef': ('v_def', 0xB7), 'vidx': ('v_idx', 0xC6), 'viix': ('v_iix', 0xC9),
                               'viro': ('v_iro', 0xCB)}.items():
        isa['instructions'][mn_] = {'bytecode': {'value': code_, 'size': 8}, 'operands': {'count': 1, 'operand_sets': {'list': [set_]}}}
    return isa


def resolve_program(files, order, predefined=None):
    """files: {name: [items]}, order: main file name.  Annotates items; returns dict(kind, why, stream)."""
    stream = []
    state = {'why': None}

    def reject(why):
        if state['why'] is None:
            state['why'] = why
    nreg = [0]
    glob, filel, loc = {}, {}, {}
    for pn_, pv_ in (predefined or {}).items():
        glob[pn_] = {'k': 'const', 'name': pn_, 'val': pv_, 'predefined': True}
    seen_files = set()

    def walk(fname, depth):
        if fname in seen_files:
            reject('file included twice')
            return
        seen_files.add(fname)
        region = None
        stream.append({'k': 'include_begin', 'file': fname} if depth else {'k': 'file_begin', 'file': fname})
        for it in files[fname]:
            it['file'] = fname
            k = it['k']
            if k == 'label':
                nm = it['name']
                if nm.startswith('.'):
                    if region is None:
                        reject('orphan local label ' + nm)
                    else:
                        key = (fname, region, nm)
                        if key in loc:
                            reject('duplicate local ' + nm)
                        loc[key] = it
                    it['region'] = region
                else:
                    if nm in REGS:
                        reject('label named like a register')
                    if nm in KEYWORDS:
                        reject('label named like a keyword')
                    if nm.startswith('_'):
                        if (fname, nm) in filel:
                            reject('duplicate file label ' + nm)
                        filel[(fname, nm)] = it
                    else:
                        if nm in glob:
                            reject('duplicate global ' + nm)
                        glob[nm] = it
                    nreg[0] += 1
                    region = nreg[0]
                    it['region'] = region
                stream.append(it)
            elif k == 'const':
                nm = it['name']
                if nm in REGS:
                    reject('constant named like a register')
                if nm in KEYWORDS:
                    reject('constant named like a keyword')
                if nm.startswith('_'):
                    if (fname, nm) in filel:
                        reject('duplicate file label ' + nm)
                    filel[(fname, nm)] = it
                else:
                    if nm in glob:
                        reject('duplicate global ' + nm)
                    glob[nm] = it
                it['region'] = region
                stream.append(it)
            elif k in ('org', 'memzone'):
                region = None
                it['region'] = None
                stream.append(it)
            elif k == 'include':
                walk(it['target'], depth + 1)
            else:
                it['region'] = region
                stream.append(it)
        if depth:
            stream.append({'k': 'include_end'})
    walk(order, 0)
    # references
    for it in stream:
        if it['k'] != 'ref':
            continue
        nm = it['name']
        if nm.startswith('.'):
            d = loc.get((it['file'], it['region'], nm)) if it['region'] is not None else None
        elif nm.startswith('_'):
            d = filel.get((it['file'], nm))
        else:
            d = glob.get(nm)
        if d is None:
            reject(f'unresolvable reference {nm}')
        it['target'] = d
    return {'kind': 'REJECT' if state['why'] else 'ACCEPT', 'why': state['why'], 'stream': stream}


class C06(core.Check):
    pid = 'C06'
    level = 'exploration'
    rule = ('1..4 files (nested includes), 2..8 local regions, the same local names reused in different regions and files, the '
            'same file-label names in different files, globals, constants (which do not open a region), .org / .memzone inside '
            'regions; every definition at a distinct address and `.2byte <ref>` probes; at most one possibly-illegal site per '
            'program (cross-region / cross-file / after-.org reference, undefined name, duplicate per scope, orphan local, '
            'register- or keyword-named label or constant). distinct_nontrivial = distinct (shadowing situations, illegal-site '
            'kind, #files) signatures.')
    rule = rule + ' ' + 'Labels are also written behind a data or constant statement on the same line.'
    assumptions = ('register / keyword names are tested without a scope prefix only',
                   'includes sit at region boundaries here (continuation across an include is C17)')
    chunk = 800
    required_buckets = {b: 3 for b in [
        'shadow:local-name-in-2-regions', 'shadow:local-name-in-2-files', 'shadow:file-label-in-2-files',
        'illegal:cross-region-ref', 'illegal:cross-file-ref', 'illegal:ref-after-org', 'illegal:ref-after-memzone',
        'illegal:undefined', 'illegal:dup-global', 'illegal:dup-file', 'illegal:dup-local', 'illegal:orphan-local',
        'illegal:register-name', 'illegal:register-name/declared-in-upper-case', 'illegal:keyword-name', 'illegal:dup-global-across-files', 'illegal:dup-same-value',
        'dead-branch-inside-region', 'dead-branch-between-local-def-and-use', 'reference-on-a-muted-line', 'reference-in-a-zero-length-fill', 'const-between-def-and-use',
        'files:1', 'files:2', 'files:3+', 'expect:ACCEPT', 'expect:REJECT', 'ref:forward', 'ref:backward',
        'label-not-first-on-its-line/global', 'label-not-first-on-its-line/local', 'label-not-first-on-its-line/file',
        'reference-inside:indirect-numeric', 'reference-inside:deferred-numeric', 'reference-inside:indexed-register',
        'reference-inside:indirect-indexed-register', 'reference-inside:indirect-register-offset',
        'local-inside-operand-form-with-same-named-global', 'no-image-asked-for', 'illegal:undefined/name-that-nearly-reads-as-a-number', 'predefined-data-name-in-a-constant', 'predefined-data-name-in-an-origin', 'predefined-name-given-twice', 'predefined-name-given-once', 'predefined-name-is-a-register-name',
        'predefined-name:constant-twice-same-value', 'predefined-name:constant-and-data', 'predefined-name:data-twice']}

    def build(self, rng, illegal, mute_refs=None, zero_refs=None, join_p=0.15, via_p=0.25, pre_p=0.35):
        nfiles = rng.choice([1, 1, 2, 2, 3, 4])
        fnames = ['p.asm'] + [f'inc{i}.asm' for i in range(1, nfiles)]
        files = {f: [] for f in fnames}
        gpool = list(GLOBALS)
        rng.shuffle(gpool)
        tags = set()
        tags.add('files:' + ('3+' if nfiles >= 3 else str(nfiles)))
        marker = [1]
        org_next = [0x100]
        zones = [{'name': 'ZQ', 'start': 0x800, 'end': 0x8FF}]
        # a data block predefined by the configuration: its name is a global name from the first line on
        pre_data = [{'name': 'io_buf', 'address': 0x600, 'value': 0x5A, 'size': 2}] if rng.random() < pre_p else []
        predefined = {d_['name']: d_['address'] for d_ in pre_data}
        if pre_data:
            tags.add('predefined-data-name')

        def mark(L):
            L.append({'k': 'marker', 'v': marker[0] % 250 + 1})
            marker[0] += 1
        local_use = {}      # name -> set of (file) / regions count
        filelab_use = {}
        regions_in_file = {}
        for fi, f in enumerate(fnames):
            L = files[f]
            nreg = rng.randrange(1, 4)
            flpool = list(FILE_LABELS)
            rng.shuffle(flpool)
            for r in range(nreg):
                # region opener
                if rng.random() < 0.35 and flpool:
                    nm = flpool.pop()
                    filelab_use.setdefault(nm, set()).add(f)
                else:
                    nm = gpool.pop() if gpool else f'g_{fi}_{r}'
                L.append({'k': 'label', 'name': nm})
                mark(L)
                used_here = []
                for _ in range(rng.randrange(0, 4)):
                    x = rng.random()
                    if x < 0.45:
                        cand = [n for n in LOCALS if n not in used_here]
                        if cand:
                            ln = rng.choice(cand)
                            used_here.append(ln)
                            L.append({'k': 'label', 'name': ln})
                            mark(L)
                            local_use.setdefault(ln, []).append((f, r))
                    elif x < 0.58 and (used_here or rng.random() < 0.3):
                        # lines of an unselected conditional branch define nothing and close no region
                        body = rng.choice([['dead_g%d:' % marker[0]], ['_dead_f%d:' % marker[0]], ['.org $7F00'], ['.memzone ZQ'],
                                           ['dead_h%d:' % marker[0], '.byte 9'], ['_dead_e%d:' % marker[0], '.2byte _dead_e%d' % marker[0]],
                                           ['dead_g%d:' % marker[0], '.byte 1', (used_here[0] + ':') if used_here else '.byte 2'],
                                           ['DEAD_K%d = 5' % marker[0]], ['#include "nowhere.asm"']])
                        opener = rng.choice(['#if 0', '#ifdef NEVER_DEFINED_SYM', '#if 1\n#else', '#ifndef NEVER_DEFINED_SYM\n#else'])
                        L.append({'k': 'dead', 'text': '\n'.join([opener] + body + ['#endif'])})
                        tags.add('dead-branch-inside-region')
                        if used_here:
                            tags.add('dead-branch-between-local-def-and-use')
                    elif x < 0.68:
                        cn = rng.choice(['K_' + str(marker[0]), '_kf' + str(marker[0])])
                        if pre_data and rng.random() < 0.5:
                            # a constant worked out from the predefined name: evaluated while the file is read
                            k_ = rng.choice([0, 2, 4])
                            L.append({'k': 'const', 'name': cn, 'val': 0x600 + k_, 'expr': f'io_buf + {k_}' if k_ else 'io_buf'})
                            tags.add('predefined-data-name-in-a-constant')
                        else:
                            L.append({'k': 'const', 'name': cn, 'val': rng.choice([0, 0, 1, 0x4000 + marker[0]])})
                        if used_here:
                            tags.add('const-between-def-and-use')
                    else:
                        mark(L)
                # references to what is visible here are added later (second pass) at this point
                L.append({'k': 'refslot', 'locals': list(used_here)})
                if rng.random() < 0.15:
                    if pre_data and rng.random() < 0.4 and not any(x_.get('expr', '').startswith('io_buf +') and x_['k'] == 'org' for x_ in L):
                        off_ = 0x10 * (1 + fi * 4 + r)
                        L.append({'k': 'org', 'addr': 0x600 + off_, 'zone_name': None, 'expr': f'io_buf + {off_}'})
                        tags.add('predefined-data-name-in-an-origin')
                    elif rng.random() < 0.5:
                        L.append({'k': 'org', 'addr': org_next[0], 'zone_name': None})
                        org_next[0] += 0x40
                    else:
                        L.append({'k': 'memzone', 'name': rng.choice(['ZQ', 'GLOBAL', 'GLOBAL'])})
                    mark(L)
                    L.append({'k': 'refslot', 'locals': [], 'after': L[-2]['k']})
            regions_in_file[f] = nreg
        # includes at region boundaries of the includer (before a non-local label, or at the end)
        for i in range(1, nfiles):
            parent = fnames[rng.randrange(0, i)]
            L = files[parent]
            spots = [j for j, it in enumerate(L) if it['k'] == 'label' and not it['name'].startswith('.') and j > 0] + [len(L)]
            j = rng.choice(spots)
            L.insert(j, {'k': 'include', 'target': fnames[i]})
        for nm, uses in local_use.items():
            if len({r for r in uses}) >= 2:
                tags.add('shadow:local-name-in-2-regions')
            if len({f for f, _ in uses}) >= 2:
                tags.add('shadow:local-name-in-2-files')
        for nm, fs in filelab_use.items():
            if len(fs) >= 2:
                tags.add('shadow:file-label-in-2-files')
        # fill reference slots with visible names (legal)
        res0 = resolve_program({f: [x for x in L if x['k'] != 'refslot'] for f, L in files.items()}, 'p.asm', predefined)
        # tables for picking
        all_glob = [it['name'] for f in fnames for it in files[f] if it['k'] in ('label', 'const') and not it['name'].startswith(('.', '_'))] + sorted(predefined)
        for f in fnames:
            L = files[f]
            flabs = [it['name'] for it in L if it['k'] in ('label', 'const') and it['name'].startswith('_')]
            out = []
            for it in L:
                if it['k'] != 'refslot':
                    out.append(it)
                    continue
                for _ in range(rng.randrange(0, 3)):
                    cand = list(all_glob) + flabs + it['locals']
                    if cand:
                        out.append({'k': 'ref', 'name': rng.choice(cand)})
            files[f] = out
        # the single possibly-illegal site
        if illegal:
            ok = self.plant(rng, illegal, files, fnames, tags)
            if not ok:
                return None
        # some references sit inside #mute .. #unmute: a muted line emits nothing but its references are still resolved
        if mute_refs is None:
            mute_refs = rng.random() < 0.4
        if mute_refs:
            for f in fnames:
                out_ = []
                for it in files[f]:
                    if it['k'] == 'ref' and rng.random() < 0.6:
                        out_ += [{'k': 'mute'}, it, {'k': 'unmute'}]
                        tags.add('reference-on-a-muted-line')
                    else:
                        out_.append(it)
                files[f] = out_
        # some references stand in the value of a zero-length .fill: nothing is emitted, the reference is resolved all the same
        if zero_refs is None:
            zero_refs = rng.random() < 0.3
        if zero_refs:
            for f in fnames:
                for it in files[f]:
                    if it['k'] == 'ref' and rng.random() < 0.5:
                        it['zero'] = rng.choice(['0', '4-4', '0*9', '$0'])
                        tags.add('reference-in-a-zero-length-fill')
        m = resolve_program(files, 'p.asm', predefined)
        if illegal and m['kind'] != 'REJECT':
            return None
        if not illegal and m['kind'] != 'ACCEPT':
            return None
        # some references stand inside an operand form that embeds an expression ([x], [[x]], sp+x, [a+x], [sp+x])
        for f in fnames:
            for it in files[f]:
                if it['k'] == 'ref' and not it.get('zero') and rng.random() < via_p:
                    it['via'] = rng.choice(sorted(VIA))
                    tags.add('reference-inside-an-operand-form')
                    tags.add('reference-inside:' + it['via'])
        # layout of the stream
        lines = []
        for it in m['stream']:
            k = it['k']
            if k == 'ref' and it.get('via'):
                lines.append({'k': 'data', 'width': 1, 'vals': list(VIA[it['via']][1]), 'src': {'k': 'refprefix'}})
                lines.append({'k': 'data', 'width': 2, 'vals': [0], 'src': it})
                continue
            if k == 'marker':
                lines.append({'k': 'data', 'width': 1, 'vals': [it['v']], 'src': it})
            elif k == 'ref' and it.get('zero'):
                lines.append({'k': 'fill', 'n': 0, 'v': 0, 'src': it})
            elif k == 'ref':
                lines.append({'k': 'data', 'width': 2, 'vals': [0], 'src': it})
            elif k in ('mute', 'unmute'):
                lines.append({'k': k, 'src': it})
            elif k in ('label', 'org', 'memzone', 'include_begin', 'include_end'):
                lines.append(dict(it, src=it) if k in ('include_begin', 'include_end') else
                             {'k': k, 'name': it.get('name'), 'addr': it.get('addr'), 'zone_name': it.get('zone_name'), 'src': it})
        exp = None
        if m['kind'] == 'ACCEPT':
            res = layout.layout(lines, 16, origin=0, predefined_zones=zones, predefined_data=pre_data, size_of=lambda l, a: l['width'] * len(l['vals']))
            if res.kind != 'ACCEPT' or layout.overlaps(res)[0] != 'ACCEPT':
                return None
            for l in lines:
                if l['k'] == 'label':
                    l['src']['addr_val'] = l['addr']
            order_idx = {id(l['src']): i for i, l in enumerate(lines)}
            for l in lines:
                if l['k'] == 'data' and l['src']['k'] == 'ref':
                    t = l['src']['target']
                    l['vals'] = [t['addr_val'] if t['k'] == 'label' else t['val']]
                    if t['k'] == 'label':
                        tags.add('ref:forward' if order_idx.get(id(t), 0) > order_idx[id(l['src'])] else 'ref:backward')
            layout.memory_map(res, lambda l: b'' if l['k'] == 'fill' else layout.data_bytes(l['width'], l['vals'], 'big'))
            exp = layout.image(res.M, 0, None, 0).hex()
        # render
        fl = {}
        for f in fnames:
            out = []
            prev_k = None
            for it in files[f]:
                k = it['k']
                joinable, prev_k = prev_k in ('marker', 'const'), k
                if k == 'label' and joinable and rng.random() < join_p:
                    # a label that is not the first statement on its line is a label like any other
                    out[-1] += rng.choice([' ', '  ', '\t']) + it['name'] + ':'
                    tags.add('label-not-first-on-its-line')
                    tags.add('label-not-first-on-its-line/' + ('local' if it['name'].startswith('.') else
                                                                'file' if it['name'].startswith('_') else 'global'))
                    continue
                if k == 'marker':
                    out.append(f".byte {it['v']}")
                elif k == 'ref' and it.get('zero'):
                    out.append(f".fill {it['zero']}, " + rng.choice(['{}', '{} + 1', 'BYTE0({})']).replace('{}', it['name']))
                elif k == 'ref' and it.get('via'):
                    form = rng.choice(['{}', '{}', '{}+0', '{} + 1 - 1', '{}*1', '({})'])
                    out.append(VIA[it['via']][0].replace('{}', form.replace('{}', it['name'])))
                elif k == 'ref':
                    form = rng.choice(['{}', '{}', '({})', '{} + 0', '{}+1-1', 'BYTE1({})<<8 | BYTE0({})'])
                    out.append('.2byte ' + form.replace('{}', it['name']))
                elif k == 'label':
                    out.append(it['name'] + ':')
                elif k == 'const':
                    out.append(f"{it['name']} = {it.get('expr', it['val'])}")
                elif k == 'org':
                    out.append(f".org {it.get('expr', it['addr'])}")
                elif k == 'memzone':
                    out.append(f".memzone {it['name']}")
                elif k == 'include':
                    out.append(f'#include "{it["target"]}"')
                elif k == 'dead':
                    out.append(it['text'])
                elif k == 'mute':
                    out.append('#mute')
                elif k == 'unmute':
                    out.append(rng.choice(['#unmute', '#emit']))
            fl[f] = '\n'.join(out) + '\n'
        isa = make_isa(zones, pre_data or None)
        fn, text = isamod.render_isa(isa, 'json')
        fl[fn] = text
        tags.add('expect:' + m['kind'])
        return {'runs': [{'files': fl, 'argv': ['compile', '-c', fn, 'p.asm', '-o', 'out.bin'], 'probes': ['steps', 'labels'],
                          'step_limit': 600000}],
                'meta': {'kind': m['kind'], 'why': m['why'], 'image': exp, 'illegal': illegal}, 'tags': sorted(tags)}

    def plant(self, rng, kind, files, fnames, tags):
        """Adds exactly one illegal site of the requested kind. Returns False if this program cannot host it."""
        def idx_regions(L):
            """[(start index, end index, opener name)] of regions in a file"""
            regs = []
            cur = None
            for j, it in enumerate(L):
                if it['k'] == 'label' and not it['name'].startswith('.'):
                    if cur is not None:
                        regs.append((cur, j))
                    cur = j
                elif it['k'] in ('org', 'memzone', 'include'):
                    if cur is not None:
                        regs.append((cur, j))
                    cur = None
            if cur is not None:
                regs.append((cur, len(L)))
            return regs
        f = rng.choice(fnames)
        L = files[f]
        regs = idx_regions(L)
        tags.add('illegal:' + kind)
        if kind == 'cross-region-ref':
            # a local defined in region A, referenced from region B of the same file that has no such local
            for f in fnames:
                L = files[f]
                regs = idx_regions(L)
                for (a0, a1) in regs:
                    la = {it['name'] for it in L[a0:a1] if it['k'] == 'label' and it['name'].startswith('.')}
                    for (b0, b1) in regs:
                        if (b0, b1) == (a0, a1):
                            continue
                        lb = {it['name'] for it in L[b0:b1] if it['k'] == 'label' and it['name'].startswith('.')}
                        d = sorted(la - lb)
                        if d:
                            L.insert(b0 + 2, {'k': 'ref', 'name': d[0]})
                            return True
            return False
        if kind == 'cross-file-ref':
            for f in fnames:
                mine = {it['name'] for it in files[f] if it['k'] in ('label', 'const') and it['name'].startswith('_')}
                for g in fnames:
                    if g == f:
                        continue
                    theirs = {it['name'] for it in files[g] if it['k'] in ('label', 'const') and it['name'].startswith('_')}
                    d = sorted(theirs - mine)
                    if d:
                        files[f].append({'k': 'ref', 'name': d[0]})
                        return True
            return False
        if kind in ('ref-after-org', 'ref-after-memzone'):
            want = 'org' if kind == 'ref-after-org' else 'memzone'
            for f in fnames:
                L = files[f]
                regs = idx_regions(L)
                for (a0, a1) in regs:
                    la = [it['name'] for it in L[a0:a1] if it['k'] == 'label' and it['name'].startswith('.')]
                    if la:
                        ins = [{'k': 'org', 'addr': 0x700 + rng.randrange(0, 64), 'zone_name': None}] if want == 'org' else \
                            [{'k': 'memzone', 'name': rng.choice(['ZQ', 'GLOBAL', 'GLOBAL'])}]     # also a redundant switch to the current zone
                        L[a1:a1] = ins + [{'k': 'marker', 'v': 251}, {'k': 'ref', 'name': la[0]}]
                        return True
            return False
        if kind == 'undefined':
            # (also names that would read as numbers in another spelling: hex letters with a lower-case h, b + binary digits + more)
            nm_ = rng.choice(['nowhere', '_nofile', 'Undefined_9', 'ach', 'beach', 'b12', 'fadedh'])
            L.append({'k': 'ref', 'name': nm_})
            if nm_ in ('ach', 'beach', 'b12', 'fadedh'):
                tags.add('illegal:undefined/name-that-nearly-reads-as-a-number')
            return True
        if kind == 'dup-global' or kind == 'dup-global-across-files':
            gl = [(g, it['name']) for g in fnames for it in files[g] if it['k'] == 'label' and not it['name'].startswith(('.', '_'))]
            if not gl:
                return False
            g, nm = rng.choice(gl)
            if kind == 'dup-global-across-files':
                others = [x for x in fnames if x != g]
                if not others:
                    return False
                tgt = rng.choice(others)
            else:
                tgt = g
            files[tgt] += [{'k': 'label', 'name': nm}, {'k': 'marker', 'v': 252}]
            return True
        if kind == 'dup-file':
            fl = [(g, it['name']) for g in fnames for it in files[g] if it['k'] == 'label' and it['name'].startswith('_')]
            if not fl:
                files[f] += [{'k': 'label', 'name': '_dupf'}, {'k': 'marker', 'v': 253}, {'k': 'label', 'name': '_dupf'},
                             {'k': 'marker', 'v': 254}]
                return True
            g, nm = rng.choice(fl)
            files[g] += [{'k': 'label', 'name': nm}, {'k': 'marker', 'v': 252}]
            return True
        if kind == 'dup-local':
            for f in fnames:
                L = files[f]
                for (a0, a1) in idx_regions(L):
                    la = [it['name'] for it in L[a0:a1] if it['k'] == 'label' and it['name'].startswith('.')]
                    if la:
                        L[a1:a1] = [{'k': 'label', 'name': la[0]}, {'k': 'marker', 'v': 252}]
                        return True
            # make one
            files[f] += [{'k': 'label', 'name': 'dl_host'}, {'k': 'marker', 'v': 250}, {'k': 'label', 'name': '.dd'},
                         {'k': 'marker', 'v': 251}, {'k': 'label', 'name': '.dd'}, {'k': 'marker', 'v': 252}]
            return True
        if kind == 'dup-same-value':
            # a second definition that carries the very value of the first is still a second definition
            r = rng.randrange(5)
            if r == 0:
                scope = rng.choice(['dsv_k', '_dsv_k'])
                files[f] += [{'k': 'const', 'name': scope, 'val': 4}, {'k': 'marker', 'v': 250}, {'k': 'const', 'name': scope, 'val': 4}]
                return True
            if r == 1:
                # the same label on two consecutive lines (no bytes between them)
                for g in fnames:
                    L2 = files[g]
                    for i, it in enumerate(L2):
                        if it['k'] == 'label':
                            L2[i + 1:i + 1] = [{'k': 'label', 'name': it['name']}]
                            return True
                return False
            if r == 2:
                nm = rng.choice(['dsv_a', '_dsv_a'])
                a = 0x7A0 + rng.randrange(0, 16)
                files[f] += [{'k': 'org', 'addr': a, 'zone_name': None}, {'k': 'label', 'name': nm},
                             {'k': 'org', 'addr': a, 'zone_name': None}, {'k': 'label', 'name': nm}, {'k': 'marker', 'v': 250}]
                return True
            if r == 3:
                # a label and a constant sharing name and value
                a = 0x7B0 + rng.randrange(0, 16)
                files[f] += [{'k': 'org', 'addr': a, 'zone_name': None}, {'k': 'label', 'name': 'dsv_lc'}, {'k': 'marker', 'v': 250},
                             {'k': 'const', 'name': 'dsv_lc', 'val': a}]
                return True
            files[f] += [{'k': 'label', 'name': 'dsv_host'}, {'k': 'marker', 'v': 250}, {'k': 'label', 'name': '.same'},
                         {'k': 'label', 'name': '.same'}, {'k': 'marker', 'v': 251}]
            return True
        if kind == 'orphan-local':
            r = rng.random()
            if r < 0.4:
                files[f][0:0] = [{'k': 'label', 'name': '.early'}, {'k': 'marker', 'v': 250}]
            elif r < 0.7:
                files[f] += [{'k': 'org', 'addr': 0x7C0, 'zone_name': None}, {'k': 'label', 'name': '.lost'}, {'k': 'marker', 'v': 250}]
            else:
                files[f] += [{'k': 'memzone', 'name': rng.choice(['ZQ', 'GLOBAL'])}, {'k': 'label', 'name': '.lost'}, {'k': 'marker', 'v': 250}]
            return True
        if kind == 'register-name':
            nm = rng.choice(REGS)
            if nm != nm.lower():
                tags.add('illegal:register-name/declared-in-upper-case')
            if rng.random() < 0.5:
                files[f] += [{'k': 'label', 'name': nm}, {'k': 'marker', 'v': 250}]
            else:
                files[f] += [{'k': 'const', 'name': nm, 'val': 5}]
            return True
        if kind == 'keyword-name':
            nm = rng.choice(KEYWORDS)
            if rng.random() < 0.6:
                files[f] += [{'k': 'label', 'name': nm}, {'k': 'marker', 'v': 250}]
            else:
                files[f] += [{'k': 'const', 'name': nm, 'val': 5}]
            return True
        return False

    ILLEGAL = ['cross-region-ref', 'cross-file-ref', 'ref-after-org', 'ref-after-memzone', 'undefined', 'dup-global',
               'dup-global-across-files', 'dup-file', 'dup-local', 'orphan-local', 'register-name', 'keyword-name', 'dup-same-value']

    def cases(self, tier, seed):
        yield from self.shadow_cases()
        yield from self.predefined_twice_cases()
        yield from self.predefined_register_name_cases()
        n_pre = 420
        n = 500 if tier == 'quick' else 9000
        made = 0
        i = 0
        while made < n_pre + n and i < (n_pre + n) * 4:
            rng = core.rng_for(0 if made < n_pre else seed, self.pid, i)
            i += 1
            ill = None
            if made < n_pre:
                ill = ([None] + self.ILLEGAL)[made % (len(self.ILLEGAL) + 1)]
            elif rng.random() < 0.5:
                ill = rng.choice(self.ILLEGAL)
            c = self.build(rng, ill, mute_refs=(made % 2 == 1) if made < n_pre else None, zero_refs=(made % 3 == 2) if made < n_pre else None,
                           join_p=0.6 if (made < n_pre and made % 4 == 1) else 0.15)
            if c is None:
                if made < n_pre:
                    made += 0
                continue
            made += 1
            if c['meta']['kind'] == 'REJECT' and made % 3 == 0:
                # no image asked for: a reference that resolves to nothing is refused all the same
                c['runs'][0]['argv'] = c['runs'][0]['argv'] + ['-n']
                c['tags'] = sorted(set(c['tags']) | {'no-image-asked-for'})
            yield c

    def predefined_twice_cases(self):
        """names given by the configuration's predefined section live in the global scope like any other: one given twice
        there, or given there and defined again in source, is a name defined twice"""
        D = lambda a: {'name': 'K_PRE', 'address': a, 'value': 1, 'size': 2}    # noqa
        V = {'constant-twice-same-value': {'constants': [{'name': 'K_PRE', 'value': 5}, {'name': 'K_PRE', 'value': 5}]},
             'constant-twice': {'constants': [{'name': 'K_PRE', 'value': 5}, {'name': 'K_PRE', 'value': 6}]},
             'constant-and-data': {'constants': [{'name': 'K_PRE', 'value': 5}], 'data': [D(0x600)]},
             'data-twice': {'data': [D(0x600), D(0x610)]},
             'once': {'constants': [{'name': 'K_PRE', 'value': 5}]},
             'once-data': {'data': [D(0x600)]}}
        for vn, pre in sorted(V.items()):
            isa = make_isa([])
            isa.setdefault('predefined', {}).update(json.loads(json.dumps(pre)))
            for fmt in ('json', 'yaml'):
                fn, text = isamod.render_isa(isa, fmt)
                for sn, src, img in (('unused', ['.byte 1'], '01'), ('used', ['.byte K_PRE & 255'], '05' if vn == 'once' else '00'),
                                     ('label-again', ['K_PRE:', '.byte 1'], None), ('constant-again', ['K_PRE = 3', '.byte 1'], None)):
                    legal = vn.startswith('once') and img is not None
                    kind = 'ACCEPT' if legal else 'REJECT'
                    if legal and 'data' in pre:
                        img = img + '00' * (0x600 - 1) + '0101'
                    yield {'runs': [{'files': {fn: text, 'p.asm': '\n'.join(src) + '\n'}, 'argv': ['compile', '-c', fn, 'p.asm', '-o', 'out.bin'],
                                     'probes': ['steps', 'labels'], 'step_limit': 600000}],
                           'meta': {'kind': kind, 'why': 'predefined name ' + vn + ', ' + sn, 'image': img if legal else None,
                                    'illegal': 'predefined-name-twice/' + (vn if not vn.startswith('once') else sn)},
                           'tags': sorted({'expect:' + kind, 'files:1', 'predefined-name:' + vn, 'predefined-name-given-twice' if not vn.startswith('once') else 'predefined-name-given-once'})}

    def predefined_register_name_cases(self):
        """a name given by the configuration's predefined section that is also a register name is no usable label: a reference
        to it from a data or fill expression is refused like a reference to any register"""
        for reg in ('sp', 'a', 'SPQ', 'Rx'):
            for sect in ('constants', 'data'):
                isa = make_isa([])
                pre = {'constants': [{'name': reg, 'value': 9}]} if sect == 'constants' else {'data': [{'name': reg, 'address': 0x600, 'value': 1, 'size': 2}]}
                isa.setdefault('predefined', {}).update(pre)
                fn, text = isamod.render_isa(isa, 'json')
                for sn, src in (('byte', f'.byte {reg}'), ('2byte', f'.2byte {reg}'), ('fill', f'.fill 2, {reg}+1'), ('expr', f'.byte ({reg} + 1) & 255'),
                                ('other-case', f'.byte {reg.swapcase()}'), ('constant', f'k_r = {reg}\n.byte k_r')):
                    yield {'runs': [{'files': {fn: text, 'p.asm': src + '\n'}, 'argv': ['compile', '-c', fn, 'p.asm', '-o', 'out.bin'],
                                     'probes': ['steps', 'labels'], 'step_limit': 600000}],
                           'meta': {'kind': 'REJECT', 'why': f'predefined {sect} name {reg} is a register name ({sn})', 'image': None,
                                    'illegal': 'predefined-name-is-a-register/' + sect},
                           'tags': sorted({'expect:REJECT', 'files:1', 'predefined-name-is-a-register-name'})}

    def shadow_cases(self):
        """a local name inside an operand form, with a global of the same spelling minus the period: the local one is meant
        where it is visible, and nothing is meant where it is not"""
        fn, text = isamod.render_isa(make_isa([]), 'json')
        for via, (form, prefix) in sorted(VIA.items()):
            for expr in ('.loop', '.loop+0', '(.loop)'):
                use = form.replace('{}', expr)
                for where in ('visible', 'other-region', 'nowhere'):
                    body = ['loop:', '.byte 1', 'main:', '.byte 2'] + (['.loop:'] if where != 'nowhere' else []) + ['.byte 3']
                    body += [use, 'fin:', '.byte 4'] if where == 'visible' else ['fin:', '.byte 4', use]
                    kind = 'ACCEPT' if where == 'visible' else 'REJECT'
                    img = bytes([1, 2, 3] + prefix + [0, 2, 4]).hex() if where == 'visible' else None
                    yield {'runs': [{'files': {fn: text, 'p.asm': '\n'.join(body) + '\n'}, 'argv': ['compile', '-c', fn, 'p.asm', '-o', 'out.bin'],
                                     'probes': ['steps', 'labels'], 'step_limit': 600000}],
                           'meta': {'kind': kind, 'why': 'local name ' + where, 'image': img, 'illegal': 'local-inside-operand-form/' + where},
                           'tags': sorted({'expect:' + kind, 'files:1', 'local-inside-operand-form-with-same-named-global',
                                           'reference-inside:' + via})}

    def judge(self, case, outcomes):
        o = outcomes[0]
        m = case['meta']
        tags = case['tags']
        nt = '|'.join(t for t in tags if not t.startswith('ref:'))
        src = {k: v for k, v in case['runs'][0]['files'].items() if k.endswith('.asm')}
        if o.get('timed_out'):
            return [core.violated('termination:' + str(o['timed_out']), {'src': src})]
        if m['kind'] == 'REJECT':
            if o.get('exit') == 0:
                return [core.violated('illegal-accepted/' + str(m['illegal']), {'why': m['why'], 'src': src,
                                                                                'image': (o.get('files') or {}).get('out.bin', '')[:300]},
                                      buckets=tags, nt=nt)]
            return [core.held(buckets=tags, nt=nt)]
        img = (o.get('files') or {}).get('out.bin')
        if o.get('exit') != 0 or img is None:
            return [core.violated('legal-program-rejected', {'stderr': (o.get('stderr') or '')[-400:], 'src': src}, buckets=tags, nt=nt)]
        vs = []
        if img != m['image']:
            vs.append(core.violated('reference-resolved-to-other-definition', {'expected': m['image'][:500], 'got': img[:500], 'src': src},
                                    buckets=tags, nt=nt))
        # supporting monitor: the scope that answered must be the asking line's own scope or an ancestor (by construction of
        # the parent chain it is; we record how many lookups each scope type answered)
        lp = (o.get('probes') or {}).get('labels')
        if lp:
            for g in lp.get('gets', []):
                self.answered[g[1]] = self.answered.get(g[1], 0) + 1
        if not vs:
            vs.append(core.held(buckets=tags, nt=nt))
        return vs

    def __init__(self):
        self.answered = {}

    def extra_evidence(self):
        return {'lookups_answered_by_scope_type': self.answered}

    def sample_of(self, case, outcomes):
        return {'files': {k: v[:600] for k, v in case['runs'][0]['files'].items() if k.endswith('.asm')},
                'expect': case['meta']['kind'], 'why': case['meta']['why'], 'exit': outcomes[0].get('exit')}
