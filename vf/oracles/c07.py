"""C07 — numeric expressions evaluate to their arithmetic value.

Oracle: exact-arithmetic evaluator (vf.model.expr) over generated ASTs, rendered with only the parentheses the documented
precedence requires; an independent LL recogniser decides which corrupted token sequences are ill-formed.
Channels: (a) CLI, `.8byte <expr>` -> image bytes;  (b) direct calls of parse_expression(...).get_value(...) for volume.
"""
import itertools
import json

import re

from vf import core, isa
from vf.model import expr as E

# (names that begin like the extraction functions, or consist of hex letters with a lower-case h at the end, are plain labels)
LABELS = {'lab_a': 5, 'lab_b': 300, 'k_one': 1, 'zz9': 65535, 'Mix_Ed': 12, 'v2': 2, '_floc': 77, 'BYTES': 9, 'LSBX': 4, 'BYTE1x': 6,
          'each': 31, 'bah': 200,
          # digit groups joined by underscores are names, whatever they end in
          'ADD_AH': 6, 'fee_dH': 15, 'b1_0': 21, 'dead_beefH': 13}
SMALL = [0, 1, 2, 3, 7, 8, 10, 16, 100, 255, 256, 1000, 4095, 65535, 65536]
SWEEP_LEAVES = [0, 1, 2, 3, 7, 10, 255, 256]
FOREIGN = ['@', '~', '!', '?', '\\', '#', '`', '"']


def num(v, rng=None, notation=None):
    if rng is None:
        return E.lit(v, notation or 'dec')
    if notation is None:
        notation = rng.choice(E.NOTATIONS)
    if notation == 'char':
        c = rng.choice(E.CHAR_POOL)
        return E.lit(ord(c), 'char')
    return E.lit(v, notation, rng)


def rand_leaf(rng):
    r = rng.random()
    if r < 0.15:
        n = rng.choice(list(LABELS))
        return ['name', n]
    if r < 0.6:
        v = rng.choice(SMALL)
    elif r < 0.85:
        v = rng.randrange(0, 1 << rng.choice([4, 8, 12, 16, 24, 32]))
    else:
        v = rng.randrange(0, 1 << 40)
    return num(v, rng)


def rand_ast(rng, depth):
    if depth <= 0 or rng.random() < 0.18:
        return rand_leaf(rng)
    r = rng.random()
    if r < 0.12:
        return ['neg', rand_ast(rng, depth - 1)]
    if r < 0.18:
        return ['byte', rng.randrange(0, 8), rand_ast(rng, depth - 1)]
    if r < 0.21:
        return ['lsb', rand_ast(rng, depth - 1)]
    if r < 0.26:
        return ['par', rand_ast(rng, depth - 1)]
    op = rng.choice(E.BINOPS)
    l = rand_ast(rng, depth - 1)
    r_ = rand_ast(rng, depth - 1)
    if op in ('<<', '>>') and rng.random() < 0.8:
        r_ = num(rng.randrange(0, 12), rng)
    elif op == '<<':
        # (a shift count in the millions makes an integer of that many bits - minutes of arithmetic, and nothing the statement
        #  fixes a value for: such counts are not written)
        try:
            if abs(E.evaluate(r_, LABELS)) > 4096:
                r_ = num(rng.randrange(0, 70), rng)
        except (E.DontCare, KeyError):
            r_ = num(rng.randrange(0, 70), rng)
    return ['bin', op, l, r_]


def features(ast, acc=None, parent=None):
    acc = acc if acc is not None else set()
    k = ast[0]
    if k == 'neg':
        acc.add('neg')
        if parent is None:
            acc.add('neg:leading')
        elif parent[0] == 'bin':
            acc.add('neg:after-operator' if parent[3] is ast else 'neg:left-operand')
        if ast[1][0] == 'neg':
            acc.add('neg:doubled')
        if ast[1][0] in ('bin', 'par'):
            acc.add('neg:before-parenthesis')
        features(ast[1], acc, ast)
    elif k == 'bin':
        acc.add('op:' + ast[1])
        features(ast[2], acc, ast)
        features(ast[3], acc, ast)
    elif k in ('byte', 'lsb'):
        acc.add('func')
        features(ast[-1], acc, ast)
    elif k == 'par':
        features(ast[1], acc, ast)
    elif k == 'num':
        t = ast[2]
        acc.add('lit:' + ('char' if t[0] == "'" else 'dollar' if t[0] == '$' else '0x' if t.startswith('0x') else
                          'H' if t.endswith('H') else 'pct' if t[0] == '%' else 'b' if t[0] == 'b' else 'dec'))
    else:
        acc.add('name')
    return acc


def shape(toks):
    """Operator-shape signature: literals and names collapsed to 'n'."""
    out = []
    for t in toks:
        if E.is_literal(t) or (E.is_name(t) and not E.is_func(t)):
            out.append('n')
        else:
            out.append(t)
    return ''.join(out)


def nontrivial(ast, toks):
    ops = [t for t in toks if t in E.LEVEL]
    lv = {E.LEVEL[o] for o in ops}
    if len(ops) >= 2 and len(lv) >= 2:
        return True
    for i, t in enumerate(toks[:-1]):
        if t == '-' and (i == 0 or toks[i - 1] in E.LEVEL or toks[i - 1] == '(' or E.is_func(toks[i - 1])):
            # a unary minus ... followed later by a binary operator
            if any(x in E.LEVEL for x in toks[i + 2:]):
                return True
    return False


def behind_a_minus(ast, parent_level=None):
    """AST of the text "0 - <text of ast>": the minus takes the first term only (the + - level and the levels below it are
    left-associative); a sub-expression the renderer parenthesises, or one of the * / % level, is taken as a whole"""
    if ast[0] == 'bin' and E.LEVEL[ast[1]] <= 2 and (parent_level is None or E.LEVEL[ast[1]] >= parent_level):
        return ['bin', ast[1], behind_a_minus(ast[2], E.LEVEL[ast[1]]), ast[3]]
    return ['bin', '-', ['num', 0, '0'], ast]


def make_item(ast, rng=None, buckets=()):
    toks = E.tokens(ast)
    text = E.join_tokens(toks, rng)
    try:
        exp = E.result(ast, LABELS)
        dc = None
    except E.DontCare as e:
        exp = None
        dc = str(e)
    try:
        neg_exp = E.result(behind_a_minus(ast), LABELS)
        if E.tokens(behind_a_minus(ast))[2:] != toks:
            neg_exp = None          # (the rendering of "0 - ..." is not "0 -" + this text: leave the case out)
    except (E.DontCare, KeyError):
        neg_exp = None
    return {'text': text, 'wf': True, 'exp': exp, 'neg_exp': neg_exp, 'dc': dc, 'shape': shape(toks), 'nt': nontrivial(ast, toks),
            'feat': sorted(features(ast)), 'buckets': list(buckets)}


def corrupt(toks, rng):
    """One token-level corruption; returns (tokens, class) or None if the result is still well-formed."""
    toks = list(toks)
    kind = rng.choice(['drop-operand', 'double-operator', 'unbalance', 'juxtapose', 'trailing-operator',
                       'unclosed-func', 'foreign-char', 'empty-parens', 'leading-operator'])
    ops = [i for i, t in enumerate(toks) if t in E.LEVEL and t != '-']
    operands = [i for i, t in enumerate(toks) if E.is_literal(t) or E.is_name(t)]
    if kind == 'drop-operand' and operands:
        del toks[rng.choice(operands)]
    elif kind == 'double-operator' and ops:
        i = rng.choice(ops)
        toks.insert(i, rng.choice(['*', '/', '+', '&', '|', '^', '<<', '>>']))
    elif kind == 'unbalance':
        if rng.random() < 0.5:
            toks.insert(rng.randrange(0, len(toks) + 1), rng.choice(['(', ')']))
        else:
            par = [i for i, t in enumerate(toks) if t in '()']
            if not par:
                toks.append(')')
            else:
                del toks[rng.choice(par)]
    elif kind == 'juxtapose' and operands:
        i = rng.choice(operands)
        toks.insert(i + 1, rng.choice(['7', '$1f', 'lab_a', '( 2 )']))
        toks = ' '.join(toks).split(' ')
    elif kind == 'trailing-operator':
        toks.append(rng.choice(['+', '*', '/', '&', '<<', '-']))
    elif kind == 'unclosed-func':
        toks = [f'BYTE{rng.randrange(0, 4)}('] + toks
    elif kind == 'foreign-char':
        toks.insert(rng.randrange(0, len(toks) + 1), rng.choice(FOREIGN))
    elif kind == 'empty-parens':
        toks.insert(rng.randrange(0, len(toks) + 1), '(')
        toks.insert(toks.index('(') + 1, ')')
    elif kind == 'leading-operator':
        toks.insert(0, rng.choice(['*', '/', '+', '&', '>>']))
    else:
        return None
    if E.well_formed(toks):
        return None
    return toks, kind


def prelude_items():
    """Directed prelude: fills every required bucket independently of the seed."""
    items = []
    trip = [(7, 3, 2), (10, 2, 3), (256, 7, 1), (3, 10, 2), (255, 3, 7), (2, 2, 2), (100, 7, 3)]
    # every ordered pair of binary operators, bare
    for o1 in E.BINOPS:
        for o2 in E.BINOPS:
            done = 0
            for a, b, c in trip:
                A, B, C = num(a), num(b), num(c)
                if E.LEVEL[o1] >= E.LEVEL[o2]:
                    ast = ['bin', o2, ['bin', o1, A, B], C]
                else:
                    ast = ['bin', o1, A, ['bin', o2, B, C]]
                it = make_item(ast, None, [f'pair:{"same" if E.LEVEL[o1] == E.LEVEL[o2] else "cross"}-level'])
                if it['dc'] is None:
                    # the bare text must not contain parentheses: that is the point
                    assert '(' not in it['text'], it['text']
                    items.append(it)
                    done += 1
                    if done >= 2:
                        break
    # unary minus positions
    A, B, C = num(5), num(3), num(2)
    um = [
        (['bin', '+', ['neg', A], B], 'neg:leading-then-binop'),
        (['bin', '*', ['neg', A], B], 'neg:leading-then-binop'),
        (['bin', '-', ['bin', '*', A, ['neg', B]], C], 'neg:after-operator-then-binop'),
        (['bin', '+', ['bin', '-', A, ['neg', B]], C], 'neg:after-operator-then-binop'),
        (['bin', '*', ['neg', ['bin', '+', A, B]], C], 'neg:before-parenthesis'),
        (['neg', ['neg', A]], 'neg:doubled'),
        (['bin', '-', A, ['neg', ['neg', B]]], 'neg:doubled'),
        (['bin', '+', ['neg', ['neg', A]], B], 'neg:doubled'),
        (['bin', '<<', ['neg', A], B], 'neg:leading-then-binop'),
        (['bin', '&', ['neg', A], num(255)], 'neg:leading-then-binop'),
        (['bin', '+', ['byte', 0, ['neg', A]], B], 'neg:inside-func'),
        (['bin', '+', ['neg', ['name', 'lab_a']], ['name', 'lab_b']], 'neg:leading-then-binop'),
    ]
    for ast, b in um:
        for _ in range(3):
            items.append(make_item(ast, None, [b]))
    # each literal notation
    for n in E.NOTATIONS:
        for v in (0, 1, 10, 171, 255, 4096, 48879):
            if n == 'char':
                for ch in 'aZ0~@{':
                    items.append(make_item(E.lit(ord(ch), 'char'), None, ['lit:char']))
                # a blank or a tab between the quotes is that character (32, 9), not spacing
                for ch in ' \t':
                    items.append(make_item(E.lit(ord(ch), 'char'), None, ['lit:char', 'lit:char-blank-or-tab']))
                    items.append(make_item(['bin', '+', E.lit(ord(ch), 'char'), num(1)], None, ['lit:char', 'lit:char-blank-or-tab']))
                    items.append(make_item(['bin', '*', num(2), E.lit(ord(ch), 'char')], None, ['lit:char', 'lit:char-blank-or-tab']))
                break
            items.append(make_item(E.lit(v, n), None, ['lit:' + n]))
            items.append(make_item(['bin', '+', E.lit(v, n), num(1)], None, ['lit:' + n]))
    # leading zeros in every notation (a decimal literal with a leading zero is still decimal)
    for v, texts in ((10, ['010', '0010', '$0a', '$000A', '0x0a', '0x00A', '0aH', '000AH', '%01010', '%0001010', 'b01010', 'b0001010']),
                     (7, ['07', '007', '$07', '0x007', '07H', '%0111', 'b00111']), (99, ['099', '0099', '$063', '0x0063', '063H']),
                     (0, ['00', '000', '$00', '0x00', '00H', '%00', 'b00']), (16, ['016', '0016']), (8, ['08', '008']), (9, ['09'])):
        for t in texts:
            items.append(make_item(['num', v, t], None, ['lit:leading-zeros']))
            items.append(make_item(['bin', '+', ['num', v, t], num(1)], None, ['lit:leading-zeros']))
    items.append(make_item(['num', 0xBEEF, '0BEEFH'], None, ['lit:H']))
    items.append(make_item(['num', 0xAB, 'abH'], None, ['lit:H']))
    items.append(make_item(['num', 0xAB, 'ABH'], None, ['lit:H']))
    # BYTEn on negatives and beyond the value's length
    for v in (0, 1, 255, 256, 0x1234, 0x123456789A):
        for n in (0, 1, 2, 5, 7):
            items.append(make_item(['byte', n, num(v)], None, ['byte:positive' if v >> (8 * n) else 'byte:beyond-length']))
            items.append(make_item(['byte', n, ['neg', num(v)]], None, ['byte:negative']))
            items.append(make_item(['byte', n, ['bin', '-', num(0), num(v)]], None, ['byte:negative']))
        items.append(make_item(['lsb', ['neg', num(v)]], None, ['byte:negative']))
        items.append(make_item(['lsb', num(v)], None, ['byte:positive']))
    # truncation of non-integer quotients
    for a, b in ((7, 2), (1, 3), (2, 3), (9, 4), (100, 7), (1, 49), (5, 10)):
        items.append(make_item(['bin', '/', num(a), num(b)], None, ['trunc:positive']))
        items.append(make_item(['bin', '/', ['neg', num(a)], num(b)], None, ['trunc:negative']))
        items.append(make_item(['bin', '/', ['bin', '-', num(0), num(a)], num(b)], None, ['trunc:negative']))
        items.append(make_item(['bin', '*', ['bin', '/', num(a), num(b)], num(b)], None, ['real-quotient']))
        items.append(make_item(['bin', '*', ['bin', '/', num(1), num(b)], num(b * 3)], None, ['real-quotient']))
    return items


def malformed_prelude(rng):
    items = []
    base = [['bin', '+', num(1), ['bin', '*', num(2), num(3)]],
            ['bin', '-', ['par', ['bin', '+', num(4), ['name', 'lab_a']]], num(1)],
            ['byte', 1, ['bin', '+', num(300), num(5)]]]
    want = ['drop-operand', 'double-operator', 'unbalance', 'juxtapose', 'trailing-operator', 'unclosed-func',
            'foreign-char', 'empty-parens', 'leading-operator']
    got = {w: 0 for w in want}
    tries = 0
    while min(got.values()) < 6 and tries < 4000:
        tries += 1
        toks = E.tokens(rng.choice(base))
        c = corrupt(toks, rng)
        if c is None:
            continue
        t, kind = c
        if got[kind] >= 6:
            continue
        got[kind] += 1
        items.append({'text': ' '.join(t), 'wf': False, 'kind': kind, 'buckets': ['malformed:' + kind]})
    # hand-written ones
    for text, kind in [('1 +', 'trailing-operator'), ('(1 + 2', 'unbalance'), ('1 + 2)', 'unbalance'), ('1 2', 'juxtapose'),
                       ('* 3', 'leading-operator'), ('BYTE1(5', 'unclosed-func'), ('1 @ 2', 'foreign-char'),
                       ('1 + ~2', 'foreign-char'), ('()', 'empty-parens'), ('', 'empty'), ('1 + + 2', 'double-operator'),
                       ('3 ! 4', 'foreign-char'), ('2 ** 3', 'double-operator'), ('lab_a lab_b', 'juxtapose'),
                       ('1 + 2 ?', 'foreign-char'), ('# 1', 'foreign-char')]:
        toks = text.split(' ') if text else []
        assert not E.well_formed(toks), text
        items.append({'text': text, 'wf': False, 'kind': kind, 'buckets': ['malformed:' + kind]})
    return items


def two_digit_byte_index_items():
    """BYTEn with an index of two digits: the tool may refuse the spelling, but if it gives a value, it is byte n"""
    def byte_n(x, n):
        return (x >> (8 * n)) & 0xFF
    out = []
    for text, x, n in [('BYTE12($1234)', 0x1234, 12), ('BYTE10(1 << 80)', 1 << 80, 10), ('BYTE11(0 - 1)', -1, 11), ('BYTE01($1234)', 0x1234, 1),
                       ('BYTE10($0102030405060708090A0B0C)', 0x0102030405060708090A0B0C, 10), ('BYTE20(1 << 160) + 1', None, None),
                       ('1 + BYTE13(1 << 104)', None, None), ('BYTE00($1234)', 0x1234, 0)]:
        exp = byte_n(x, n) if x is not None else 2
        out.append({'text': text, 'wf': True, 'either': True, 'exp': exp, 'dc': None, 'nt': False, 'shape': 'byte-index-of-two-digits', 'feat': [],
                    'buckets': ['byte:index-of-two-digits']})
    return out


def sweep_items(max_items=None):
    """All trees with <=2 binary operators over the 10 operators and the leaf set (exhaustive); unary minus at any node
    for the one-operator trees."""
    L = SWEEP_LEAVES
    for op in E.BINOPS:
        for a in L:
            for b in L:
                A, B = num(a), num(b)
                yield make_item(['bin', op, A, B])
                yield make_item(['bin', op, ['neg', A], B])
                yield make_item(['bin', op, A, ['neg', B]])
                yield make_item(['neg', ['bin', op, A, B]])
    for o1 in E.BINOPS:
        for o2 in E.BINOPS:
            for a in L:
                for b in L:
                    for c in L:
                        A, B, C = num(a), num(b), num(c)
                        yield make_item(['bin', o2, ['bin', o1, A, B], C])
                        yield make_item(['bin', o1, A, ['bin', o2, B, C]])


class C07(core.Check):
    pid = 'C07'
    level = 'exploration'
    rule = ('ASTs (depth<=6) over literals in every notation, names, + - * / % << >> & | ^, unary minus, BYTEn/LSB, '
            'rendered with only the parentheses precedence/left-associativity require; expected value from an exact '
            'Fraction evaluator truncated toward zero; ill-formed token sequences (kept only if an independent LL '
            'recogniser rejects them) must be rejected. distinct_nontrivial = distinct operator-shape signatures with >=2 '
            'operators of different precedence levels or a unary minus followed by a binary operator. '
            'evaluations = expressions evaluated (direct channel) + .8byte lines assembled (CLI channel).')
    assumptions = ('left-shift counts above 4096 are not generated: the value is outside what the statement fixes, and the run is '
                   'arithmetic on integers of millions of bits (BYTE5(10 << 3150353714) takes 20 CPU seconds in the pinned tree)',
                   
        'operands of % & | ^ << >> are integer-valued, % has non-negative left / positive right operand, shift counts '
        '0..62, no division by zero, magnitudes < 2^62: outside this domain the case is DONT_CARE',
        'the modulo operator is always surrounded by spaces (a glued % starts a binary literal)',
        'names never look like literals (b101, beefH)',
        'trailing-H hexadecimal uses an upper-case H',
        "in operand position bracket characters are not used: the instruction-line grammar reads them as operand forms "
        "before the expression parser sees them (line grammar, not expression semantics)",
    )
    chunk = 400
    crosscheck_every = {'quick': 10, 'thorough': 10}
    required_buckets = {b: 3 for b in [
        'pair:cross-level', 'pair:same-level', 'neg:leading-then-binop', 'neg:after-operator-then-binop',
        'neg:before-parenthesis', 'neg:doubled', 'lit:dec', 'lit:dollar', 'lit:0x', 'lit:H', 'lit:pct', 'lit:b',
        'lit:char', 'lit:char-blank-or-tab', 'lit:leading-zeros', 'byte:negative', 'byte:beyond-length', 'byte:index-of-two-digits', 'trunc:positive', 'trunc:negative', 'real-quotient',
        'malformed:drop-operand', 'malformed:double-operator', 'malformed:unbalance', 'malformed:juxtapose',
        'malformed:trailing-operator', 'malformed:unclosed-func', 'malformed:foreign-char', 'channel:cli', 'channel:cli-offset-behind-a-minus', 'channel:cli-offset-behind-a-plus', 'channel:cli-condition', 'channel:cli-condition/form-0', 'channel:cli-condition/form-2',
        'channel:cli-malformed', 'channel:direct', 'channel:cli-operand']}

    def __init__(self):
        self.n_expr = 0
        self.exhaustive = False

    def _direct_case(self, items, tag):
        return {'runs': [{'mode': 'expr', 'exprs': [it['text'] for it in items], 'labels': LABELS,
                          'registers': ['ra', 'sp'], 'collect_all': True}],
                'meta': {'channel': 'direct', 'items': items}, 'tags': ['channel:direct', tag]}

    def _cli_case(self, items, endian, fmt, rng, malformed=None, channel=None):
        obj = isa.base_isa(address_size=16, endian=endian)
        # an instruction whose single operand is a 64-bit numeric argument: the same expressions in operand position
        obj['operand_sets']['imm64'] = {'operand_values': {'i64': {'type': 'numeric', 'argument': {'size': 64, 'byte_align': True}}}}
        obj['general']['registers'] = ['sp']
        obj['operand_sets']['off64'] = {'operand_values': {'o64': {'type': 'indirect_register', 'register': 'sp',
                                                                   'offset': {'size': 64, 'byte_align': True}}}}
        obj['instructions']['w6o'] = {'bytecode': {'value': 0x66, 'size': 8}, 'operands': {'count': 1, 'operand_sets': {'list': ['off64']}}}
        obj['instructions']['w64'] = {'bytecode': {'value': 0x64, 'size': 8},
                                      'operands': {'count': 1, 'operand_sets': {'list': ['imm64']}}}
        fn, text = isa.render_isa(obj, fmt)
        lines = ['; C07 cli channel']
        for k, v in LABELS.items():
            lines.append(f'{k} = {v}' if rng.random() < 0.5 else f'{k} EQU {v}')
        lines.append('.org 0')
        line_of = []
        for it in items:
            t = it['text']
            if t.startswith("'") or t.startswith('"'):
                t = '0 + ' + t     # a leading quote is the data directive's string syntax (C11), not an expression
                it = dict(it, text=t)
            as_operand = rng.random() < 0.4 and not any(ch in t for ch in '[]{}')
            if not as_operand and rng.random() < 0.2 and ';' not in t:
                # through a constant: the value of the constant is the value of its defining expression
                cn = f'c07k_{len(line_of)}'
                lines.append(f'{cn} = {t}' if rng.random() < 0.6 else f'{cn} EQU {t}')
                lines.append(f'.8byte {cn}')
            elif not as_operand and len(line_of) % 6 == 3 and malformed is None and it.get('dc') is None and 0 <= it['exp'] < (1 << 62) and \
                    ''.join(re.findall(r"\s+|\$[0-9a-fA-F]+|0x[0-9a-fA-F]+|%[01]+|\d+(?![\w$])|<<|>>|[+\-*/&|^()%]", t)) == t:
                # as (one side of) a preprocessor condition: both sides are numbers, so the comparison is one of integers (not in
                # programs with a planted malformed line: that line must not end up inside a branch that is not compiled)
                e_ = it['exp']
                form = (len(line_of) // 6) % 5
                head, truth = [([f'#if {t}'], 1 if e_ != 0 else 0), ([f'#if {t} == {e_}'], 1), ([f'#if {e_ + 1} > {t}'], 1),
                               ([f'#if {t} >= {e_ + 1}'], 0), (['#if 0', '.8byte 2', f'#elif {t} != {e_}'], 0)][form]
                lines.extend(head + ['.8byte 1', '#else', '.8byte 0', '#endif'])
                it = dict(it, exp=truth, text=head[-1], buckets=list(it.get('buckets', ())) + ['channel:cli-condition', 'channel:cli-condition/form-' + str(form)])
            elif not as_operand and len(line_of) % 6 == 1 and re.fullmatch(r"[\s\w.+\-*/&|^<>()$%]+", t) and not t.lstrip().startswith(('-', '+')) \
                    and it.get('dc') is None:
                # as the offset of an indirect register: [sp + e] is e, [sp - e] is 0 - e (the sign in front belongs to the first
                # term only, the + - level stays left-associative)
                if len(line_of) % 12 != 7:
                    neg = it.get('neg_exp')
                    if neg is not None:
                        lines.append(f'w6o [sp - {t}]')
                        it = dict(it, exp=neg, buckets=list(it.get('buckets', ())) + ['channel:cli-offset-behind-a-minus'])
                        as_operand = True
                if not as_operand:
                    lines.append(f'w6o [sp + {t}]')
                    it = dict(it, buckets=list(it.get('buckets', ())) + ['channel:cli-offset-behind-a-plus'])
                    as_operand = True
            else:
                lines.append(f'w64 {t}' if as_operand else f'.8byte {t}')
            it = dict(it, operand=as_operand)
            line_of.append(it)
        if malformed is not None:
            pos = rng.randrange(0, len(line_of) + 1)
            r_ = rng.random()
            mt = malformed['text']
            if channel is not None:
                r_ = {'operand': 0.1, 'constant=': 0.4, 'constantEQU': 0.5, 'data': 0.9}[channel]
            bad = f'w64 {mt}' if r_ < 0.3 and mt.strip() else (f'c07_bad = {mt}' if r_ < 0.45 else f'c07_bad EQU {mt}' if r_ < 0.55
                                                                 else f'.8byte {mt}')
            lines.insert(rng.randrange(len(LABELS) + 2, len(lines) + 1), bad)
        src = '\n'.join(lines) + '\n'
        return {'runs': [{'files': {fn: text, 'p.asm': src}, 'argv': ['compile', '-c', fn, 'p.asm', '-o', 'out.bin'],
                          'probes': ['steps'], 'step_limit': 400000}],
                'meta': {'channel': 'cli', 'items': line_of, 'endian': endian, 'malformed': malformed},
                'tags': ['channel:cli-malformed' if malformed else 'channel:cli']}

    def cases(self, tier, seed):
        rng = core.rng_for(seed, self.pid, 'main')
        pre = prelude_items()
        mal = malformed_prelude(core.rng_for(0, self.pid, 'malformed-prelude'))
        # direct channel: prelude
        for i in range(0, len(pre), 200):
            yield self._direct_case(pre[i:i + 200], 'prelude')
        yield self._direct_case(mal, 'prelude-malformed')
        yield self._direct_case(two_digit_byte_index_items(), 'prelude-two-digit-byte-index')
        # CLI channel: prelude items too (20 per program), both endians, JSON and YAML
        k = 0
        for i in range(0, len(pre), 20):
            chunk = [it for it in pre[i:i + 20] if it['dc'] is None]
            if chunk:
                yield self._cli_case(chunk, 'little' if k % 2 else 'big', 'yaml' if k % 7 == 0 else 'json', rng)
                k += 1
        for m in mal:
            if m['text'].strip() == '':
                continue
            good = [it for it in pre[(k * 7) % len(pre):][:6] if it['dc'] is None]
            yield self._cli_case(good, 'big', 'json', rng, malformed=m)
            # and through each place an expression can stand in, in turn (not left to chance)
            yield self._cli_case(good, 'big', 'json', core.rng_for(0, self.pid, 'mal-channel', k), malformed=m,
                                 channel=['operand', 'constant=', 'constantEQU', 'data'][k % 4])
            yield self._cli_case(good, 'big', 'json', core.rng_for(0, self.pid, 'mal-channel2', k), malformed=m,
                                 channel=['constant=', 'constantEQU'][k % 2])
            k += 1
        # random part
        n_direct = 60 if tier == 'quick' else 900
        n_cli = 120 if tier == 'quick' else 1500
        for i in range(n_direct):
            r = core.rng_for(seed, self.pid, 'direct', i)
            items = []
            for j in range(300):
                if r.random() < 0.2:
                    ast = rand_ast(r, r.randrange(1, 5))
                    c = corrupt(E.tokens(ast), r)
                    if c is not None:
                        items.append({'text': ' '.join(c[0]), 'wf': False, 'kind': c[1], 'buckets': ['malformed:' + c[1]]})
                        continue
                for _ in range(6):
                    ast = rand_ast(r, r.randrange(1, 7))
                    it = make_item(ast, r)
                    if it['dc'] is None:
                        break
                items.append(it)
            yield self._direct_case(items, 'random')
        for i in range(n_cli):
            r = core.rng_for(seed, self.pid, 'cli', i)
            items = []
            while len(items) < 20:
                it = make_item(rand_ast(r, r.randrange(1, 7)), r)
                if it['dc'] is None:
                    items.append(it)
            malformed = None
            if r.random() < 0.15:
                c = corrupt(E.tokens(rand_ast(r, 3)), r)
                if c is not None and ' '.join(c[0]).strip():
                    malformed = {'text': ' '.join(c[0]), 'wf': False, 'kind': c[1]}
                    items = items[:5]
            yield self._cli_case(items, r.choice(['big', 'little']), 'yaml' if r.random() < 0.1 else 'json', r, malformed)
        if tier == 'thorough':
            self.exhaustive = True
            buf = []
            for it in sweep_items():
                buf.append(it)
                if len(buf) >= 1000:
                    yield self._direct_case(buf, 'sweep')
                    buf = []
            if buf:
                yield self._direct_case(buf, 'sweep')

    def judge(self, case, outcomes):
        o = outcomes[0]
        meta = case['meta']
        vs = []
        if o.get('timed_out'):
            return [core.violated('termination:' + str(o['timed_out']), {'probes': o.get('probes')})]
        if meta['channel'] == 'direct':
            f = (o.get('files') or {}).get('expr_results.json')
            if f is None:
                return [core.inconclusive('no direct-channel results', {'stderr': o.get('stderr', '')[-500:]})]
            res = json.loads(bytes.fromhex(f))
            for it, r in zip(meta['items'], res):
                self.n_expr += 1
                vs.append(self._judge_item(it, r))
            return vs
        # CLI channel
        img = (o.get('files') or {}).get('out.bin')
        if meta.get('malformed'):
            self.n_expr += 1
            if o.get('exit') == 0:
                return [core.violated('malformed-accepted/cli/' + meta['malformed']['kind'],
                                      {'text': meta['malformed']['text'], 'stdout': o.get('stdout', '')[-300:]},
                                      buckets=['malformed:' + meta['malformed']['kind']])]
            return [core.held(buckets=['malformed:' + meta['malformed']['kind']])]
        if o.get('exit') != 0 or img is None:
            return [core.violated('wellformed-rejected/cli', {'exit': o.get('exit'), 'stderr': o.get('stderr', '')[-600:],
                                                              'texts': [it['text'] for it in meta['items']]})]
        data = bytes.fromhex(img)
        off = 0
        for i, it in enumerate(meta['items']):
            self.n_expr += 1
            if it.get('operand'):
                off += 1          # the w64 opcode byte
            chunk = data[off:off + 8]
            off += 8
            got = int.from_bytes(chunk, meta['endian']) if len(chunk) == 8 else None
            exp = it['exp'] & ((1 << 64) - 1)
            r = {'v': got}
            if got == exp:
                vs.append(core.held(buckets=list(it.get('buckets', ())) + (['channel:cli-operand'] if it.get('operand') else []),
                                    nt=it['shape'] if it['nt'] else None))
            else:
                vs.append(core.violated(self._sig(it, 'cli'), {'text': it['text'], 'expected': it['exp'], 'got_u64': got},
                                        buckets=it.get('buckets', ()), nt=it['shape'] if it['nt'] else None))
        return vs

    def _sig(self, it, channel):
        f = set(it.get('feat', ()))
        if 'neg' in f:
            cls = 'neg'
        elif 'op:/' in f or 'op:%' in f:
            cls = 'div'
        else:
            cls = 'other'
        return f'wrong-value/{cls}'

    def _judge_item(self, it, r):
        b = it.get('buckets', ())
        if it.get('either'):
            # refused, or the value the property prescribes: nothing else
            if 'v' in r and r['v'] != it['exp']:
                return core.violated('wrong-value/' + it['shape'], {'text': it['text'], 'expected': it['exp'], 'got': r['v']}, buckets=b)
            return core.held(buckets=b)
        if not it['wf']:
            if 'v' in r:
                return core.violated('malformed-accepted/' + it['kind'], {'text': it['text'], 'value': r['v']}, buckets=b)
            return core.held(buckets=b)
        if it['dc'] is not None:
            return core.dont_care(it['dc'])
        nt = it['shape'] if it['nt'] else None
        if 'v' not in r:
            return core.violated('wellformed-rejected', {'text': it['text'], 'expected': it['exp'], 'error': r},
                                 buckets=b, nt=nt)
        if r['v'] != it['exp']:
            return core.violated(self._sig(it, 'direct'), {'text': it['text'], 'expected': it['exp'], 'got': r['v']},
                                 buckets=b, nt=nt)
        return core.held(buckets=b, nt=nt)

    def sample_of(self, case, outcomes):
        m = case['meta']
        if m['channel'] == 'direct':
            return {'channel': 'direct', 'expressions': [{'text': it['text'], 'expected': it.get('exp'),
                                                          'well_formed': it['wf']} for it in m['items'][:8]]}
        return {'channel': 'cli', 'source': case['runs'][0]['files']['p.asm'][:1200],
                'image_hex': (outcomes[0].get('files') or {}).get('out.bin', '')[:160]}

    def extra_evidence(self):
        return {'evaluations': self.n_expr, 'exhaustive': False,
                'sweep': ('all trees with <=2 binary operators over 10 operators and leaves {0,1,2,3,7,10,255,256}, '
                          'unary minus at any node of the one-operator trees: enumerated completely') if self.exhaustive
                else 'not run in this tier'}
