"""C08 — conditional assembly selects exactly the lines of the taken branches.

Oracle: vf.model.cond interprets the directive stream once, top to bottom, with the symbol table as it is when each
directive is reached.  Every region between directives holds a unique marker byte; side effects placed inside branches
(#define, labels, constants, #create_memzone, #mute, #include) are followed by probes that reveal whether they took
effect.  Probe: `cond` event log.
"""
from vf import core, isa as isamod, gen_prog
from vf.model import cond, layout

OPS = ['==', '!=', '>', '>=', '<', '<=']
SYMS = ['VER_MAJ', 'CFG_SIZE', 'Opt_a', 'BOARD', 'lvl2', 'FEAT_X', 'FEAT_Y', 'MODE_T']
FLAGS = ['HAVE_A', 'G_GUARD', 'def_b', 'ONCE_', 'FLAG9', 'inner_f']


def num(rng, v):
    if v < 0:
        # a negative literal: minus sign in front of any notation
        d = num(rng, -v)
        return {'num': '-' + d['num'], 'v': v}
    r = rng.random()
    if r < 0.4:
        t = str(v)
    elif r < 0.6:
        t = '$' + format(v, 'x')
    elif r < 0.75:
        t = '$0' + format(v, 'X')
    elif r < 0.85:
        t = '0x' + format(v, 'x')
    elif r < 0.93:
        t = '%' + format(v, 'b')
    else:
        t = '0' * rng.randrange(1, 3) + str(v)
    return {'num': t, 'v': v}


def opnd_text(o):
    if 'sym' in o:
        return o['sym']
    if 'num' in o:
        return o['num']
    return o['txt']


def cond_text(c):
    if 'bare' in c:
        return opnd_text(c['bare'])
    r = c['rhs']
    rt = opnd_text(r)
    if 'txt' in r and c.get('quote'):
        rt = c['quote'] + rt + c['quote']
    return f"{opnd_text(c['lhs'])} {c['op']} {rt}"


class Gen:
    def __init__(self, rng, opts):
        self.rng = rng
        self.o = opts
        self.items = []
        self.next_marker = 1
        self.numsyms = {}     # symbols with numeric values defined at top level (always defined from then on)
        self.txtsyms = {}
        self.flags_free = list(FLAGS)
        self.syms_free = list(SYMS)
        rng.shuffle(self.flags_free)
        rng.shuffle(self.syms_free)
        self.files = {}
        self.tags = set()
        self.zone_n = 0
        self.label_n = 0
        self.pending_probes = []
        self.cli_defs = []
        self.isa_syms = []

    def marker(self):
        if self.next_marker > 190:
            return
        self.items.append({'k': 'marker', 'v': self.next_marker})
        self.next_marker += 1

    def top_define(self):
        """numeric / text symbols defined where they are certainly selected"""
        rng = self.rng
        if not self.syms_free:
            return
        nm = self.syms_free.pop()
        if rng.random() < 0.75:
            if self.numsyms and rng.random() < 0.25:
                val = {'sym': rng.choice(sorted(self.numsyms))}
                v = self.numsyms[val['sym']]
            else:
                v = rng.choice([0, 1, 2, 3, 9, 10, 11, 16, 100, 255, -1, -3, -16])
                val = num(rng, v)
            self.numsyms[nm] = v
        else:
            w = rng.choice(['debug', 'rel_x', 'alpha1'])
            val = {'txt': w}
            self.txtsyms[nm] = w
        src = rng.random()
        if src < 0.7 or self.items:
            self.items.append({'k': 'define', 'name': nm, 'val': val})
        elif src < 0.85:
            self.cli_defs.append((nm, val))
        else:
            self.isa_syms.append((nm, val))

    def condition(self):
        rng = self.rng
        r = rng.random()
        if (r < 0.12 or not self.numsyms) and not (self.txtsyms and r > 0.9):
            v = rng.choice([0, 1, 0, 1, 2, -1, -2])
            self.tags.add('if:bare-literal')
            if v < 0:
                self.tags.add('if:bare-negative')
            return {'bare': num(rng, v)}
        if r < 0.22:
            s = rng.choice(sorted(self.numsyms))
            self.tags.add('if:bare-symbol')
            if self.numsyms[s] < 0:
                self.tags.add('if:bare-negative')
            return {'bare': {'sym': s}}
        if r > 0.9 and self.txtsyms:
            s = rng.choice(sorted(self.txtsyms))
            w = rng.choice([self.txtsyms[s], 'debug', 'zzz'])
            self.tags.add('if:text-comparison')
            return {'lhs': {'sym': s}, 'op': rng.choice(['==', '!=']), 'rhs': {'txt': w}, 'quote': rng.choice(['"', "'", ''])}
        s = rng.choice(sorted(self.numsyms))
        v = self.numsyms[s]
        op = rng.choice(OPS)
        rv = rng.choice([v, v, v + 1, v - 1 if v <= 0 else max(0, v - 1), rng.choice([0, 1, 10, 16, 255, -1])])
        if rng.random() < 0.2 and len(self.numsyms) > 1:
            rhs = {'sym': rng.choice(sorted(self.numsyms))}
        else:
            rhs = num(rng, rv)
        c = {'lhs': {'sym': s}, 'op': op, 'rhs': rhs}
        if rng.random() < 0.15:
            c = {'lhs': c['rhs'], 'op': op, 'rhs': c['lhs']}
        self.tags.add('if:op' + op)
        # numeric notation vs text: would a text comparison of the written operands disagree?
        return c

    def effect(self, depth):
        """a side effect inside a branch + a probe scheduled after the outermost chain closes"""
        rng = self.rng
        r = rng.random()
        if r < 0.3 and self.flags_free:
            nm = self.flags_free.pop()
            self.items.append({'k': 'define', 'name': nm, 'val': None if rng.random() < 0.6 else num(rng, rng.randrange(0, 9))})
            self.pending_probes.append(('ifdef', nm))
            self.tags.add('effect:define')
        elif r < 0.45:
            self.label_n += 1
            nm = f'lbl_{self.label_n}'
            self.items.append({'k': 'label', 'name': nm, 'scope': 'g'})
            self.marker()
            self.tags.add('effect:label')
        elif r < 0.6:
            self.label_n += 1
            nm = f'KC{self.label_n}'
            v = 200 + (self.label_n % 50)
            self.items.append({'k': 'const', 'name': nm, 'val': v, 'text': f'{nm} = {v}'})
            self.tags.add('effect:constant')
        elif r < 0.72 and self.zone_n < 3 and self.o.get('zones', True):
            self.zone_n += 1
            nm = f'CZ{self.zone_n}'
            s = 0x200 + 0x40 * self.zone_n
            self.items.append({'k': 'create_memzone', 'name': nm, 'start': s, 'end': s + 15})
            self.pending_probes.append(('zone', nm))
            self.tags.add('effect:create_memzone')
        elif r < 0.78 and self.zone_n < 6:
            self.zone_n += 0
            self.org_n = getattr(self, 'org_n', 0) + 1
            self.items.append({'k': 'orgjump', 'addr': 0x400 + 0x20 * self.org_n})
            self.marker()
            self.tags.add('effect:origin')
        elif r < 0.82 and self.o.get('zones', True):
            # a zone switch inside a branch: it moves the following bytes only if the branch is selected
            self.items.append({'k': 'zswitch', 'name': rng.choice(['PZ1', 'PZ2', 'GLOBAL'])})
            self.marker()
            self.tags.add('effect:zone-switch')
        elif r < 0.86 and self.o.get('mute', True):
            self.items.append({'k': 'mute'})
            self.marker()
            self.pending_probes.append(('unmute', None))
            self.tags.add('effect:mute')
        elif self.o.get('include', True) and len(self.files) < 3:
            fn = f'inc{len(self.files) + 1}.asm'
            inc = []
            for _ in range(rng.randrange(1, 3)):
                if self.next_marker <= 190:
                    inc.append({'k': 'marker', 'v': self.next_marker})
                    self.next_marker += 1
            self.files[fn] = inc
            self.items.append({'k': 'include', 'file': fn, 'lines': inc})
            self.tags.add('effect:include')

    def block(self, depth):
        rng = self.rng
        n = rng.randrange(1, 4)
        for _ in range(n):
            r = rng.random()
            self.marker()
            if getattr(self, 'unmute_in_branches', False) and depth > 0 and rng.random() < 0.5:
                self.items.append({'k': rng.choice(['unmute', 'unmute', 'mute'])})
                self.marker()
            if depth > 0 and r < 0.45:
                self.effect(depth)
            if r > 0.55 and depth < self.o.get('max_depth', 4) and self.next_marker < 170:
                self.chain(depth)
        self.marker()

    def chain(self, depth):
        rng = self.rng
        r = rng.random()
        guard = None
        outer_mute = False
        if depth == 0 and self.o.get('mute', True) and rng.random() < 0.2:
            # a mute that is in effect around the whole chain; branches contain #unmute / #emit / #mute directives,
            # which must count only in the selected branch
            self.items.append({'k': 'mute'})
            self.marker()
            outer_mute = True
            self.unmute_in_branches = True
            self.tags.add('effect:unmute-inside-branch-while-muted')
        if r < 0.45:
            self.items.append({'k': 'if', 'cond': self.condition()})
            self.tags.add('opener:if')
        else:
            # ifdef / ifndef on a flag that may or may not be defined; sometimes the guard idiom
            pool = [f for f in FLAGS if f not in self.flags_free] + self.flags_free[:2]
            nm = rng.choice(pool)
            k = 'ifdef' if r < 0.7 else 'ifndef'
            self.items.append({'k': k, 'name': nm})
            self.tags.add('opener:' + k)
            if k == 'ifndef' and nm in self.flags_free and rng.random() < 0.7:
                guard = nm
        if guard:
            self.flags_free.remove(guard)
            self.items.append({'k': 'define', 'name': guard, 'val': None})
            self.tags.add('define-inside-block-that-tests-it')
        self.block(depth + 1)
        for _ in range(rng.choice([0, 0, 1, 1, 2, 3])):
            if r < 0.45 or self.numsyms:
                self.items.append({'k': 'elif', 'cond': self.condition()})
                self.tags.add('has-elif')
                self.block(depth + 1)
        if rng.random() < 0.6:
            self.items.append({'k': 'else'})
            self.tags.add('has-else')
            self.block(depth + 1)
        self.items.append({'k': 'endif'})
        if outer_mute:
            self.unmute_in_branches = False
            self.marker()
            self.marker()
            self.items.append({'k': 'unmute'})
            self.items.append({'k': 'unmute'})
            self.items.append({'k': 'unmute'})
            self.marker()
        if depth == 0:
            self.flush_probes()
        self.tags.add(f'depth:{depth + 1}')

    def flush_probes(self):
        for kind, nm in self.pending_probes:
            if kind == 'ifdef':
                self.items.append({'k': 'ifdef', 'name': nm})
                self.marker()
                self.items.append({'k': 'else'})
                self.marker()
                self.items.append({'k': 'endif'})
            elif kind == 'unmute':
                self.items.append({'k': 'unmute'})
                self.marker()
            elif kind == 'zone':
                self.items.append({'k': 'zoneprobe', 'name': nm})
        self.pending_probes = []

    def program(self):
        rng = self.rng
        for _ in range(rng.randrange(1, 4)):
            self.top_define()
        if self.o.get('zones', True) and self.o.get('named_start', rng.random() < 0.3):
            # the program runs in a named zone: an .org / .memzone of an unselected branch must not take it out of there
            self.items.append({'k': 'zswitch', 'name': rng.choice(['PZ1', 'PZ2']), 'selected': True})
            self.tags.add('starts-in-named-zone')
        for _ in range(rng.randrange(1, 4)):
            self.marker()
            if rng.random() < 0.4:
                self.top_define()
            self.chain(0)
        self.marker()
        return self


def render(items, rng):
    out = []

    def gap():
        # blanks or tabs after the directive keyword, wherever the directive stands (compiled code or not)
        return rng.choice([' ', ' ', ' ', '\t', '  ', ' \t', '\t\t']) if rng is not None else ' '
    for it in items:
        k = it['k']
        if k == 'marker':
            out.append(f".byte {it['v']}")
        elif k == 'if':
            out.append('#if' + gap() + cond_text(it['cond']))
        elif k == 'elif':
            out.append('#elif' + gap() + cond_text(it['cond']))
        elif k in ('ifdef', 'ifndef'):
            out.append(f"#{k}{gap()}{it['name']}")
        elif k == 'else':
            out.append('#else')
        elif k == 'endif':
            out.append('#endif')
        elif k == 'define':
            v = it.get('val')
            out.append(f"#define{gap()}{it['name']}" + ('' if v is None else gap() + opnd_text(v)))
        elif k == 'label':
            out.append(it['name'] + ':')
        elif k == 'const':
            out.append(it['text'])
        elif k == 'create_memzone':
            out.append(f"#create_memzone {it['name']} {it['start']} {it['end']}")
        elif k == 'orgjump':
            out.append(f".org {it['addr']}")
        elif k == 'zswitch':
            out.append(f".memzone {it['name']}")
        elif k == 'mute':
            out.append('#mute')
        elif k == 'unmute':
            out.append('#unmute' if rng is None or rng.random() < 0.6 else '#emit')
        elif k == 'include':
            out.append(f'#include "{it["file"]}"')
        elif k == 'zoneprobe':
            out.append(f".memzone {it['name']}")
            out.append(f".byte {it['v']}")
            out.append('.memzone GLOBAL')
        elif k == 'raw':
            out.append(it['text'])
    return '\n'.join(out) + '\n'


PZONES = [{'name': 'PZ1', 'start': 0x900, 'end': 0x97F}, {'name': 'PZ2', 'start': 0x980, 'end': 0x9FF}]


def model(items, presyms):
    """-> dict(kind, image, detail); runs the sequential interpreter, then the layout model on the selected lines."""
    flat = []
    for it in items:
        flat.append(it)
    try:
        syms, still_open = cond.interpret(flat, presyms)
    except cond.Stray as e:
        return {'kind': 'REJECT', 'why': 'stray #' + str(e)}
    except cond.Undefined as e:
        return {'kind': 'DONT_CARE', 'why': 'condition over an undefined symbol'}
    if still_open:
        return {'kind': 'DONT_CARE', 'why': 'unterminated chain'}
    if any(it.get('dup') for it in flat):
        return {'kind': 'REJECT', 'why': 'symbol defined twice'}
    # selected stream -> layout lines
    lines = [{'k': 'org', 'addr': 0, 'zone_name': None}]
    names = set()
    zones_made = set()
    mute_depth = 0
    for it in flat:
        if not it.get('selected'):
            continue
        k = it['k']
        if k == 'mute':
            mute_depth += 1
        elif k == 'unmute':
            mute_depth = max(0, mute_depth - 1)
        elif k == 'include' and mute_depth > 0:
            # whether an included file inherits the includer's mute state is C17's question, not C08's
            return {'kind': 'DONT_CARE', 'why': 'include while muted (C17)'}
        if k == 'marker':
            lines.append({'k': 'data', 'width': 1, 'vals': [it['v']], 'marker': it['v'], 'ctx': it.get('ctx')})
        elif k == 'label' or k == 'const':
            if it['name'] in names:
                return {'kind': 'REJECT', 'why': 'name defined twice'}
            names.add(it['name'])
            if k == 'label':
                lines.append({'k': 'label', 'name': it['name']})
        elif k == 'create_memzone':
            if it['name'] in zones_made:
                return {'kind': 'REJECT', 'why': 'zone defined twice'}
            zones_made.add(it['name'])
            lines.append({'k': 'create_memzone', 'name': it['name'], 'start': it['start'], 'end': it['end']})
        elif k == 'zoneprobe':
            if it['name'] not in zones_made:
                return {'kind': 'REJECT', 'why': 'probe of a zone that was never created'}
            lines.append({'k': 'memzone', 'name': it['name']})
            lines.append({'k': 'data', 'width': 1, 'vals': [it['v']], 'marker': it['v'], 'ctx': 'zoneprobe'})
            lines.append({'k': 'memzone', 'name': 'GLOBAL'})
        elif k == 'orgjump':
            lines.append({'k': 'org', 'addr': it['addr'], 'zone_name': None})
        elif k == 'zswitch':
            lines.append({'k': 'memzone', 'name': it['name']})
        elif k == 'mute':
            lines.append({'k': 'mute'})
        elif k == 'unmute':
            lines.append({'k': 'unmute'})
        elif k == 'include':
            lines.append({'k': 'include_begin'})
            for m in it['lines']:
                lines.append({'k': 'data', 'width': 1, 'vals': [m['v']], 'marker': m['v'], 'ctx': it.get('ctx')})
            lines.append({'k': 'include_end'})
    res = layout.layout(lines, 16, origin=0, predefined_zones=PZONES, size_of=lambda l, a: len(l['vals']))
    if res.kind != 'ACCEPT':
        return {'kind': 'DONT_CARE', 'why': res.reason}
    layout.memory_map(res, lambda l: bytes(l['vals']))
    img = layout.image(res.M, 0, None, 0)
    return {'kind': 'ACCEPT', 'image': img.hex() if img else '', 'symbols': sorted(syms)}


class C08(core.Check):
    pid = 'C08'
    level = 'exploration'
    rule = ('directive trees to depth 4: chains opened by #if (six operators, bare expression, numerals in differing notations), '
            '#ifdef, #ifndef, 0..3 #elif, optional #else; a unique marker byte in every region; #define at random places '
            'including the guard idiom (#ifndef G / #define G) and unselected branches; labels, constants, #create_memzone, '
            '#mute, #include inside branches, each with a later probe; stray #else/#elif/#endif programs. Expected image from '
            'the sequential interpreter + layout model. thorough adds all well-nested structures with <=2 chains x <=3 '
            'branches x all truth assignments. distinct_nontrivial = distinct (structure tag set, expectation) signatures.')
    assumptions = ('conditions only mention symbols that are certainly defined at that point, else DONT_CARE',
                   'symbol values are single literals / single symbols (no textual-precedence effects)',
                   'unselected branches contain only well-formed lines')
    chunk = 800
    required_buckets = {b: 3 for b in [
        'opener:if', 'opener:ifdef', 'opener:ifndef', 'has-elif', 'has-else', 'depth:2', 'depth:3',
        'define-inside-block-that-tests-it', 'effect:define', 'effect:label', 'effect:constant', 'effect:create_memzone',
        'effect:mute', 'effect:include', 'effect:origin', 'effect:zone-switch', 'starts-in-named-zone', 'effect:unmute-inside-branch-while-muted', 'if:bare-literal', 'if:bare-symbol', 'if:bare-negative', 'if:text-comparison', 'if:op==', 'if:op!=',
        'if:op>', 'if:op>=', 'if:op<', 'if:op<=', 'ctx:unsel:nested-in-unselected', 'ctx:unsel:earlier-branch-taken',
        'ctx:unsel:condition-false', 'numeric-vs-text-disagree', 'stray:else', 'stray:elif', 'stray:endif', 'stray:in-included-file', 'same-condition-text-before-and-after-define',
        'source:cli', 'source:isa', 'condition:shift-operator', 'condition:quotient-that-is-no-integer', 'condition:symbol-named-almost-like-a-number', 'condition:alias-symbol-seen-before-its-target-is-defined', 'condition:ifdef-of-a-name-that-is-a-constant-or-label-only',
        'uncompiled-label-or-origin-between-a-local-label-and-its-use']}

    def finish(self, g, rng, extra_tags=()):
        items = g.items
        # zone probes get their marker values now
        for it in items:
            if it['k'] == 'zoneprobe':
                it['v'] = 250 - g.zone_n
                g.zone_n -= 1 if g.zone_n > 1 else 0
        presyms = {n: v for n, v in g.cli_defs + g.isa_syms}
        m = model(items, presyms)
        tags = set(g.tags) | set(extra_tags)
        for it in items:
            if it['k'] == 'marker' and not it.get('selected', True) and it.get('ctx'):
                tags.add('ctx:' + it['ctx'])
            if it['k'] in ('if', 'elif') and it.get('selected') and 'lhs' in it.get('cond', {}):
                c = it['cond']
                lt, rt = opnd_text(c['lhs']), opnd_text(c['rhs'])
                if 'num' in c['rhs'] or 'num' in c['lhs']:
                    try:
                        lk = cond.resolve(c['lhs'], presyms | {x['name']: x.get('val') for x in items if x['k'] == 'define'})
                    except Exception:
                        lk = None
                    if lk and lk[0] == 'num':
                        # e.g. "$0A == 10": text comparison would say false, numeric says true
                        tags.add('numeric-vs-text-disagree')
        if g.cli_defs:
            tags.add('source:cli')
        if g.isa_syms:
            tags.add('source:isa')
        isa = gen_prog.layout_isa(16, zones=PZONES)
        if g.isa_syms:
            isa.setdefault('predefined', {})['symbols'] = [
                ({'name': n, 'value': opnd_text(v)} if v is not None else {'name': n}) for n, v in g.isa_syms]
        fmt = 'yaml' if rng.random() < 0.1 else 'json'
        fn, text = isamod.render_isa(isa, fmt)
        files = {fn: text, 'p.asm': render(items, rng)}
        for f, ls in g.files.items():
            files[f] = render(ls, rng)
        argv = ['compile', '-c', fn, 'p.asm', '-o', 'out.bin']
        for n, v in g.cli_defs:
            argv += ['-D', n if v is None else f'{n}={opnd_text(v)}']
        tags.add('expect:' + m['kind'])
        markers = {str(it['v']): {'sel': bool(it.get('selected')), 'ctx': it.get('ctx')} for it in items if it['k'] == 'marker'}
        for ls in g.files.values():
            for it in ls:
                markers[str(it['v'])] = {'sel': bool(it.get('selected', False)), 'ctx': it.get('ctx')}
        for it in items:
            if it['k'] == 'include':
                for x in it['lines']:
                    markers[str(x['v'])] = {'sel': bool(it.get('selected')), 'ctx': it.get('ctx')}
        return {'runs': [{'files': files, 'argv': argv, 'probes': ['steps', 'cond'], 'step_limit': 2_000_000}],
                'meta': {'model': m, 'markers': markers}, 'tags': sorted(tags)}

    def cases(self, tier, seed):
        n_pre = 300
        n = 400 if tier == 'quick' else 8000
        for i in range(n_pre + n):
            rng = core.rng_for(0 if i < n_pre else seed, self.pid, i)
            opts = {'max_depth': rng.choice([1, 2, 3, 4])}
            if i < n_pre:
                opts['named_start'] = (i % 3 == 0)
            g = Gen(rng, opts).program()
            yield self.finish(g, rng)
        # stray directives
        strays = [('else', ['.byte 1', '#else', '.byte 2']), ('endif', ['.byte 1', '#endif']),
                  ('elif', ['#define QQ 1', '#elif QQ == 1', '.byte 2', '#endif']),
                  ('endif', ['#if 1', '.byte 1', '#endif', '#endif']),
                  ('else', ['#if 0', '.byte 1', '#endif', '#else', '.byte 3', '#endif']),
                  ('elif', ['#ifdef NOPE', '.byte 1', '#endif', '.byte 4', '#elif 1', '.byte 5']),
                  ('else', ['#else']), ('endif', ['.byte 9', '.byte 8', '#endif', '.byte 7'])]
        for k, (kind, lines) in enumerate(strays * 2):
            rng = core.rng_for(0, self.pid, 'stray', k)
            g = Gen(rng, {})
            kmap = {'#else': {'k': 'else'}, '#endif': {'k': 'endif'}}
            for t in lines:
                if t in kmap:
                    g.items.append(dict(kmap[t]))
                elif t.startswith('.byte'):
                    g.items.append({'k': 'marker', 'v': int(t.split()[1])})
                elif t.startswith('#define'):
                    g.items.append({'k': 'define', 'name': 'QQ', 'val': {'num': '1', 'v': 1}})
                elif t.startswith('#elif'):
                    c = {'bare': {'num': '1', 'v': 1}} if t == '#elif 1' else {'lhs': {'sym': 'QQ'}, 'op': '==', 'rhs': {'num': '1', 'v': 1}}
                    g.items.append({'k': 'elif', 'cond': c})
                elif t.startswith('#if '):
                    g.items.append({'k': 'if', 'cond': {'bare': {'num': t.split()[1], 'v': int(t.split()[1])}}})
                elif t.startswith('#ifdef'):
                    g.items.append({'k': 'ifdef', 'name': t.split()[1]})
            yield self.finish(g, rng, ['stray:' + kind])
        # a stray directive inside an included file must be rejected even when the includer has a chain open
        inc_strays = [
            ('else', '#if 1\n.byte 1\n#include "s.asm"\n.byte 2\n#endif\n', '.byte 3\n#else\n.byte 4\n'),
            ('endif', '#ifdef NOPE\n.byte 1\n#else\n#include "s.asm"\n.byte 2\n#endif\n.byte 5\n#endif\n', '.byte 3\n#endif\n'),
            ('elif', '#define QQ 1\n#if QQ == 1\n#include "s.asm"\n#endif\n', '.byte 3\n#elif QQ == 1\n.byte 4\n'),
            ('endif', '.byte 1\n#if 1\n#include "s.asm"\n.byte 2\n', '.byte 3\n#endif\n'),
            ('else', '#if 0\n.byte 1\n#else\n#include "s.asm"\n#endif\n', '#else\n.byte 4\n'),
        ]
        isa0 = gen_prog.layout_isa(16)
        fn0, text0 = isamod.render_isa(isa0, 'json')
        for k, (kind, main_src, inc_src) in enumerate(inc_strays * 2):
            yield {'runs': [{'files': {fn0: text0, 'p.asm': main_src, 's.asm': inc_src},
                             'argv': ['compile', '-c', fn0, 'p.asm', '-o', 'out.bin'], 'probes': ['steps', 'cond'], 'step_limit': 500000}],
                   'meta': {'model': {'kind': 'REJECT', 'why': 'stray #' + kind + ' in an included file'}, 'markers': {}},
                   'tags': ['stray:' + kind, 'stray:in-included-file', 'same-condition-text-before-and-after-define', 'expect:REJECT']}
        # the same condition text reached twice: first while its symbol is not defined yet (both branches of that chain
        # emit the same byte, because what an undefined symbol compares to is not fixed), then after the #define
        k = 0
        for cond_txt, val, truth in (('SYMQ == 2', '2', True), ('SYMQ == 2', '3', False), ('SYMQ != 2', '2', False), ('SYMQ >= 5', '7', True),
                                     ('SYMQ', '1', True), ('SYMQ', '0', False), ('SYMQ', '-1', True), ('SYMQ', '-$10', True), ('SYMQ >= 0', '-2', False), ('SYMQ < 10', '$0A', False), ('SYMQ == fast', 'fast', True),
                                     ('2 == SYMQ', '2', True), ('SYMQ <= 8', '0x08', True)):
            for first_kind in ('if', 'elif'):
                for second_kind in ('if', 'elif'):
                    first = [f'#if {cond_txt}'] if first_kind == 'if' else ['#if 0', '.byte 7', f'#elif {cond_txt}']
                    second = [f'#if {cond_txt}'] if second_kind == 'if' else ['#if 0', '.byte 9', f'#elif {cond_txt}']
                    src = first + ['.byte 7', '#else', '.byte 7', '#endif', f'#define SYMQ {val}'] + second + \
                        ['.byte 3', '#else', '.byte 4', '#endif', '.byte 5']
                    img = bytes([7, 3 if truth else 4, 5]).hex()
                    k += 1
                    yield {'runs': [{'files': {fn0: text0, 'p.asm': '\n'.join(src) + '\n'},
                                     'argv': ['compile', '-c', fn0, 'p.asm', '-o', 'out.bin'], 'probes': ['steps', 'cond'], 'step_limit': 500000}],
                           'meta': {'model': {'kind': 'ACCEPT', 'image': img, 'undefined_first': True}, 'markers': {}},
                           'tags': ['same-condition-text-before-and-after-define', 'expect:ACCEPT']}
        # shift operators inside conditions (their characters are also the comparison operators'), and comparisons written
        # without blanks around the operator: the latter may be refused, but never read as something else
        for cond_txt, val, truth, may_refuse in (
                ('1 << 3', '1', True, False), ('SYMQ >> 1', '1', False, False), ('(SYMQ >> 1)', '2', True, False), ('SYMQ >> 2', '3', False, False),
                ('SYMQ << 2 == 4', '1', True, False), ('SYMQ < 1 << 3', '7', True, False), ('SYMQ < 1 << 3', '8', False, False),
                ('SYMQ > 1 << 2', '5', True, False), ('SYMQ >= 1 << 2', '3', False, False), ('1 << SYMQ != 8', '3', False, False),
                ('5==6', '1', False, True), ('5==5', '1', True, True), ('SYMQ==2', '2', True, True), ('SYMQ==2', '3', False, True),
                ('SYMQ!=1', '1', False, True), ('SYMQ>=5', '4', False, True), ('SYMQ<1', '1', False, True), ('2>3', '1', False, True),
                ('SYMQ ==2', '3', False, True), ('SYMQ== 2', '3', False, True), ('SYMQ<=0', '1', False, True), ('0!=0', '1', False, True),
                # each side is an integer before the two are compared: a quotient is cut off toward zero first
                ('SYMQ/2 == 3', '7', True, False), ('SYMQ/2 > 3', '7', False, False), ('SYMQ/4', '2', False, False), ('1/2', '1', False, False),
                ('0 - SYMQ/2 == 0 - 3', '7', True, False), ('SYMQ/4 >= 3', '10', False, False), ('9/SYMQ != 4', '2', False, False),
                ('3 == SYMQ/2', '7', True, False), ('3 < SYMQ/2', '7', False, False), ('SYMQ/3 <= 2', '8', True, False), ('(SYMQ/2)*2 == 6', '7', False, False)):
            for kind_ in ('if', 'elif'):
                head = [f'#if {cond_txt}'] if kind_ == 'if' else ['#if 0', '.byte 9', f'#elif {cond_txt}']
                src = [f'#define SYMQ {val}'] + head + ['.byte 3', '#else', '.byte 4', '#endif', '.byte 5']
                yield {'runs': [{'files': {fn0: text0, 'p.asm': '\n'.join(src) + '\n'},
                                 'argv': ['compile', '-c', fn0, 'p.asm', '-o', 'out.bin'], 'probes': ['steps', 'cond'], 'step_limit': 500000}],
                       'meta': {'model': {'kind': 'ACCEPT', 'image': bytes([3 if truth else 4, 5]).hex(), 'undefined_first': may_refuse,
                                          'why_refusable': 'a comparison written without blanks around its operator may be refused'}, 'markers': {}},
                       'tags': ['condition:comparison-without-blanks' if may_refuse else ('condition:quotient-that-is-no-integer' if '/' in cond_txt else 'condition:shift-operator'), 'expect:ACCEPT']}
        # a symbol that stands for another symbol, looked at before the other one is defined (on a line of a branch that is not
        # compiled): a condition reached after the definition sees the value of that moment
        for mention in (['#ifdef C08_NEVER', '.byte WIDTH_Q', '#endif'], ['#if 0', 'ldi WIDTH_Q', '#endif'], ['#ifdef C08_NEVER', '#if WIDTH_Q == 16', '.byte 9', '#endif', '#endif'],
                        ['#if 1', '#elif WIDTH_Q', '.byte 9', '#endif'], []):
            for val, cond_txt, truth in (('16', 'WIDTH_Q == 16', True), ('8', 'WIDTH_Q == 16', False), ('0', 'WIDTH_Q', False), ('2', 'WIDTH_Q >= 2', True),
                                         ('(1 << 4)', 'WIDTH_Q == 16', True)):
                for kind_ in ('if', 'elif'):
                    head = [f'#if {cond_txt}'] if kind_ == 'if' else ['#if 0', '.byte 9', f'#elif {cond_txt}']
                    src = ['#define WIDTH_Q BUS_Q'] + mention + [f'#define BUS_Q {val}'] + head + ['.byte 3', '#else', '.byte 4', '#endif', '.byte WIDTH_Q + 1']
                    v_ = {'16': 16, '8': 8, '0': 0, '2': 2, '(1 << 4)': 16}[val]
                    yield {'runs': [{'files': {fn0: text0, 'p.asm': '\n'.join(src) + '\n'},
                                     'argv': ['compile', '-c', fn0, 'p.asm', '-o', 'out.bin'], 'probes': ['steps', 'cond'], 'step_limit': 500000}],
                           'meta': {'model': {'kind': 'ACCEPT', 'image': bytes([3 if truth else 4, v_ + 1]).hex()}, 'markers': {}},
                           'tags': ['condition:alias-symbol-seen-before-its-target-is-defined' if mention else 'condition:alias-symbol', 'expect:ACCEPT']}
        # a label in a branch that is not compiled defines nothing and bounds nothing: a local label defined in front of the
        # block is still in reach behind it
        for opener, closer in (('#if 0', '#endif'), ('#ifdef C08_NEVER', '#endif'), ('#if 1\n.byte $0F\n#else', '#endif'),
                               ('#if 0\n#if 1', '#endif\n#endif'), ('#if 0\n.byte 9\n#elif 0', '#endif')):
            for dead in ('dead_glob:', '_dead_file:', 'dead_glob: .byte 9', 'dead_glob:\n.dead_loc:\n.byte 9', '.org $300', '.memzone GLOBAL'):
                live_extra = [0x0F] if '.byte $0F' in opener else []
                for use in ('.2byte .c08_loc', 'jmp .c08_loc'):
                    src = ['c08_host:', '.byte 1', '.c08_loc:', '.byte 2', opener, dead, closer, use, '.byte 5']
                    ub = [0x00, 0x01] if use.startswith('.2byte') else [0x4C, 0x00, 0x01]
                    yield {'runs': [{'files': {fn0: text0, 'p.asm': '\n'.join(src) + '\n'},
                                     'argv': ['compile', '-c', fn0, 'p.asm', '-o', 'out.bin'], 'probes': ['steps', 'cond'], 'step_limit': 500000}],
                           'meta': {'model': {'kind': 'ACCEPT', 'image': bytes([1, 2] + live_extra + ub + [5]).hex()}, 'markers': {}},
                           'tags': ['uncompiled-label-or-origin-between-a-local-label-and-its-use', 'expect:ACCEPT']}
        # symbols whose names read almost like numbers (a binary or hexadecimal literal in another letter case): in a condition they
        # stand for their replacement text like any other symbol
        for sym, val, cond_txt, truth in (('B1', '0', 'B1', False), ('B1', '0', 'B1 == 0', True), ('B1', '5', 'B1 == 1', False), ('AH', '3', 'AH == 3', True),
                                          ('AH', '3', 'AH > 3', False), ('AH', '3', '10 == AH', False), ('EACH', '1', 'EACH', True), ('EACH', '0', 'EACH', False),
                                          ('B10', '2', 'B10 == 2', True), ('B10', '7', 'B10 < 3', False), ('BACH', '0', 'BACH != 0', False), ('C0H', '4', 'C0H >= 5', False)):
            for kind_ in ('if', 'elif', 'alias'):
                head = [f'#if {cond_txt}'] if kind_ != 'elif' else ['#if 0', '.byte 9', f'#elif {cond_txt}']
                defs = [f'#define {sym} {val}'] if kind_ != 'alias' else [f'#define ALIAS_Q {sym}', f'#define {sym} {val}']
                if kind_ == 'alias':
                    head = [h_.replace(sym, 'ALIAS_Q') for h_ in head]
                src = defs + head + ['.byte 3', '#else', '.byte 4', '#endif', '.byte 5']
                yield {'runs': [{'files': {fn0: text0, 'p.asm': '\n'.join(src) + '\n'},
                                 'argv': ['compile', '-c', fn0, 'p.asm', '-o', 'out.bin'], 'probes': ['steps', 'cond'], 'step_limit': 500000}],
                       'meta': {'model': {'kind': 'ACCEPT', 'image': bytes([3 if truth else 4, 5]).hex()}, 'markers': {}},
                       'tags': ['condition:symbol-named-almost-like-a-number', 'expect:ACCEPT']}
        # #ifdef / #ifndef look at preprocessor symbols only: a constant or a label of that name, defined in compiled code in
        # front of the test, does not make the name a defined symbol
        for definer in (['LIMIT_Q = 5'], ['LIMIT_Q EQU 5'], ['LIMIT_Q:', '.byte 7'], ['_limit_q = 5'], ['LIMIT_Q = 5', 'other_q = LIMIT_Q + 1']):
            nm_ = '_limit_q' if definer[0].startswith('_') else 'LIMIT_Q'
            lead_ = [7] if '.byte 7' in definer else []
            for test_, truth in ((f'#ifdef {nm_}', False), (f'#ifndef {nm_}', True)):
                for kind_ in ('if', 'nested', 'with-elif'):
                    if kind_ == 'if':
                        src, out_ = definer + [test_, '.byte 3', '#else', '.byte 4', '#endif', '.byte 5'], [3 if truth else 4, 5]
                    elif kind_ == 'nested':
                        src, out_ = definer + ['#if 1', test_, '.byte 3', '#else', '.byte 4', '#endif', '#endif', '.byte 5'], [3 if truth else 4, 5]
                    else:
                        src, out_ = definer + [test_, '.byte 3', '#elif 1', '.byte 6', '#else', '.byte 4', '#endif', '.byte 5'], [3 if truth else 6, 5]
                    yield {'runs': [{'files': {fn0: text0, 'p.asm': '\n'.join(src) + '\n'},
                                     'argv': ['compile', '-c', fn0, 'p.asm', '-o', 'out.bin'], 'probes': ['steps', 'cond'], 'step_limit': 500000}],
                           'meta': {'model': {'kind': 'ACCEPT', 'image': bytes(lead_ + out_).hex()}, 'markers': {}},
                           'tags': ['condition:ifdef-of-a-name-that-is-a-constant-or-label-only', 'expect:ACCEPT']}
        if tier == 'thorough':
            yield from self.sweep()

    def sweep(self):
        """all structures: 1..2 chains (second nested in any branch of the first or after it), <=3 branches, all truth values"""
        import itertools
        k = 0
        for b1 in range(1, 4):            # branches of chain 1: if [+elif]*[+else]
            for else1 in (False, True):
                for truths1 in itertools.product([0, 1], repeat=b1):
                    for place in [None] + list(range(b1 + (1 if else1 else 0))) + ['after']:
                        for b2 in ((1, 2) if place is not None else (0,)):
                            for else2 in ((False, True) if place is not None else (False,)):
                                for truths2 in itertools.product([0, 1], repeat=b2):
                                    rng = core.rng_for(0, self.pid, 'sweep', k)
                                    k += 1
                                    g = Gen(rng, {})

                                    def emit_chain(g, truths, has_else, inner=None):
                                        for bi, tv in enumerate(truths):
                                            c = {'bare': {'num': str(tv), 'v': tv}}
                                            g.items.append({'k': 'if' if bi == 0 else 'elif', 'cond': c})
                                            g.marker()
                                            if inner is not None and inner[0] == bi:
                                                inner[1]()
                                                g.marker()
                                        if has_else:
                                            g.items.append({'k': 'else'})
                                            g.marker()
                                            if inner is not None and inner[0] == len(truths):
                                                inner[1]()
                                                g.marker()
                                        g.items.append({'k': 'endif'})
                                    g.marker()
                                    if place is None:
                                        emit_chain(g, truths1, else1)
                                    elif place == 'after':
                                        emit_chain(g, truths1, else1)
                                        g.marker()
                                        emit_chain(g, truths2, else2)
                                    else:
                                        emit_chain(g, truths1, else1, (place, lambda: emit_chain(g, truths2, else2)))
                                    g.marker()
                                    yield self.finish(g, rng, ['sweep'])

    def judge(self, case, outcomes):
        o = outcomes[0]
        m = case['meta']['model']
        tags = case['tags']
        src = {k: v for k, v in case['runs'][0]['files'].items() if k.endswith('.asm')}
        nt = '|'.join(t for t in tags if not t.startswith(('if:op', 'source:')))
        if o.get('timed_out'):
            return [core.violated('termination:' + str(o['timed_out']), {'src': src})]
        if m['kind'] == 'DONT_CARE':
            return [core.dont_care(m.get('why') or '')]
        if m['kind'] == 'REJECT':
            if o.get('exit') == 0:
                cls = next((t for t in tags if t.startswith('stray:')), m.get('why'))
                return [core.violated(f'must-reject-accepted/{cls}', {'why': m.get('why'), 'src': src}, buckets=tags, nt=nt)]
            return [core.held(buckets=tags, nt=nt)]
        img = (o.get('files') or {}).get('out.bin')
        if m.get('undefined_first') and o.get('exit') != 0:
            return [core.dont_care(m.get('why_refusable') or 'a condition over a symbol that is not defined yet may be refused')]
        if o.get('exit') != 0 or img is None:
            err = (o.get('stderr') or '')[-400:]
            cls = 'rejected'
            if 'multiple times' in err or 'already exists' in err:
                cls = 'rejected/effect-of-unselected-line(duplicate definition)'
            return [core.violated(cls, {'stderr': err, 'src': src}, buckets=tags, nt=nt)]
        if img == m['image']:
            return [core.held(buckets=tags, nt=nt)]
        got = set(bytes.fromhex(img)) - {0}
        exp = set(bytes.fromhex(m['image'])) - {0}
        mk = case['meta']['markers']
        extra = sorted(got - exp)
        missing = sorted(exp - got)
        ctxs = sorted({(mk.get(str(x)) or {}).get('ctx') or '?' for x in extra})
        mctx = sorted({(mk.get(str(x)) or {}).get('ctx') or '?' for x in missing})
        sig = 'markers'
        if extra:
            sig += '/emitted-from:' + ','.join(ctxs)
        if missing:
            sig += '/missing-from:' + ','.join(mctx)
        if not extra and not missing:
            sig += '/moved'
        return [core.violated(sig, {'extra': extra, 'missing': missing, 'expected': m['image'][:300], 'got': img[:300], 'src': src},
                              buckets=tags, nt=nt)]

    def sample_of(self, case, outcomes):
        return {'files': {k: v[:700] for k, v in case['runs'][0]['files'].items() if k.endswith('.asm')},
                'argv': case['runs'][0]['argv'], 'model': case['meta']['model']}
