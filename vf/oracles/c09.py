"""C09 — preprocessor symbols are substituted as whole words, in definition order.

Oracle: vf.model.subst (whole-word fix-point substitution with cycle detection) applied to each probe line with the symbols
defined so far; the substituted text is evaluated by the reference expression evaluator; compared with the bytes the
real CLI emitted.  Probe: `subst` (in/out pairs of Preprocessor.resolve_symbols).
"""
import json
import re

from vf import core, isa as isamod, gen_prog
from vf.model import subst, expr as E

# ('B1' and 'ach' nearly read as numbers - b1 is one, ACH is one - but in these spellings they are names)
BASES = ['FOO', 'BAR_', 'k_sz', 'Lim2', 'OPT', 'zeta', 'Q_9', 'vx', 'B1', 'ach']


class C09(core.Check):
    pid = 'C09'
    level = 'exploration'
    rule = ('1..6 symbols from the three definition sources (ISA predefined.symbols, -D, #define) with values that are '
            'literals, expressions, other symbols (chains, diamonds) and cycles of length 1..4; probe lines (.2byte / ldi / inr) '
            'mixing symbols with constants and labels whose names have a symbol as prefix, suffix or infix; a constant carrying '
            'the symbol\'s own name before the definition (use before definition); double definitions across every pair of '
            'sources. Expected bytes = evaluate(substitute(line)). distinct_nontrivial = distinct (feature tag set) signatures.')
    rule = rule + ' ' + 'Whole-word occurrences between quotes (.cstr/.asciiz/.byte strings) are probed as well.'
    assumptions = ('symbol names have >= 2 characters, are no numeric literals in their own spelling and never occur directly after "." / "$" (those '
                   'adjacency cases are not fixed by the statement); a whole-word occurrence between quotes is replaced like any other '
                   '("every whole-word occurrence"), probed only where the replaced text is made of word characters, operators and single blanks',
                   'an unused cyclic definition is DONT_CARE')
    chunk = 800
    required_buckets = {b: 3 for b in ['symbol-names-the-label-or-constant-a-line-defines', 'source:cli/blank-around-equals', 'replacement-text-with-a-quoted-semicolon',
        'adjacent:prefix', 'adjacent:suffix', 'adjacent:infix', 'chain:2', 'chain:3', 'chain:4', 'diamond', 'cycle:1',
        'cycle:2', 'cycle:3', 'cycle:4', 'use-before-define', 'double:isa+isa', 'double:isa+cli', 'double:isa+define',
        'double:cli+cli', 'double:cli+define', 'double:define+define', 'expands-to:register', 'expands-to:label',
        'expands-to:expression', 'source:isa', 'source:cli', 'source:define', 'unparenthesised-expression-value', 'double:identical-text',
        'cycle:replacement-is-the-bare-name-itself', 'quoted-value-used', 'quoted-value-with-blank-run', 'valueless-symbol-used', 'define-while-muted', 'same-line-text-repeated', 'quoted-value-from:isa', 'quoted-value-from:cli', 'quoted-value-from:define',
        'symbol-inside-a-string', 'symbol-inside-a-string:replaced', 'config-symbol-value-written-as-a-number',
        'adjacent:case', 'symbol-and-its-other-case-twin-on-one-line', 'config-symbol-value-is-the-number-0', 'quoted-value-with-a-backslash']}

    def build(self, rng, mode, quoted=None, muted=None, nil=None, in_string=None):
        tags = set()
        bases = list(BASES)
        rng.shuffle(bases)
        nsym = rng.randrange(1, 7)
        names = bases[:nsym]
        # constants / labels whose names merely contain a symbol name
        consts = {}
        lines = []
        sym = {}           # name -> text (None: defined without value)
        src_of = {}
        isa_syms, cli = [], []
        pre_lines = []

        def neighbour(n):
            # (the other-case spellings of B1 and ach are numbers, not names)
            k = rng.choice(['prefix', 'suffix', 'infix', 'case', 'case'] if n not in ('B1', 'ach') else ['prefix', 'suffix', 'infix'])
            # (names are case sensitive: the same letters in the other case are another identifier)
            nm = {'prefix': n + 'BAR', 'suffix': 'X' + n, 'infix': 'A_' + n + '_B', 'case': n.swapcase()}[k]
            return nm, k
        for n in names:
            if rng.random() < 0.7:
                nm, k = neighbour(n)
                if nm not in consts:
                    consts[nm] = rng.randrange(1, 200)
                    tags.add('adjacent:' + k)
        if not consts:
            nm, k = neighbour(names[0])
            consts[nm] = 42
            tags.add('adjacent:' + k)
        for nm, v in consts.items():
            pre_lines.append(f'{nm} = {v}')
        pre_lines.append('tgt_lab:')
        pre_lines.append('.byte 1')
        env = dict(consts)
        env['tgt_lab'] = 0
        # symbol values
        defs = []          # (name, text, source)
        order = list(names)
        if mode == 'cycle':
            n = rng.randrange(1, min(4, len(order)) + 1) if len(order) > 0 else 1
            cyc = order[:n]
            for i, nm in enumerate(cyc):
                nxt = cyc[(i + 1) % n]
                txt_c = rng.choice([nxt, nxt, f'{nxt} + 1', f'({nxt})'])
                if n == 1 and txt_c == nm:
                    tags.add('cycle:replacement-is-the-bare-name-itself')
                    # a constant of the same name exists: leaving the symbol unexpanded would quietly give the line a value
                    v_self = rng.randrange(300, 400)
                    pre_lines.append(f'{nm} = {v_self}')
                    env[nm] = v_self
                defs.append((nm, txt_c, None))
            tags.add(f'cycle:{n}')
            rest = order[n:]
        else:
            rest = order
        prev = []
        for nm in rest:
            r = rng.random()
            if prev and r < 0.35:
                tgt = rng.choice(prev)
                txt = rng.choice([tgt, f'({tgt} + 1)', f'{tgt}'])
            elif len(prev) >= 2 and r < 0.45:
                a, b = rng.sample(prev, 2)
                txt = f'({a} + {b})'
                tags.add('diamond-candidate')
            elif r < 0.55:
                txt = rng.choice(sorted(consts))
                tags.add('expands-to:label')
            elif r < 0.65:
                txt = f'{rng.randrange(1, 9)} + {rng.randrange(1, 9)}'
                tags.add('expands-to:expression')
                tags.add('unparenthesised-expression-value')
            elif r < 0.72:
                txt = f'({rng.randrange(1, 50)} * 2)'
                tags.add('expands-to:expression')
            else:
                txt = gen_prog.num_text(rng.randrange(0, 300), rng) if rng.random() < 0.8 else '0'
            defs.append((nm, txt, None))
            prev.append(nm)
        # chain depth
        dsym = {n: t for n, t, _ in defs}

        def depth(n, seen=()):
            if n in seen:
                return 0
            t = dsym.get(n) or ''
            ds = [depth(m, seen + (n,)) for m in subst.IDENT.findall(t) if m in dsym]
            return 1 + (max(ds) if ds else 0)
        if mode != 'cycle':
            for n in dsym:
                d = depth(n)
                if d >= 2:
                    tags.add(f'chain:{min(d, 4)}')
            for n, t in dsym.items():
                refs = [m for m in subst.IDENT.findall(t) if m in dsym]
                if len(set(refs)) >= 2:
                    tags.add('diamond')
        # register symbol
        reg_sym = None
        if rng.random() < 0.3 and len(bases) > nsym:
            reg_sym = bases[nsym]
            defs.append((reg_sym, rng.choice(['a', 'b', 'sp']), None))
            tags.add('expands-to:register')
        # a symbol whose replacement text is a quoted string or a character literal: substituted verbatim, quotes included
        q_sym = None
        spare = [b for b in bases[nsym:] if b != reg_sym]
        if spare and (quoted if quoted is not None else rng.random() < 0.25):
            q_sym = spare[0]
            q_kind = rng.choice(['str', 'chr'])
            # (runs of blanks and tabs inside the quotes belong to the replacement text)
            # (a backslash in the replacement text is a character of the text like any other; what it means is decided where the
            #  text lands - here inside a string or character literal, where \\\\ stands for one backslash)
            q_text = rng.choice(['"ok"', '"a b"', '"x"', "'hi there'", '"A  B"', '"t\tab"', '"  lead"', '"trail   "', "'two  gaps  here'",
                                 '"a\\\\n"', '"c:\\\\tmp"', '"back\\\\"']) \
                if q_kind == 'str' else rng.choice(["'B'", "'7'", "'z'", "' '", "'\t'", "'\\\\'"])
            if '\\' in q_text:
                tags.add('quoted-value-with-a-backslash')
            if '  ' in q_text or '\t' in q_text:
                tags.add('quoted-value-with-blank-run')
            defs.append((q_sym, q_text, None))
            tags.add('expands-to:quoted-' + q_kind)
        # a symbol defined without a value: every whole-word occurrence is replaced by nothing
        nil_sym = None
        spare2 = [b for b in bases[nsym:] if b != reg_sym and b != q_sym]
        if spare2 and (nil if nil is not None else rng.random() < 0.25) and mode == 'plain':
            nil_sym = spare2[-1]
            defs.append((nil_sym, '', None))
            tags.add('expands-to:nothing')
        # assign sources; definitions made by #define are placed in the program at random points
        body = []
        prog_defs = []
        for nm, txt, _ in defs:
            s = rng.choice(['isa', 'cli', 'define', 'define'])
            if ' ' in txt and s == 'cli' and rng.random() < 0.5 and nm != q_sym:
                s = 'define'
            src_of[nm] = s
            tags.add('source:' + s)
            if nm == q_sym:
                tags.add('quoted-value-from:' + s)
            if s == 'isa':
                isa_syms.append((nm, txt))
            elif s == 'cli':
                cli.append((nm, txt))
            else:
                prog_defs.append((nm, txt))
        # double definition
        expect_reject = None
        if mode == 'double':
            nm, txt, _ = rng.choice(defs)
            a = src_of[nm]
            b = rng.choice(['isa', 'cli', 'define'])
            pair = '+'.join(sorted([a, b], key=['isa', 'cli', 'define'].index))
            tags.add('double:' + pair)
            # the second definition carries the same text as the first half of the time: still a double definition
            second = txt if rng.random() < 0.5 else '7'
            if second == txt:
                tags.add('double:identical-text')
            if b == 'isa':
                isa_syms.append((nm, second))
            elif b == 'cli':
                cli.append((nm, second))
            else:
                prog_defs.append((nm, second))
            expect_reject = 'double definition ' + pair
        # program: probes interleaved with #define lines; model symbol table evolves in source order
        table = {n: t for n, t in isa_syms}
        table.update({n: t for n, t in cli})
        out = list(pre_lines)
        probes = []
        cur_addr = 1
        rng.shuffle(prog_defs)
        pending = list(prog_defs)
        all_names = [n for n, _, _ in defs]
        used_cycle = False
        # use-before-define: a constant carrying the name of a symbol that is #defined later
        ubd = None
        for nm, txt in prog_defs:
            if nm not in table and rng.random() < 0.5 and mode == 'plain' and nm != reg_sym:
                ubd = nm
                v = rng.randrange(300, 400)
                out.append(f'{nm} = {v}')
                env[nm] = v
                tags.add('use-before-define')
                break
        n_probe = rng.randrange(3, 9)
        prev_texts = []
        for i in range(n_probe):
            if pending and rng.random() < 0.5:
                nm, txt = pending.pop(0)
                muted_def = (muted if muted is not None else rng.random() < 0.2)
                if muted_def:
                    # muting silences bytes, not definitions
                    out.append('#mute')
                    tags.add('define-while-muted')
                out.append(f'#define {nm} {txt}' if txt != '' else f'#define {nm}')
                if muted_def:
                    out.append(rng.choice(['#unmute', '#emit']))
                if nm in table:
                    pass   # double definition: rejection expected
                table[nm] = txt
            # a probe line
            atoms = []
            for _ in range(rng.randrange(1, 4)):
                r = rng.random()
                if r < 0.5 and all_names:
                    cand = [n for n in all_names if n != reg_sym and n != q_sym and n != nil_sym]
                    if cand:
                        atoms.append(rng.choice(cand))
                        continue
                if r < 0.8:
                    atoms.append(rng.choice(sorted(consts)))
                else:
                    atoms.append(gen_prog.num_text(rng.randrange(0, 100), rng))
            twin_ = [a_ for a_ in atoms if a_ in all_names and a_.swapcase() in consts]
            if twin_ and rng.random() < 0.7:
                atoms.append(twin_[0].swapcase())
            if any(a_.swapcase() in atoms and a_ in all_names for a_ in atoms):
                tags.add('symbol-and-its-other-case-twin-on-one-line')
            op = rng.choice([' + ', ' + ', ' * ', ' - '])
            text = op.join(atoms)
            if prev_texts and rng.random() < 0.3:
                # the very same line text again: what it means depends on the definitions made in between
                text = rng.choice(prev_texts)
                tags.add('same-line-text-repeated')
            prev_texts.append(text)
            kind = '.2byte'
            if reg_sym and table.get(reg_sym) in ('a', 'b', 'sp') and rng.random() < 0.25:
                line = f'inr {reg_sym}'
                reg = table[reg_sym]
                exp = bytes([(0x2A << 2) | {'a': 0, 'b': 1, 'sp': 2}[reg]]).hex()
                out.append(line)
                probes.append({'line': len(out), 'text': line, 'addr': cur_addr, 'bytes': exp, 'kind': 'inr'})
                cur_addr += 1
                continue
            if q_sym and q_sym in table and table[q_sym][:1] in ('"', "'") and rng.random() < 0.4:
                qt = table[q_sym]
                if qt.startswith('"') or len(qt) > 3:
                    line = f'.cstr {q_sym}'
                    b = bytes(qt[1:-1], 'utf-8').decode('unicode_escape').encode('latin-1') + b'\0'
                else:
                    k_ = rng.randrange(0, 3)
                    # (a line that begins with a character literal is C11's listed finding: keep the literal second)
                    line = f'.byte {k_} + {q_sym}'
                    b = bytes([ord(bytes(qt[1:-1], 'utf-8').decode('unicode_escape')) + k_])
                out.append(line)
                probes.append({'line': len(out), 'text': line, 'addr': cur_addr, 'bytes': b.hex(), 'kind': 'quoted'})
                cur_addr += len(b)
                tags.add('quoted-value-used')
                continue
            if table and (in_string if in_string is not None else rng.random() < 0.12):
                # a whole-word occurrence between quotes is an occurrence like any other (and a containing word is not)
                s_ = rng.choice(sorted(table))
                inner = rng.choice([s_, f'{s_} ok', f'id {s_}', f'{s_}x {s_}', f'x{s_} {s_}_y', f'({s_})'])
                try:
                    sub_ = subst.substitute(inner, table)
                except subst.Cycle:
                    sub_ = None
                if sub_ is not None and re.fullmatch(r'[\w+*()$%-]+( [\w+*()$%-]+)*', sub_):
                    d_ = rng.choice(['.cstr', '.asciiz', '.byte'])
                    line = f'{d_} "{inner}"'
                    b = sub_.encode() + (b'' if d_ == '.byte' else b'\0')
                    out.append(line)
                    probes.append({'line': len(out), 'text': line, 'sub': sub_, 'addr': cur_addr, 'bytes': b.hex(), 'kind': 'in-string'})
                    cur_addr += len(b)
                    tags.add('symbol-inside-a-string')
                    if sub_ != inner:
                        tags.add('symbol-inside-a-string:replaced')
                    continue
            if nil_sym and nil_sym in table and rng.random() < 0.35:
                text = rng.choice([f'{nil_sym} {text}', f'{text} {nil_sym}', f'{nil_sym} {text} {nil_sym}'])
                tags.add('valueless-symbol-used')
            line = f'{kind} {text}'
            out.append(line)
            try:
                sub = subst.substitute(text, table)
                # identifiers that are still unknown (a symbol used before its definition and no constant of that name)
                val = E.result(E.parse(sub), env)
                probes.append({'line': len(out), 'text': line, 'sub': sub, 'addr': cur_addr, 'bytes': (val & 0xFFFF).to_bytes(2, 'big').hex(),
                               'kind': '2byte'})
            except subst.Cycle:
                used_cycle = True
                probes.append({'line': len(out), 'text': line, 'cycle': True})
                expect_reject = expect_reject or 'cyclic symbol used'
            except KeyError as e:
                probes.append({'line': len(out), 'text': line, 'undefined': str(e)})
                expect_reject = expect_reject or 'undefined name ' + str(e)
            except (E.DontCare, E.ParseError) as e:
                return None
            cur_addr += 2
        for nm, txt in pending:
            out.append(f'#define {nm} {txt}' if txt != '' else f'#define {nm}')
        out.append('.byte $EE')
        if mode == 'cycle' and not used_cycle:
            kind = 'DONT_CARE'
        elif expect_reject:
            kind = 'REJECT'
        else:
            kind = 'ACCEPT'
        isa = gen_prog.layout_isa(16, endian='big')
        if isa_syms:
            # a replacement that reads as a decimal number is also written as a number in the configuration file (value: 5)
            def _cfgval(t_):
                if re.fullmatch(r'[1-9]\d{0,5}|0', t_) and (t_ == '0' or (len(t_) + sum(map(ord, t_))) % 2 == 0):
                    tags.add('config-symbol-value-written-as-a-number')
                    if t_ == '0':
                        tags.add('config-symbol-value-is-the-number-0')
                    return int(t_)
                return t_
            isa.setdefault('predefined', {})['symbols'] = [{'name': n, 'value': _cfgval(t)} if t != '' else {'name': n} for n, t in isa_syms]
        fn, text = isamod.render_isa(isa, 'yaml' if rng.random() < 0.1 else 'json')
        argv = ['compile', '-c', fn, 'p.asm', '-o', 'out.bin']
        for n, t in cli:
            # blanks around the = of a command-line definition belong neither to the name nor to the text
            form = rng.choice(['{n}={t}', '{n}={t}', '{n} = {t}', '{n} ={t}', '{n}= {t}'])
            if ' ' in form and t != '':
                tags.add('source:cli/blank-around-equals')
            argv += ['-D', form.format(n=n, t=t) if t != '' else n]
        tags.add('expect:' + kind)
        tags.discard('diamond-candidate')
        return {'runs': [{'files': {fn: text, 'p.asm': '\n'.join(out) + '\n'}, 'argv': argv, 'probes': ['steps', 'subst'],
                          'step_limit': 400000}],
                'meta': {'kind': kind, 'why': expect_reject, 'probes': probes}, 'tags': sorted(tags)}

    def cases(self, tier, seed):
        n_pre = 360
        n = 500 if tier == 'quick' else 9000
        for i in range(n_pre + n):
            rng = core.rng_for(0 if i < n_pre else seed, self.pid, i)
            mode = ['plain', 'plain', 'cycle', 'double'][i % 4] if i < n_pre else rng.choice(['plain', 'plain', 'plain', 'cycle', 'double'])
            c = self.build(rng, mode, quoted=(i % 3 == 0) if i < n_pre else None, muted=(i % 5 < 2) if i < n_pre else None, nil=(i % 4 == 1) if i < n_pre else None,
                           in_string=(i % 6 == 1 or None) if i < n_pre else None)
            if c:
                yield c
        yield from self.defining_position_cases()

    def defining_position_cases(self):
        """a defined symbol is replaced wherever it stands as a whole word on a non-directive line - also where the word names the
        label or constant the line defines: the name defined is then the replacement text"""
        isa = gen_prog.layout_isa(16, endian='big')
        for k, (src, image, cli, cfg) in enumerate([
                (['#define ENTRY_Q start_here', 'ENTRY_Q: .byte 1', '.2byte start_here'], '010000', [], []),
                (['#define ENTRY_Q start_here', '.byte 9', 'ENTRY_Q:', '.byte 1', '.2byte start_here, ENTRY_Q'], '090100010001', [], []),
                (['#define KNAME_Q k_val', 'KNAME_Q = 7', '.byte k_val'], '07', [], []),
                (['#define KNAME_Q k_val', 'KNAME_Q EQU 9', '.byte k_val, KNAME_Q'], '0909', [], []),
                (['#define KNAME_Q k_val', '#define SEVEN_Q 7', 'KNAME_Q = SEVEN_Q + 1', '.byte k_val'], '08', [], []),
                (['ENTRY_Q: .byte 1', '.2byte start_here'], '010000', [('ENTRY_Q', 'start_here')], []),
                (['KNAME_Q = 7', '.byte k_val'], '07', [], [('KNAME_Q', 'k_val')]),
                (['#define FILE_Q _priv', 'FILE_Q: .byte 1', '.2byte _priv + 2'], '010002', [], []),
                (['host_q:', '#define LOC_Q .inner', '.byte 5', 'LOC_Q: .byte 1', '.2byte .inner'], '05010001', [], []),
                # a replacement text is the text behind the name up to the comment: a ; inside quotes belongs to it
                (['#define SEP_Q \';\'', '.byte SEP_Q, 1'], '3b01', [], []),
                (['#define MSG_Q "go; stop"', '.cstr MSG_Q'], b'go; stop\0'.hex(), [], []),
                (['#define SEP_Q \';\' ; the separator', '.byte SEP_Q'], '3b', [], []),
                (['#define MSG_Q "a;b" ; two; comments', '.byte MSG_Q'], '613b62', [], []),
                (['#define PAIR_Q \';\', \';\'', '.byte PAIR_Q'], '3b3b', [], []),
                # control: a name that merely contains the symbol's name stays as written
                (['#define ENTRY_Q start_here', 'ENTRY_Q2: .byte 1', '.2byte ENTRY_Q2'], '010000', [], [])]):
            isa_k = json.loads(json.dumps(isa))
            if cfg:
                isa_k.setdefault('predefined', {})['symbols'] = [{'name': n, 'value': t} for n, t in cfg]
            fn, text = isamod.render_isa(isa_k, 'json')
            argv = ['compile', '-c', fn, 'p.asm', '-o', 'out.bin']
            for n, t in cli:
                argv += ['-D', f'{n}={t}']
            yield {'runs': [{'files': {fn: text, 'p.asm': '\n'.join(src) + '\n'}, 'argv': argv, 'probes': ['steps', 'subst'], 'step_limit': 400000}],
                   'meta': {'kind': 'ACCEPT', 'why': None, 'probes': [{'addr': 0, 'bytes': image, 'text': src[-1], 'line': len(src)}]},
                   'tags': ['expect:ACCEPT', 'replacement-text-with-a-quoted-semicolon' if any(';' in l_ and l_.startswith('#define') for l_ in src)
                            else 'symbol-names-the-label-or-constant-a-line-defines', 'source:' + ('cli' if cli else 'isa' if cfg else 'define')]}

    def judge(self, case, outcomes):
        o = outcomes[0]
        m = case['meta']
        tags = case['tags']
        nt = '|'.join(tags)
        src = case['runs'][0]['files']['p.asm']
        if o.get('timed_out'):
            return [core.violated('termination:' + str(o['timed_out']) + ('/cycle' if any(t.startswith('cycle') for t in tags) else ''),
                                  {'src': src, 'argv': case['runs'][0]['argv'], 'steps': (o.get('probes') or {}).get('steps')},
                                  buckets=tags, nt=nt)]
        if m['kind'] == 'DONT_CARE':
            return [core.dont_care('unused cycle')]
        if m['kind'] == 'REJECT':
            if o.get('exit') == 0:
                cls = next((t for t in tags if t.startswith(('double:', 'cycle:'))), 'other')
                return [core.violated('must-reject-accepted/' + cls, {'why': m['why'], 'src': src, 'argv': case['runs'][0]['argv']},
                                      buckets=tags, nt=nt)]
            return [core.held(buckets=tags, nt=nt)]
        img = (o.get('files') or {}).get('out.bin')
        if o.get('exit') != 0 or img is None:
            return [core.violated('valid-program-rejected', {'stderr': (o.get('stderr') or '')[-400:], 'src': src,
                                                             'argv': case['runs'][0]['argv']}, buckets=tags, nt=nt)]
        data = bytes.fromhex(img)
        for p in m['probes']:
            if 'bytes' not in p:
                continue
            got = data[p['addr']:p['addr'] + len(p['bytes']) // 2].hex()
            if got != p['bytes']:
                adj = [t for t in tags if t.startswith('adjacent:')]
                pairs = ((o.get('probes') or {}).get('subst') or {}).get('pairs', [])
                mine = [pp for pp in pairs if pp[0] == p['text']]
                return [core.violated('probe-bytes-differ' + ('/' + adj[0] if adj else ''),
                                      {'line': p['text'], 'model_substitution': p.get('sub'), 'real_substitution': mine[:1],
                                       'expected': p['bytes'], 'got': got, 'src': src, 'argv': case['runs'][0]['argv']},
                                      buckets=tags, nt=nt)]
        return [core.held(buckets=tags, nt=nt)]

    def sample_of(self, case, outcomes):
        return {'source': case['runs'][0]['files']['p.asm'][:800], 'argv': case['runs'][0]['argv'],
                'expect': case['meta']['kind'], 'probes': case['meta']['probes'][:4]}
