"""C11 — data and fill directives emit exactly the bytes they describe.

Oracle: byte model of `.byte/.2byte/.4byte/.8byte` value lists, quoted strings with escapes, `.cstr/.asciiz`, embedded
strings, `.fill/.zero/.zerountil` (vf.model.layout.data_bytes + rules below), compared with the image at model addresses.
"""
from vf import core, isa as isamod
from vf.model import layout

LABELS = ['tbl_end', 'msg2', 'Zed', 'k_val', 'fwd_lab', 'B0', 'each', 'B101', 'bach']     # (the last four read almost like numbers)
ESCAPES = {'\\n': 10, '\\t': 9, '\\r': 13, '\\\\': 92, '\\x41': 0x41, '\\x7f': 0x7f, '\\x00': 0, '\\xfe': 0xfe}
PLAIN = [c for c in map(chr, range(32, 127)) if c not in '"\'\\']
WIDTH = {'.byte': 1, '.2byte': 2, '.4byte': 4, '.8byte': 8}


def lit(rng, v, compound=True):
    if v < 0:
        return ('-' if rng.random() < 0.6 else '0-') + lit(rng, -v, False)
    r = rng.random()
    if r < 0.4:
        return str(v)
    if r < 0.6:
        return '$' + format(v, 'x')
    if r < 0.7:
        return '0x' + format(v, 'X')
    if r < 0.8:
        return format(v, 'x').upper() + 'H' if format(v, 'x')[0].isdigit() else '0' + format(v, 'X') + 'H'
    if r < 0.9 and v < 1 << 20:
        return '%' + format(v, 'b')
    if v >= 3 and compound:
        k = rng.randrange(1, min(v, 50))
        return rng.choice([f'{v - k}+{k}', f'({v + k}-{k})', f'{v - k} + {k}'])
    return str(v)


def rand_value(rng, width, labels):
    bits = 8 * width
    r = rng.random()
    if r < 0.25:
        v = rng.choice([0, 1, (1 << bits) - 1, 1 << (bits - 1), 255, 256])
        return v, lit(rng, v), 'plain'
    if r < 0.4:
        v = -rng.choice([1, 2, 128, 129, 255, 256, (1 << (bits - 1)), rng.randrange(1, 1 << bits)])
        return v, lit(rng, v), 'negative'
    if r < 0.55:
        v = rng.choice([1 << bits, (1 << bits) + 1, (1 << bits) * 3 + 7, rng.randrange(1 << bits, 1 << (bits + 8))])
        return v, lit(rng, v), 'oversized'
    if r < 0.75 and labels:
        n = rng.choice(sorted(labels))
        k = rng.choice([0, 0, 1, 2, -1, 10])
        t = n if k == 0 else (f'{n}+{k}' if k > 0 else f'{n}-{-k}')
        return ('label', n, k), t, 'label'
    if r < 0.85:
        c = rng.choice(PLAIN + [',', ',', ' ', ';', ':'])
        if rng.random() < 0.3:
            # a character literal with an operator right behind it (every binary operator, with and without blanks)
            op, k = rng.choice([('+', 1), ('-', 1), ('*', 2), ('<<', 1), ('>>', 1), ('&', 0x5F), ('|', 0x20), ('^', 1), ('%', 7), ('/', 2)])
            v = {'+': ord(c) + k, '-': ord(c) - k, '*': ord(c) * k, '<<': ord(c) << k, '>>': ord(c) >> k, '&': ord(c) & k,
                 '|': ord(c) | k, '^': ord(c) ^ k, '%': ord(c) % k, '/': ord(c) // k}[op]
            sp = rng.choice(['', '', ' '])
            return v, f"'{c}'{sp}{op}{sp}{k}", 'char'
        return ord(c), f"'{c}'", 'char'
    v = rng.randrange(0, 1 << bits)
    return v, lit(rng, v), 'plain'


def rand_string(rng, quote):
    n = rng.choice([0, 1, 2, 5, 9, 17, 30])
    text = ''
    data = []
    tags = set()
    for _ in range(n):
        r = rng.random()
        if r < 0.2:
            e = rng.choice(sorted(ESCAPES))
            text += e
            data.append(ESCAPES[e])
            tags.add('escape:' + (e if not e.startswith('\\x') else '\\xHH'))
        elif r < 0.26:
            text += '\\' + quote
            data.append(ord(quote))
            tags.add('escape:quote')
        elif r < 0.3:
            other = "'" if quote == '"' else '"'
            text += other
            data.append(ord(other))
            tags.add('other-quote-inside')
        else:
            c = rng.choice(PLAIN)
            text += c
            data.append(ord(c))
    if n == 0:
        tags.add('string:empty')
    # "\0" is an octal escape: never let a digit follow a backslash-zero (none is generated), nothing to do
    return text, data, tags


class C11(core.Check):
    pid = 'C11'
    level = 'exploration'
    rule = ('programs of data / string / fill directives over value lists of 1..8 values (negative, >= 2^width, expressions, '
            'forward and backward labels, character literals), strings over printable ASCII with escapes, both quote kinds, '
            'terminators 0..255, embedded strings on/off, .fill n,v (n 0..40) / .zero n / .zerountil a for a around the '
            'cursor; both endiannesses; expected bytes from the byte model; compared with the image at model addresses. '
            'distinct_nontrivial = distinct (directive, endian, value-class multiset / escape set) signatures.')
    rule = rule + ' ' + '.fill values also refer to labels defined before and after the line.'
    assumptions = (
        'strings contain no ";" and no unescaped delimiting quote; multi-byte directives are not given strings; '
        'a backslash-zero is never followed by a digit (octal escape): those are DONT_CARE',
        'a value list whose first item is a quoted character is the string syntax (DONT_CARE when more items follow is NOT '
        'assumed: it is judged, under its own signature)',
    )
    chunk = 800
    required_buckets = {b: 3 for b in [
        '.byte/big', '.byte/little', '.2byte/big', '.2byte/little', '.4byte/big', '.4byte/little', '.8byte/big',
        '.8byte/little', 'value:negative', 'value:oversized', 'value:label', 'value:char', 'escape:\\n', 'escape:\\t',
        'escape:\\r', 'escape:\\\\', 'escape:\\xHH', 'escape:quote', 'other-quote-inside', 'quote:double', 'quote:single',
        'string:.byte', 'string:.cstr', 'string:.asciiz', 'string:embedded', 'string:empty', 'terminator:0',
        'terminator:nonzero', 'fill:count-0', 'fill:count-1', 'fill:count-many', 'fill:value-negative', 'fill:value->255', 'fill:value-forward-label', 'fill:value-backward-label', 'ends-on-the-last-address-of-its-zone', 'count:negative',
        'zero:count-0', 'zero:count-many', 'zerountil:below', 'zerountil:just-below', 'zerountil:at', 'zerountil:above',
        'zero-byte-under-nonzero-image-fill', 'value:char-first-in-list', 'value:char-comma', 'value:char-first-then-operator', 'same-text-two-local-scopes']}

    def build(self, rng, force=None, charfirst=False, fillopt=None, i_cf=0):
        endian = rng.choice(['big', 'little'])
        term = rng.choice([0, 0, 0, 10, 13, 255, rng.randrange(0, 256)])
        emb = rng.random() < 0.5
        obj = isamod.base_isa(address_size=16, endian=endian)
        if term or rng.random() < 0.3:
            obj['general']['cstr_terminator'] = term
        if emb or rng.random() < 0.2:
            obj['general']['allow_embedded_strings'] = emb
        start = rng.choice([0, 0, 3, 100, 64, 128, 61, 250])
        lines = [{'k': 'org', 'addr': start, 'zone_name': None, 'text': f'.org {start}'}]
        n = rng.randrange(4, 16) if not charfirst else 1
        label_names = list(LABELS)
        rng.shuffle(label_names)
        future = set(label_names[:3])
        for i in range(n):
            if future and rng.random() < 0.25:
                nm = sorted(future)[0]
                future.discard(nm)
                lines.append({'k': 'label', 'name': nm, 'text': nm + ':'})
            r = rng.random() if force is None else force[i % len(force)]
            if r < 0.4:
                d = rng.choice(sorted(WIDTH))
                w = WIDTH[d]
                cnt = rng.randrange(1, 9)
                vals, texts, cls = [], [], []
                extra_cls = set()
                if charfirst:
                    cnt = max(cnt, 2)
                for j in range(cnt):
                    v, t, c = rand_value(rng, w, set(label_names[:3]))
                    if charfirst and j == 0:
                        ch = rng.choice(PLAIN + [',', ','])
                        v, t, c = ord(ch), f"'{ch}'", 'char'
                        if i_cf % 2:
                            op, k = [('<<', 1), ('>>', 1), ('+', 1), ('-', 1), ('*', 2), ('&', 0x5F), ('|', 0x20), ('^', 1), ('%', 7), ('/', 2)][(i_cf // 2) % 10]
                            v = {'+': ord(ch) + k, '-': ord(ch) - k, '*': ord(ch) * k, '<<': ord(ch) << k, '>>': ord(ch) >> k, '&': ord(ch) & k,
                                 '|': ord(ch) | k, '^': ord(ch) ^ k, '%': ord(ch) % k, '/': ord(ch) // k}[op]
                            t = f"'{ch}'{op}{k}"
                            extra_cls.add('char-first-then-operator')
                    if c == 'char' and t == "','":
                        extra_cls.add('char-comma')
                    if c == 'char' and j == 0 and cnt > 1:
                        c = 'char-first-in-list'
                    vals.append(v)
                    texts.append(t)
                    cls.append(c)
                sep = rng.choice([', ', ',', ' , ', ',  '])
                lines.append({'k': 'data', 'width': w, 'vals': vals, 'endian': endian, 'cls': cls,
                              'text': d + rng.choice([' ', '  ', '\t']) + sep.join(texts),
                              'tags': [f'{d}/{endian}'] + ['value:' + c for c in set(cls) | extra_cls], 'sigk': d})
            elif r < 0.65:
                d = rng.choice(['.byte', '.cstr', '.asciiz', 'embedded' if emb else '.cstr'])
                q = '"' if d == 'embedded' else rng.choice(['"', "'"])
                text, data, tags = rand_string(rng, q)
                if d != '.byte':
                    data = data + [term]
                    tags.add('terminator:' + ('0' if term == 0 else 'nonzero'))
                src = f'{q}{text}{q}' if d == 'embedded' else f'{d} {q}{text}{q}'
                lines.append({'k': 'bytes', 'bytes': bytes(data).hex(), 'text': src,
                              'tags': [f'string:{d}', 'quote:' + ('double' if q == '"' else 'single')] + sorted(tags),
                              'sigk': 'string:' + d})
            elif r < 0.8:
                cnt = rng.choice([0, 1, 2, 3, 7, 40, rng.randrange(0, 41)])
                v = rng.choice([0, 1, 255, 256, -1, -300, 1000, 0x1234, rng.randrange(-500, 1000)])
                if rng.random() < 0.3:
                    # the value may be any expression, also one over a label that is defined further down
                    nm_ = rng.choice(label_names[:3])
                    k_ = rng.choice([0, 0, 1, 0x1F1])
                    form_ = rng.choice(['{n}', 'LSB({n})', 'BYTE0({n})', '{n}+{k}', '({n}+{k})'])
                    if '{k}' not in form_:
                        k_ = 0
                    lines.append({'k': 'fill', 'n': cnt, 'v': ('label', nm_, k_),
                                  'text': f'.fill {lit(rng, cnt)}{rng.choice([",", ", ", " , "])}' + form_.replace('{n}', nm_).replace('{k}', lit(rng, k_)),
                                  'tags': ['fill:count-' + ('0' if cnt == 0 else '1' if cnt == 1 else 'many'), 'fill:value-label'], 'sigk': 'fill'})
                    continue
                lines.append({'k': 'fill', 'n': cnt, 'v': v, 'text': f'.fill {lit(rng, cnt)}{rng.choice([",", ", ", " , "])}{lit(rng, v)}',
                              'tags': ['fill:count-' + ('0' if cnt == 0 else '1' if cnt == 1 else 'many'),
                                       'fill:value-' + ('negative' if v < 0 else '>255' if v > 255 else 'byte')], 'sigk': 'fill'})
            elif r < 0.9:
                cnt = rng.choice([0, 1, 2, 9, rng.randrange(0, 41)])
                lines.append({'k': 'zero', 'n': cnt, 'text': f'.zero {lit(rng, cnt)}',
                              'tags': ['zero:count-' + ('0' if cnt == 0 else '1' if cnt == 1 else 'many')], 'sigk': 'zero'})
            else:
                lines.append({'k': 'zerountil', 'rel': rng.choice([-2, -1, 0, 1, 2, 3, 17]), 'text': None, 'sigk': 'zerountil'})
        if not charfirst and rng.random() < 0.5:
            # the same value text in two places where it means two things: a local label of two regions, a file label
            w_ = rng.choice([1, 2, 4])
            d_ = {1: '.byte', 2: '.2byte', 4: '.4byte'}[w_]
            for reg_ in ('A', 'B'):
                lines.append({'k': 'label', 'name': f'c11_reg{reg_}', 'text': f'c11_reg{reg_}:'})
                lines.append({'k': 'data', 'width': w_, 'vals': [('label', f'.here@{reg_}', 0), ('label', f'.here@{reg_}', 1)], 'endian': endian,
                              'cls': ['label', 'label'], 'text': f'{d_} .here, .here+1',
                              'tags': [f'{d_}/{endian}', 'value:label', 'same-text-two-local-scopes'], 'sigk': d_})
                lines.append({'k': 'fill', 'n': 1 if reg_ == 'A' else 3, 'v': 0x77, 'text': '.fill ' + ('1' if reg_ == 'A' else '3') + ', $77',
                              'tags': [], 'sigk': 'fill'})
                lines.append({'k': 'label', 'name': f'.here@{reg_}', 'text': '.here:'})
                lines.append({'k': 'zero', 'n': 1, 'text': '.zero 1', 'tags': [], 'sigk': 'zero'})
        for nm in sorted(future):
            lines.append({'k': 'label', 'name': nm, 'text': nm + ':'})
        lines.append({'k': 'data', 'width': 1, 'vals': [0xEE], 'endian': endian, 'cls': ['plain'], 'text': '.byte $EE',
                      'tags': [], 'sigk': 'sentinel'})
        # layout (zerountil targets are relative to the cursor; resolve them now)
        cur = start
        for ln in lines:
            if ln['k'] == 'zerountil':
                a = cur + ln['rel']
                if a < 0:
                    a = 0
                ln['a'] = a
                ln['text'] = f'.zerountil {lit(rng, a)}'
                ln['tags'] = ['zerountil:' + ('below' if ln['rel'] < -1 else 'just-below' if ln['rel'] == -1 else
                                             'at' if ln['rel'] == 0 else 'above')]
                cur += max(0, a - cur + 1)
            elif ln['k'] == 'data':
                cur += ln['width'] * len(ln['vals'])
            elif ln['k'] == 'bytes':
                cur += len(ln['bytes']) // 2
            elif ln['k'] in ('fill', 'zero'):
                cur += ln['n']
        res = layout.layout(lines, 16, origin=0, size_of=lambda l, a: (l['width'] * len(l['vals']) if l['k'] == 'data'
                                                                       else len(l['bytes']) // 2))
        labels = {l['name']: l['addr'] for l in lines if l['k'] == 'label'}

        def bytes_of(l):
            if l['k'] == 'data':
                vals = [(labels[v[1]] + v[2]) if isinstance(v, tuple) else v for v in l['vals']]
                return layout.data_bytes(l['width'], vals, l['endian'])
            if l['k'] == 'bytes':
                return bytes.fromhex(l['bytes'])
            if l['k'] == 'fill':
                v_ = (labels[l['v'][1]] + l['v'][2]) if isinstance(l['v'], tuple) else l['v']
                return bytes([v_ & 0xFF]) * l['size']
            return bytes(l['size'])
        layout.memory_map(res, bytes_of)
        pos_ = {l['name']: i_ for i_, l in enumerate(lines) if l['k'] == 'label'}
        for i_, l in enumerate(lines):
            if l['k'] == 'fill' and isinstance(l['v'], tuple):
                l['tags'].append('fill:value-forward-label' if pos_[l['v'][1]] > i_ else 'fill:value-backward-label')
                l['v'] = list(l['v'])
        for l in lines:
            if isinstance(l.get('vals'), list):
                l['vals'] = [list(v) if isinstance(v, tuple) else v for v in l['vals']]
        fmt = 'yaml' if rng.random() < 0.1 else 'json'
        fn, text = isamod.render_isa(obj, fmt)
        src = ''.join(l['text'] + '\n' for l in lines)
        # the gap-fill value of the image is for addresses nothing was assembled to: never for an emitted zero byte
        if fillopt is None:
            fillopt = rng.choice([None, None, None, 0, 255, 0xA5, 1])
        argv = ['compile', '-c', fn, 'p.asm', '-o', 'out.bin']
        if fillopt is not None and fillopt >= 0:
            argv += [rng.choice(['-f', '--binary-fill']), str(fillopt)]
        return {'runs': [{'files': {fn: text, 'p.asm': src}, 'argv': argv,
                          'probes': ['steps', 'sizes'], 'step_limit': 2_000_000}],
                'meta': {'start': start, 'fill': fillopt if fillopt is not None and fillopt >= 0 else 0, 'lines': [{k: v for k, v in l.items() if k in ('k', 'text', 'addr', 'size', 'bytes', 'tags', 'cls', 'sigk')}
                                   for l in lines], 'endian': endian, 'kind': res.kind},
                'tags': []}

    def cases(self, tier, seed):
        n_pre = 300
        n = 500 if tier == 'quick' else 10000
        for i in range(n_pre + n):
            rng = core.rng_for(0 if i < n_pre else seed, self.pid, i)
            force = None
            if i < n_pre:
                force = [[0.1], [0.5], [0.7], [0.85], [0.95], None][i % 6]
            yield self.build(rng, force, fillopt=[-1, 255, -1, 0xA5][(i // 6) % 4] if i < n_pre else None)
        # a fill / zero run / data line whose last byte is the last byte of its zone (the whole address space, a predefined
        # zone, a zone created in source): it fits
        for ab, zone_, top_ in ((8, None, 0xFF), (12, None, 0xFFF), (16, ('ZE', 0x40, 0x4F), 0x4F), (16, ('create', 0x80, 0x83), 0x83)):
            for d_txt, n_, bts in (('.fill {n}, $A5', 16, b'\xa5' * 16), ('.zero {n}', 3, b'\0' * 3), ('.fill {n}, 7', 1, b'\x07'),
                                   ('.byte 1, 2, 3, 4', 4, bytes([1, 2, 3, 4])), ('.zerountil {top}', 2, b'\0\0'), ('.cstr "ab"', 3, b'ab\0')):
                if zone_ and n_ > zone_[2] - zone_[1] + 1:
                    continue
                obj = isamod.base_isa(address_size=ab, endian='big')
                head = []
                if zone_ and zone_[0] == 'ZE':
                    obj['predefined'] = {'memory_zones': [{'name': 'ZE', 'start': zone_[1], 'end': zone_[2]}]}
                    head = ['.memzone ZE']
                elif zone_:
                    head = [f'#create_memzone ZC ${zone_[1]:x} ${zone_[2]:x}', '.memzone ZC']
                a0 = top_ - n_ + 1
                base_ = zone_[1] if zone_ else 0
                org_ = f'.org {a0 - base_}' + (f' "{"ZE" if zone_[0] == "ZE" else "ZC"}"' if zone_ else '')
                text_ = d_txt.format(n=n_, top=top_)
                fn, text = isamod.render_isa(obj, 'json')
                src = '\n'.join(head + [org_, text_]) + '\n'
                yield {'runs': [{'files': {fn: text, 'p.asm': src}, 'argv': ['compile', '-c', fn, 'p.asm', '-o', 'out.bin', '-s', str(max(0, a0 - 2))],
                                 'probes': ['steps', 'sizes'], 'step_limit': 2_000_000}],
                       'meta': {'start': 0, 'fill': 0, 'endian': 'big', 'kind': 'ACCEPT',
                                'lines': [{'k': 'fill', 'text': text_, 'addr': a0 - max(0, a0 - 2), 'size': n_, 'bytes': bts.hex(),
                                           'tags': ['ends-on-the-last-address-of-its-zone', 'count:negative', 'ends-on-the-last-address-of:' + (zone_[0] if zone_ else f'{ab}-bit-space')],
                                           'sigk': text_.split()[0]}]},
                       'tags': []}
        # counts and targets worked out from address labels defined further up
        for k_, (src_l, img) in enumerate([
                (['.org 0', 'tbl: .byte 1, 2, 3', 'tbl_end:', '.fill 8-(tbl_end-tbl), $1EE', 'buf: .zerountil buf+3', '.zero tbl_end - tbl', '.byte $7F'], '010203eeeeeeeeee000000000000007f'),
                (['.org 0', 'a_l:', '.byte 9', 'b_l:', '.fill b_l - a_l + 1, 5', '.zerountil b_l + 4', '.byte $7F'], '0905050000007f'),
                (['.org 0', '.byte 1', 'here_l:', '.zero here_l', '.fill here_l * 2, here_l + 6', '.byte $7F'], '01000707' + '7f')]):
            obj = isamod.base_isa(address_size=16, endian='big')
            fn, text = isamod.render_isa(obj, 'json')
            bts = bytes.fromhex(img)
            yield {'runs': [{'files': {fn: text, 'p.asm': '\n'.join(src_l) + '\n'}, 'argv': ['compile', '-c', fn, 'p.asm', '-o', 'out.bin'],
                             'probes': ['steps', 'sizes'], 'step_limit': 2_000_000}],
                   'meta': {'start': 0, 'fill': 0, 'endian': 'big', 'kind': 'ACCEPT',
                            'lines': [{'k': 'bytes', 'text': ' / '.join(src_l), 'addr': 0, 'size': len(bts), 'bytes': bts.hex(),
                                       'tags': ['count-or-target-from-a-label-defined-further-up'], 'sigk': 'fill'}]},
                   'tags': []}
        # a label in front of a string whose text holds that label's name and a colon: the text is text
        for k_, (text_, bts) in enumerate([('x: .cstr "max: 5"', b'max: 5\0'), ('m: .byte "hm: ok"', b'hm: ok'), ('lab_q: .asciiz "lab_q: again lab_q:"', b'lab_q: again lab_q:\0'),
                                           ('x: .cstr \'x: x:x: \'', b'x: x:x: \0'), ('m: "hm: m:"', b'hm: m:\0'), ('a: b: .cstr "a: b: a:b:"', b'a: b: a:b:\0')]):
            obj = isamod.base_isa(address_size=16, endian='big')
            obj['general']['allow_embedded_strings'] = True
            fn, text = isamod.render_isa(obj, 'json')
            yield {'runs': [{'files': {fn: text, 'p.asm': text_ + '\n.byte $EE\n'}, 'argv': ['compile', '-c', fn, 'p.asm', '-o', 'out.bin'],
                             'probes': ['steps', 'sizes'], 'step_limit': 2_000_000}],
                   'meta': {'start': 0, 'fill': 0, 'endian': 'big', 'kind': 'ACCEPT',
                            'lines': [{'k': 'bytes', 'text': text_, 'addr': 0, 'size': len(bts), 'bytes': bts.hex(),
                                       'tags': ['string:holds-the-name-of-the-label-in-front-of-it'], 'sigk': 'string'},
                                      {'k': 'data', 'text': '.byte $EE', 'addr': len(bts), 'size': 1, 'bytes': 'ee', 'tags': [], 'sigk': '.byte'}]},
                   'tags': []}
        for body in (['.org 8', '.byte 1', '.org 40', '.fill 0-5, 0', 'c11_after:', '.byte c11_after'], ['.byte 1, 2, 3', '.fill -2, 0', '.byte 9'],
                     ['.org 20', '.zero 0-1', '.byte 9'], ['C11_K = 3 - 7', '.org 30', '.zero C11_K', '.byte 1'], ['.org 30', '.fill 2-3, $55']):
            obj = isamod.base_isa(address_size=16, endian='big')
            fn, text = isamod.render_isa(obj, 'json')
            yield {'runs': [{'files': {fn: text, 'p.asm': '\n'.join(body) + '\n'}, 'argv': ['compile', '-c', fn, 'p.asm', '-o', 'out.bin'],
                             'probes': ['steps'], 'step_limit': 2_000_000}],
                   'meta': {'start': 0, 'fill': 0, 'endian': 'big', 'kind': 'REJECT-NEGATIVE-COUNT', 'lines': []}, 'tags': []}
        # a list whose first item is a quoted character: dedicated one-line programs (the data-line grammar reads the
        # text between the first and the last quote as a string)
        for i in range(40 if tier == 'quick' else 400):
            rng = core.rng_for(0 if i < 20 else seed, self.pid, 'charfirst', i)
            c = self.build(rng, [0.1], charfirst=True, i_cf=i)
            c['tags'] = ['charfirst-program']
            yield c

    def judge(self, case, outcomes):
        o = outcomes[0]
        m = case['meta']
        if o.get('timed_out'):
            return [core.violated('termination:' + str(o['timed_out']), {'probe': (o.get('probes') or {}).get('steps')})]
        if m['kind'] not in ('ACCEPT', 'REJECT-NEGATIVE-COUNT'):
            return [core.dont_care(m['kind'])]
        img = (o.get('files') or {}).get('out.bin')
        if m['kind'] == 'REJECT-NEGATIVE-COUNT':
            # -n copies of a byte cannot be emitted, and a line of negative extent would move the lines behind it backwards
            if o.get('exit') == 0:
                return [core.violated('negative-count-accepted', {'source': case['runs'][0]['files']['p.asm'][:400], 'image': (img or '')[:80]},
                                      buckets=['count:negative'])]
            return [core.held(buckets=['count:negative'])]
        cf = [l for l in m['lines'] if 'char-first-in-list' in (l.get('cls') or [])]
        if cf:
            # defect emulation for the listed finding: the text between the first and the last single quote is one string
            l = cf[0]
            body = l['text'].split(None, 1)[1]
            inner, rest = body[1:body.rindex("'")], body[body.rindex("'") + 1:]
            w = WIDTH[l['text'].split(None, 1)[0]]
            if rest.strip() == '':
                emu = layout.data_bytes(w, [ord(c) for c in bytes(inner, 'utf-8').decode('unicode_escape')], m['endian'])
                ok = o.get('exit') == 0 and img is not None and \
                    bytes.fromhex(img)[l['addr']:l['addr'] + len(emu)] == emu
            else:
                ok = o.get('exit') not in (0, None) and 'unknown instruction' in (o.get('stderr') or '')
            if ok:
                return [core.violated('bytes-differ/char-literal-list-read-as-string',
                                      {'exit': o.get('exit'), 'stderr': (o.get('stderr') or '')[-300:], 'text': l['text']},
                                      mech='char-list-read-as-string', buckets=['value:char-first-in-list'])]
        if o.get('exit') != 0 or img is None:
            return [core.violated('valid-program-rejected', {'exit': o.get('exit'), 'stderr': (o.get('stderr') or '')[-500:],
                                                             'source': case['runs'][0]['files']['p.asm'][:800]})]
        data = bytes.fromhex(img)
        vs = []
        mm = ((o.get('probes') or {}).get('sizes') or {}).get('mismatch')
        if mm:
            vs.append(core.violated('reserved!=emitted', {'mismatch': mm[:3]}))
        fb = m.get('fill', 0)
        if m.get('start', 0) > 0:
            gap = data[:m['start']]
            if gap != bytes([fb]) * m['start']:
                vs.append(core.violated('gap-below-first-line-not-the-fill-value', {'fill': fb, 'got': gap.hex()[:80]}))
        opt = 'image-fill:' + ('nonzero' if fb else 'zero')
        for l in m['lines']:
            if l['k'] not in ('data', 'bytes', 'fill', 'zero', 'zerountil') or l.get('sigk') == 'sentinel':
                continue
            if l['size'] and fb and '00' in [l['bytes'][i:i + 2] for i in range(0, len(l['bytes']), 2)]:
                l['tags'] = list(l.get('tags', [])) + ['zero-byte-under-nonzero-image-fill']
            got = data[l['addr']:l['addr'] + l['size']].hex()
            nt = l['sigk'] + '|' + ','.join(sorted(t for t in l.get('tags', []) if not t.startswith('.')))
            if got == l['bytes']:
                vs.append(core.held(buckets=l.get('tags', ()), nt=nt))
            else:
                mech = None
                sig = 'bytes-differ/' + l['sigk']
                if 'char-first-in-list' in (l.get('cls') or []):
                    sig = 'bytes-differ/char-literal-list-read-as-string'
                    mech = 'char-list-read-as-string'
                vs.append(core.violated(sig, {'text': l['text'], 'addr': l['addr'], 'expected': l['bytes'], 'got': got},
                                        mech=mech, buckets=l.get('tags', ()), nt=nt))
                break
        return vs

    def sample_of(self, case, outcomes):
        return {'source': case['runs'][0]['files']['p.asm'][:900],
                'expected': [{'text': l['text'], 'addr': l['addr'], 'bytes': l['bytes']} for l in case['meta']['lines']
                             if l['k'] in ('data', 'bytes', 'fill', 'zero', 'zerountil')][:5]}
