"""C12 — configured operand value constraints are enforced, not silently bypassed.

Oracle: boundary-value model — for every constraint kind the values on and next to each boundary; accept iff every
constraint holds (vf.model.encode raises Reject otherwise); on accept the bytes are the C01 encoding.
One statement per run, so a rejection is attributable.
"""
import copy
from vf import core, isa as isamod
from vf.model import encode, layout


def lit(v):
    return str(v) if v >= 0 else f'-{-v}'


def mk_isa(conf, addr_bits=16, endian='big', zones=None, gz=None, origin=None, opcode_bits=8):
    isa = {'description': 'C12', 'general': {'address_size': addr_bits, 'endian': endian, 'registers': ['a', 'sp'],
                                            'identifier': {'name': 'vfc12', 'version': '1.0.0'}},
           'operand_sets': {'s': {'operand_values': {'o': conf}}},
           'instructions': {'tst': {'bytecode': {'value': (1 << opcode_bits) - 3 if opcode_bits > 1 else 1, 'size': opcode_bits},
                                    'operands': {'count': 1, 'operand_sets': {'list': ['s']}}}}}
    # the same statement as the second step of a two-step macro: its constraints are those of its own address (macro + 1)
    isa['instructions']['pad'] = {'bytecode': {'value': 0x5A, 'size': 8}}
    isa['macros'] = {'mtst': [{'operands': {'count': 1, 'operand_sets': {'list': ['s']}}, 'instructions': ['pad', 'tst @OP(0)']}]}
    pz = []
    if gz:
        pz.append({'name': 'GLOBAL', 'start': gz[0], 'end': gz[1]})
        if origin is not None:
            isa['general']['origin'] = origin
    pz += zones or []
    if pz:
        isa['predefined'] = {'memory_zones': pz}
    return isa


class C12(core.Check):
    pid = 'C12'
    level = 'exploration'
    rule = ('for each constraint kind, the values on and adjacent to every boundary: numeric_bytecode and relative_address '
            'min-1/min/max/max+1 (offset from start and from the last byte), numeric_enumeration members / neighbours / '
            'negative, address and valid_address operands at zone start-1/start/end/end+1 for GLOBAL, a redefined GLOBAL and a '
            'named zone, sliced addresses just across a 2^k boundary, and every field width 1..64 with 2^w-1, 2^w, -2^(w-1), '
            '-2^(w-1)-1 for numeric arguments (aligned / packed), numeric_bytecode codes, indirect-register offsets and '
            'relative offsets. accept iff all constraints hold; accepted bytes must equal the reference encoding. '
            'distinct_nontrivial = distinct (constraint kind, boundary position, width class) tuples.')
    rule = rule + ' ' + 'A fifth of the cases run again with -n and with -n -p (no image asked for).'
    assumptions = ('a field of n bits accepts -2^(n-1) <= v < 2^n ("signed-or-unsigned range")',
                   'sliced addresses are configured with match_address_msb (slice_lsb alone is not constrained by the statement)')
    chunk = 1500
    crosscheck_every = {'quick': 60, 'thorough': 60}
    required_buckets = {b: 3 for b in [
        'kind:numeric_bytecode', 'kind:relative_address', 'kind:numeric_enumeration', 'numeric-enumeration:negative-member', 'numeric-enumeration:two-tables-with-different-keys', 'kind:address', 'kind:valid_address',
        'kind:sliced-address', 'kind:width/numeric-arg', 'kind:width/numeric_bytecode', 'kind:width/indirect-offset',
        'kind:width/relative-offset', 'pos:min-1', 'pos:min', 'pos:max', 'pos:max+1', 'pos:start-1', 'pos:start', 'pos:end',
        'pos:end+1', 'pos:member', 'pos:neighbour', 'pos:negative', 'pos:umax', 'pos:umax+1', 'pos:smin', 'pos:smin-1',
        'pos:page-last', 'pos:next-page-first', 'pos:prev-page-last', 'zone:GLOBAL', 'zone:redefined-GLOBAL', 'zone:named',
        'rel:from-end', 'rel:from-start', 'slice:same-page', 'slice:other-page', 'w:non-byte-multiple', 'w:byte-multiple',
        'expect:ACCEPT', 'expect:REJECT', 'muted-statement', 'second-step-of-a-macro', 'value-as-expression',
        'kind:valid_address/indirect_numeric', 'kind:valid_address/deferred_numeric', 'output:none', 'output:none+listing',
        'kind:sliced-address/zone-ends-inside-the-page', 'kind:sliced-address/narrow-slice', 'numeric-keys-in:json', 'numeric-keys-in:yaml',
        'kind:relative_address/one-bound-only', 'kind:index-code-of-an-indexed-register',
        'kind:relative_address/target-across-most-of-the-address-space']}

    def one(self, conf, text, op, addr, tags, addr_bits=16, endian='big', zones=None, gz=None, origin=None, opcode_bits=8,
            fmt='json', prelude=''):
        isa = mk_isa(conf, addr_bits, endian, zones, gz, origin, opcode_bits)
        zt = {k: tuple(v) for k, v in layout.zone_table(addr_bits, (isa.get('predefined') or {}).get('memory_zones')).items()}
        stmt = {'mn': 'tst', 'variant': 0, 'spec': None, 'ops': [op]}
        try:
            b, fl = encode.encode(isa, stmt, addr, zt)
            exp = {'kind': 'ACCEPT', 'bytes': b.hex()}
        except encode.Reject as e:
            exp = {'kind': 'REJECT', 'why': str(e)}
        except encode.DontCare as e:
            exp = {'kind': 'DONT_CARE', 'why': str(e)}
        macro_exp = None
        if addr + 1 + 8 < (1 << addr_bits):
            try:
                b2, _ = encode.encode(isa, stmt, addr + 1, zt)
                macro_exp = {'kind': 'ACCEPT', 'bytes': '5a' + b2.hex()}
            except encode.Reject as e:
                macro_exp = {'kind': 'REJECT', 'why': str(e)}
            except encode.DontCare as e:
                macro_exp = {'kind': 'DONT_CARE', 'why': str(e)}
        if encode.needs_yaml_keys(conf) if hasattr(encode, 'needs_yaml_keys') else _int_keys(conf):
            # numeric keys: numbers in YAML, strings in JSON (the only way JSON can write them) - every other case each
            self._nk = getattr(self, '_nk', 0) + 1
            fmt = 'yaml' if self._nk % 2 else 'json'
            tags = list(tags) + ['numeric-keys-in:' + fmt]
        fn, itext = isamod.render_isa(isa, fmt)
        src = f'{prelude}.org {addr}\ntst {text}\n.byte $EE\n'
        end = addr + 40
        return {'runs': [{'files': {fn: itext, 'p.asm': src},
                          'argv': ['compile', '-c', fn, 'p.asm', '-o', 'out.bin', '-s', str(addr), '-e', str(min(end, (1 << addr_bits) - 1))],
                          'probes': ['steps'], 'step_limit': 300000}],
                'meta': {'exp': exp, 'text': text, 'addr': addr, 'conf': conf, 'macro_exp': macro_exp, 'prelude': prelude}, 'tags': sorted(set(tags) | {'expect:' + exp['kind']})}

    def width_cases(self, widths):
        for w in widths:
            wc = 'w:' + ('byte-multiple' if w % 8 == 0 else 'non-byte-multiple')
            vals = [((1 << w) - 1, 'umax'), (1 << w, 'umax+1'), (-(1 << (w - 1)), 'smin'), (-(1 << (w - 1)) - 1, 'smin-1'),
                    (0, 'zero'), ((1 << w) + 5, 'over'), (1 << (8 * ((w + 7) // 8)), 'byte-ceiling')]
            for v, pos in vals:
                for al in (True, False):
                    for en in ('big', 'little'):
                        conf = {'type': 'numeric', 'argument': {'size': w, 'byte_align': al, 'endian': en}}
                        yield self.one(conf, lit(v), {'id': 'o', 'val': v}, 0,
                                       ['kind:width/numeric-arg', 'pos:' + pos, wc, 'aligned' if al else 'packed'],
                                       opcode_bits=8 if al else 5)
                # operand code through numeric_bytecode with wide-open min/max: only the width constrains
                conf = {'type': 'numeric_bytecode', 'bytecode': {'size': w, 'min': -(1 << 70), 'max': 1 << 70}}
                yield self.one(conf, lit(v), {'id': 'o', 'val': v}, 0, ['kind:width/numeric_bytecode', 'pos:' + pos, wc], opcode_bits=3)
                conf = {'type': 'indirect_register', 'register': 'sp', 'bytecode': {'value': 1, 'size': 2},
                        'offset': {'size': w, 'byte_align': False}}
                t = f'[sp+{v}]' if v >= 0 else f'[sp-{-v}]'
                yield self.one(conf, t, {'id': 'o', 'val': v}, 0, ['kind:width/indirect-offset', 'pos:' + pos, wc])
            if w <= 15:
                # relative offset without min/max: only the width constrains.  addr chosen so every target is in GLOBAL
                addr = 1 << 15
                for off, pos in [((1 << w) - 1, 'umax'), (1 << w, 'umax+1'), (-(1 << (w - 1)), 'smin'), (-(1 << (w - 1)) - 1, 'smin-1')]:
                    conf = {'type': 'relative_address', 'argument': {'size': w, 'byte_align': True}}
                    yield self.one(conf, str(addr + off), {'id': 'o', 'val': addr + off}, addr,
                                   ['kind:width/relative-offset', 'pos:' + pos, wc])

    def directed(self):
        # numeric_bytecode min / max
        # (bounds of exactly 0, negative bounds, and a one-value range included: 0 is a bound like any other)
        for (lo, hi, size) in [(0, 7, 3), (1, 6, 3), (2, 2, 4), (0, 255, 8), (3, 1000, 12), (0, 1, 1), (-4, 0, 3), (0, 0, 2), (-3, -1, 3),
                               (-8, 0, 4), (0, 3, 4)]:
            for v, pos in [(lo - 1, 'min-1'), (lo, 'min'), (hi, 'max'), (hi + 1, 'max+1'), (hi + 2, 'max+1'), (lo - 2, 'min-1')]:
                conf = {'type': 'numeric_bytecode', 'bytecode': {'size': size, 'min': lo, 'max': hi}}
                yield self.one(conf, lit(v), {'id': 'o', 'val': v}, 0, ['kind:numeric_bytecode', 'pos:' + pos])
        # relative_address min / max, from start and from the last byte, curly and plain
        for (lo, hi, size) in [(-128, 127, 8), (-5, 9, 8), (0, 15, 4), (-8, 7, 4), (-100, 100, 16), (1, 3, 8), (-6, 0, 8), (0, 0, 8), (-9, -2, 8)]:
            for from_end in (False, True):
                for curly in (False, True):
                    conf = {'type': 'relative_address', 'argument': {'size': size, 'byte_align': True, 'min': lo, 'max': hi}}
                    if from_end:
                        conf['offset_from_instruction_end'] = True
                    if curly:
                        conf['use_curly_braces'] = True
                    addr = 300
                    isz = 1 + (size + 7) // 8
                    adj = (isz - 1) if from_end else 0
                    for off, pos in [(lo - 1, 'min-1'), (lo, 'min'), (hi, 'max'), (hi + 1, 'max+1')]:
                        tgt = addr + adj + off
                        t = ('{%d}' % tgt) if curly else str(tgt)
                        yield self.one(conf, t, {'id': 'o', 'val': tgt}, addr,
                                       ['kind:relative_address', 'pos:' + pos, 'rel:from-' + ('end' if from_end else 'start')])
        # the index of an (indirect) indexed register given by a numeric_bytecode: min / max and the width of the index code
        # field both hold there as they do for a top-level operand (the register's code next to it is not to be overwritten)
        for typ, fmt_ in (('indexed_register', 'sp+{}'), ('indirect_indexed_register', '[sp+{}]')):
            for (lo, hi, size) in [(-8, 8, 3), (0, 7, 3), (-4, 3, 3), (-2, 1, 4), (0, 20, 4), (-1, 0, 1)]:
                conf = {'type': typ, 'register': 'sp', 'bytecode': {'value': 5, 'size': 3},
                        'index_operands': {'nb': {'type': 'numeric_bytecode', 'bytecode': {'size': size, 'min': lo, 'max': hi}}}}
                umax, smin = (1 << size) - 1, -(1 << (size - 1))
                for v, pos in [(lo - 1, 'min-1'), (lo, 'min'), (hi, 'max'), (hi + 1, 'max+1'), (umax, 'umax'), (umax + 1, 'umax+1'),
                               (smin, 'smin'), (smin - 1, 'smin-1'), (-1, 'negative'), (0, 'zero')]:
                    # (the index is written as one word: a literal, or a constant for a negative value)
                    t_ = fmt_.format(v if v >= 0 else 'C12_NEG')
                    yield self.one(conf, t_, {'id': 'o', 'index': {'id': 'nb', 'val': v}}, 0,
                                   ['kind:numeric_bytecode', 'kind:index-code-of-an-indexed-register', 'pos:' + pos],
                                   prelude='' if v >= 0 else f'C12_NEG = 0 - {-v}\n')
        # a relative target most of the address space away: the offset is target minus address, not the short way round
        for ab, size, lohi in ((8, 8, (-128, 127)), (8, 8, None), (16, 16, (-32768, 32767)), (16, 8, (-128, 127)), (12, 12, None), (16, 16, None)):
            top = (1 << ab) - 1
            for addr, tgt in ((top - 15, 5), (5, top - 10), (top - 1, 0), (0, top), (top // 2 + 2, 1), (2, top // 2 + 2)):
                conf = {'type': 'relative_address', 'argument': {'size': size, 'byte_align': True}}
                if lohi:
                    conf['argument'].update({'min': lohi[0], 'max': lohi[1]})
                if addr + 4 > top:
                    continue
                yield self.one(conf, str(tgt), {'id': 'o', 'val': tgt}, addr,
                               ['kind:relative_address', 'kind:relative_address/target-across-most-of-the-address-space',
                                'pos:' + ('far-below' if tgt < addr else 'far-above'), 'rel:from-start'], addr_bits=ab)
        # relative_address with one bound only: that bound holds, the other side is limited by the field width alone
        for (bound, val, size) in [('max', 100, 8), ('max', 0, 8), ('max', -3, 8), ('min', -10, 8), ('min', 0, 8), ('min', 5, 8), ('max', 7, 4),
                                   ('min', -2, 4)]:
            for from_end in (False, True):
                conf = {'type': 'relative_address', 'argument': {'size': size, 'byte_align': True, bound: val}}
                if from_end:
                    conf['offset_from_instruction_end'] = True
                addr = 300
                adj = (1 + (size + 7) // 8 - 1) if from_end else 0
                far = ((1 << size) - 1) if bound == 'max' else -(1 << (size - 1))
                for off, pos in [(val - 1, 'min-1' if bound == 'min' else 'inside'), (val, bound), (val + 1, 'max+1' if bound == 'max' else 'inside'),
                                 (far, 'max+1' if bound == 'max' else 'min-1'), ((val + far) // 2, 'max+1' if bound == 'max' else 'min-1')]:
                    tgt = addr + adj + off
                    yield self.one(conf, str(tgt), {'id': 'o', 'val': tgt}, addr,
                                   ['kind:relative_address', 'kind:relative_address/one-bound-only', 'pos:' + pos,
                                    'rel:from-' + ('end' if from_end else 'start')])
        # numeric_enumeration membership
        for members in ([1, 2, 4, 8], [0, 3], [5, 6, 7, 31], [-2, -1, 0, 1, 2], [-100, 5]):
            bd = {m: i for i, m in enumerate(members)}
            for where in ('bytecode', 'argument'):
                conf = {'type': 'numeric_enumeration'}
                if where == 'bytecode':
                    conf['bytecode'] = {'size': 3, 'value_dict': dict(bd)}
                else:
                    conf['argument'] = {'size': 8, 'byte_align': True, 'value_dict': dict(bd)}
                cands = set(members) | {m + 1 for m in members} | {m - 1 for m in members} | {-1, -abs(members[0]) - 1, 100}
                for v in sorted(cands):
                    pos = 'member' if v in members else ('negative' if v < 0 else 'neighbour')
                    yield self.one(conf, lit(v), {'id': 'o', 'val': v}, 0, ['kind:numeric_enumeration', 'pos:' + pos] +
                                   (['numeric-enumeration:negative-member'] if v < 0 and v in members else []))
                    if v >= 0:
                        # the same value written as an expression with each operator (membership is about the value)
                        forms = [f'{v}*1', f'{2 * v}/2', f'{v}<<0', f'{4 * v}>>2', f'{v}&$FFFF', f'{v}|0', f'{v}^0', f'({v})', f'{v + 3}-3', f'1+{v}-1',
                                 f'{v} * 1', f'{v} | 0']
                        k_ = (v + len(members)) % len(forms)
                        for t_ in (forms[k_], forms[(k_ + 5) % len(forms)]):
                            yield self.one(conf, t_, {'id': 'o', 'val': v}, 0, ['kind:numeric_enumeration', 'pos:' + pos, 'value-as-expression'])
        # a numeric enumeration with two tables of different key sets: a member is a value that both tables hold
        for bkeys, akeys in (([1, 2, 4], [1, 2]), ([1, 2], [1, 2, 4]), ([0, 5, 9], [5, 9, 12]), ([-1, 3], [3])):
            conf = {'type': 'numeric_enumeration', 'bytecode': {'size': 3, 'value_dict': {m: i + 1 for i, m in enumerate(bkeys)}},
                    'argument': {'size': 8, 'byte_align': True, 'value_dict': {m: 0x40 + i for i, m in enumerate(akeys)}}}
            for v in sorted(set(bkeys) | set(akeys) | {7}):
                pos = 'member' if v in bkeys and v in akeys else ('in-one-table-only' if v in bkeys or v in akeys else 'neighbour')
                yield self.one(conf, lit(v), {'id': 'o', 'val': v}, 0, ['kind:numeric_enumeration', 'numeric-enumeration:two-tables-with-different-keys', 'pos:' + pos])
        # address / valid_address in GLOBAL, redefined GLOBAL, named zone
        for ab in (8, 12, 16):
            top = (1 << ab) - 1
            zones = [{'name': 'ZN', 'start': top // 4, 'end': top // 2}]
            for zkind, gz, zname in (('GLOBAL', None, None), ('redefined-GLOBAL', (top // 8, top - top // 8), None), ('named', None, 'ZN')):
                G = gz or (0, top)
                Z = (zones[0]['start'], zones[0]['end']) if zname else G
                for typ in ('address', 'valid_address'):
                    if typ == 'valid_address' and zname:
                        continue
                    if typ == 'address':
                        conf = {'type': 'address', 'argument': {'size': 16, 'byte_align': True}}
                        if zname:
                            conf['argument']['memory_zone'] = zname
                    else:
                        conf = {'type': 'numeric', 'argument': {'size': 16, 'byte_align': True, 'valid_address': True}}
                    for v, pos in [(Z[0] - 1, 'start-1'), (Z[0], 'start'), (Z[1], 'end'), (Z[1] + 1, 'end+1')]:
                        addr = G[0] + 3
                        yield self.one(conf, lit(v), {'id': 'o', 'val': v}, addr, [f'kind:{typ}', 'zone:' + zkind, 'pos:' + pos],
                                       addr_bits=ab, zones=zones if G[0] <= zones[0]['start'] and zones[0]['end'] <= G[1] else None,
                                       gz=gz, origin=G[0] if gz else None)
                        if typ == 'valid_address':
                            # the same flag on the bracketed numeric forms
                            for btyp, fmt_ in (('indirect_numeric', '[{}]'), ('deferred_numeric', '[[{}]]')):
                                bconf = {'type': btyp, 'argument': {'size': 16, 'byte_align': True, 'valid_address': True}}
                                yield self.one(bconf, fmt_.format(lit(v)), {'id': 'o', 'val': v}, addr,
                                               ['kind:valid_address', 'kind:valid_address/' + btyp, 'zone:' + zkind, 'pos:' + pos],
                                               addr_bits=ab, gz=gz, origin=G[0] if gz else None)
        # sliced addresses whose zone ends inside the instruction's own page: the zone bound holds for them as well
        for k in (8, 10):
            page = 1 << k
            zs = [{'name': 'ZP', 'start': 4 * page + 16, 'end': 5 * page - 17}]
            for zkind, gz, zname in (('named', None, 'ZP'), ('redefined-GLOBAL', (16, 7 * page - 17), None)):
                conf = {'type': 'address', 'argument': {'size': k, 'byte_align': False, 'slice_lsb': True, 'match_address_msb': True}}
                if zname:
                    conf['argument']['memory_zone'] = zname
                Z = (zs[0]['start'], zs[0]['end']) if zname else gz
                for edge, vals in (('low', [(Z[0] - 1, 'start-1'), (Z[0], 'start')]), ('high', [(Z[1], 'end'), (Z[1] + 1, 'end+1')])):
                    addr = ((Z[0] if edge == 'low' else Z[1]) >> k << k) + page // 2
                    for v, pos in vals:
                        yield self.one(conf, lit(v), {'id': 'o', 'val': v}, addr,
                                       ['kind:sliced-address', 'kind:sliced-address/zone-ends-inside-the-page', 'zone:' + zkind, 'pos:' + pos, 'slice:same-page'],
                                       zones=zs if zname else None, gz=gz, origin=gz[0] if gz else None)
        # sliced addresses: targets just across a 2^k boundary
        for k in (4, 8, 10):
            conf = {'type': 'address', 'argument': {'size': k, 'byte_align': False, 'slice_lsb': True, 'match_address_msb': True}}
            page = 1 << k
            for addr in (page * 3 + 2, page * 3 + page - 2, page * 5):
                base = (addr >> k) << k
                for v, pos in [(base, 'page-first'), (base + page - 1, 'page-last'), (base - 1, 'prev-page-last'),
                               (base + page, 'next-page-first'), (addr, 'self'), (addr & (page - 1), 'same-offset-in-page-0'),
                               (0, 'address-0'), (page - 1, 'page-0-last')]:
                    yield self.one(conf, lit(v), {'id': 'o', 'val': v}, addr,
                                   ['kind:sliced-address', 'pos:' + pos, 'slice:' + ('same-page' if (v >> k) == (addr >> k) else 'other-page')])

        # ... and targets that agree with the instruction's address in the bits right above the slice and differ further up only
        for k, ab in ((4, 16), (4, 24), (8, 24), (6, 20)):
            conf = {'type': 'address', 'argument': {'size': k, 'byte_align': False, 'slice_lsb': True, 'match_address_msb': True}}
            page = 1 << k
            for addr in (page * 3 + 2 + (1 << (2 * k)), page * 5 + (3 << (2 * k))):
                for v, pos in [(addr ^ (1 << (2 * k)), 'differs-right-above-twice-the-slice-width'), (addr ^ (1 << (ab - 1)), 'differs-in-the-top-bit'),
                               (addr ^ (1 << (2 * k + 1)), 'differs-above-twice-the-slice-width'), ((addr & ~(page - 1)) | 1, 'same-page')]:
                    yield self.one(conf, lit(v), {'id': 'o', 'val': v}, addr,
                                   ['kind:sliced-address', 'kind:sliced-address/narrow-slice', 'pos:' + pos,
                                    'slice:' + ('same-page' if (v >> k) == (addr >> k) else 'other-page')], addr_bits=ab)

    def cases(self, tier, seed):
        # every third case also runs with the statement inside #mute .. #unmute: a muted statement is still checked
        k = 0
        for c in self.plain_cases(tier, seed):
            yield c
            k += 1
            if k % 4 == 1 and c['meta'].get('macro_exp') is not None:
                t = copy.deepcopy(c)
                r = t['runs'][0]
                m = t['meta']
                r['files']['p.asm'] = f"{m.get('prelude', '')}.org {m['addr']}\nmtst {m['text']}\n.byte $EE\n"
                m['exp'] = m['macro_exp']
                m['macro'] = True
                t['tags'] = sorted((set(t['tags']) - {'expect:ACCEPT', 'expect:REJECT', 'expect:DONT_CARE'}) |
                                   {'second-step-of-a-macro', 'expect:' + m['exp']['kind']})
                yield t
            if k % 5 in (2, 4):
                # no image asked for (with or without a listing instead): the statement is judged all the same
                t = copy.deepcopy(c)
                mode = 'none' if k % 5 == 2 else 'none+listing'
                r = t['runs'][0]
                r['argv'] = [a_ for a_ in r['argv']] + ['-n'] + (['-p', '-t', 'listing'] if mode == 'none+listing' else [])
                t['meta']['out_mode'] = mode
                t['tags'] = sorted(set(t['tags']) | {'output:' + mode})
                yield t
            if k % 3 == 0:
                t = copy.deepcopy(c)
                r = t['runs'][0]
                m = t['meta']
                r['files']['p.asm'] = f"{m.get('prelude', '')}.org {m['addr']}\n#mute\ntst {m['text']}\n#unmute\n.byte $EE\n"
                m['muted'] = True
                t['tags'] = sorted(set(t['tags']) | {'muted-statement'})
                yield t

    def plain_cases(self, tier, seed):
        yield from self.directed()
        widths = list(range(1, 65)) if tier == 'thorough' else [1, 2, 3, 4, 7, 8, 9, 12, 15, 16, 17, 24, 31, 32, 33, 63, 64]
        yield from self.width_cases(widths)
        # random: generated single-operand configurations with boundary values
        from vf import gen_isa
        n = 300 if tier == 'quick' else 6000
        for i in range(n):
            rng = core.rng_for(seed, self.pid, i)
            kind = rng.choice(['numeric', 'numeric_bytecode', 'relative_address', 'indirect_register', 'address'])
            conf = gen_isa.gen_operand(rng, kind, ['a', 'sp'], 'big', 16, {}, nested=True)
            conf.pop('decorator', None)
            if kind == 'indirect_register':
                conf['register'] = 'sp'
                if 'offset' not in conf:
                    continue
            addr = rng.choice([0, 100, 1000, 40000])
            if kind == 'numeric':
                w = conf['argument']['size']
                if conf['argument'].get('valid_address'):
                    v = rng.choice([0, 65535, 65536, -1, rng.randrange(0, 70000)])
                else:
                    v = rng.choice([(1 << w) - 1, 1 << w, -(1 << (w - 1)), -(1 << (w - 1)) - 1, rng.randrange(-(1 << w), 1 << (w + 1))])
                t = lit(v)
            elif kind == 'numeric_bytecode':
                b = conf['bytecode']
                v = rng.choice([b['min'] - 1, b['min'], b['max'], b['max'] + 1, rng.randrange(-3, (1 << b['size']) + 3)])
                t = lit(v)
            elif kind == 'relative_address':
                a = conf['argument']
                w = a['size']
                lo = a.get('min', -(1 << (w - 1)))
                hi = a.get('max', (1 << w) - 1)
                off = rng.choice([lo - 1, lo, hi, hi + 1, 0, -(1 << (w - 1)), (1 << w) - 1, 1 << w])
                isz = encode.size_of(mk_isa(conf), {'mn': 'tst', 'variant': 0, 'spec': None, 'ops': [{'id': 'o', 'val': 0}]})
                v = addr + off + ((isz - 1) if conf.get('offset_from_instruction_end') else 0)
                if v < 0:
                    continue
                t = ('{%d}' % v) if conf.get('use_curly_braces') else str(v)
            elif kind == 'indirect_register':
                w = conf['offset']['size']
                v = rng.choice([(1 << w) - 1, 1 << w, -(1 << (w - 1)), -(1 << (w - 1)) - 1, 0, 5])
                t = f'[sp+{v}]' if v >= 0 else f'[sp-{-v}]'
            else:
                a = conf['argument']
                if a.get('slice_lsb'):
                    k = a['size']
                    base = (addr >> k) << k
                    v = rng.choice([base, base + (1 << k) - 1, base + (1 << k), max(0, base - 1)])
                else:
                    w = a['size']
                    v = rng.choice([0, 65535, 65536, (1 << w) - 1, 1 << w, -1])
                t = lit(v)
            yield self.one(conf, t, {'id': 'o', 'val': v}, addr, ['kind:random/' + kind])

    def judge(self, case, outcomes):
        o = outcomes[0]
        m = case['meta']
        exp = m['exp']
        tags = case['tags']
        nt = '|'.join(t for t in tags if t.startswith(('kind:', 'pos:', 'w:', 'zone:', 'rel:', 'slice:')))
        det = {'text': 'tst ' + m['text'], 'addr': m['addr'], 'operand_config': m['conf'], 'model': exp}
        if o.get('timed_out'):
            return [core.violated('termination:' + str(o['timed_out']), det)]
        if exp['kind'] == 'DONT_CARE':
            return [core.dont_care(exp['why'])]
        kind = next((t[5:] for t in tags if t.startswith('kind:')), '?')
        pos = next((t[4:] for t in tags if t.startswith('pos:')), '')
        wcl = next((t for t in tags if t.startswith('w:')), '')
        if exp['kind'] == 'REJECT':
            if o.get('exit') == 0:
                det['image'] = (o.get('files') or {}).get('out.bin', '')[:60]
                return [core.violated(f'violating-value-accepted/{kind}/{pos}' + (f'/{wcl}' if wcl else ''), det, buckets=tags, nt=nt)]
            return [core.held(buckets=tags, nt=nt)]
        img = (o.get('files') or {}).get('out.bin')
        if m.get('out_mode'):
            det['options'] = m['out_mode']
            if o.get('exit') != 0:
                det['stderr'] = (o.get('stderr') or '')[-300:]
                return [core.violated(f'satisfying-value-rejected/{kind}/{pos}', det, buckets=tags, nt=nt)]
            if img is not None:
                return [core.violated('image-written-although-none-was-asked-for', det, buckets=tags, nt=nt)]
            return [core.held(buckets=tags, nt=nt)]
        if o.get('exit') != 0 or img is None:
            det['stderr'] = (o.get('stderr') or '')[-300:]
            return [core.violated(f'satisfying-value-rejected/{kind}/{pos}', det, buckets=tags, nt=nt)]
        n = len(exp['bytes']) // 2
        got = img[:2 * n]
        if m.get('muted'):
            if got != '00' * n or img[2 * n:2 * n + 2] != 'ee':
                det['got'] = img[:2 * n + 2]
                return [core.violated(f'muted-statement-image-differs/{kind}', det, buckets=tags, nt=nt)]
            return [core.held(buckets=tags, nt=nt)]
        if got != exp['bytes'] or img[2 * n:2 * n + 2] != 'ee':
            det['got'] = img[:2 * n + 2]
            return [core.violated(f'accepted-but-bytes-differ/{kind}', det, buckets=tags, nt=nt)]
        return [core.held(buckets=tags, nt=nt)]

    def sample_of(self, case, outcomes):
        return {'statement': 'tst ' + case['meta']['text'], 'address': case['meta']['addr'],
                'operand_config': case['meta']['conf'], 'model': case['meta']['exp'], 'exit': outcomes[0].get('exit')}


def _int_keys(o):
    if isinstance(o, dict):
        return any(isinstance(k, int) for k in o) or any(_int_keys(v) for v in o.values())
    if isinstance(o, list):
        return any(_int_keys(v) for v in o)
    return False
