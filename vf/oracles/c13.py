"""C13 — variant and operand selection follows the documented priority only.

Oracle: priority model over deliberately ambiguous ISA definitions — variants in definition order; inside a variant the
specific operand lists before the operand sets; disallowed pairs skipped; inside an operand set bracketed and
register-indexed forms, then enumeration keys and plain registers, then numeric expressions.  Every alternative carries
a distinct code, every variant a distinct opcode, so the image reveals the choice.  Probe: `select`.
"""
import json

from vf import core, isa as isamod
from vf.model import encode, layout

# 'ah' also reads as a hexadecimal literal (A with a trailing H, in either letter case): it is a register all the same
REGS = ['a', 'b', 'sp', 'ah']
LABELS = {'lab_k': 0x21, 'lab_x': 0x33, 'zed': 0x44, 'nil0': 0x55}     # 'zed' and 'lab_k' are also enumeration keys in some sets
KEYS = {'zed': 1, 'one': 2, 'lab_k': 3}

# priority classes the statement fixes (lower = tried earlier)
PRIO = {'indirect_register': 0, 'indirect_indexed_register': 0, 'indirect_numeric': 0, 'deferred_numeric': 0,
        'indexed_register': 0, 'enumeration': 1, 'register': 1, 'numeric': 2, 'address': 2, 'numeric_bytecode': 2,
        'relative_address': 2, 'numeric_enumeration': 1}
# the implementation's total order (used only to order alternatives of the SAME priority class that cannot both accept)
IMPL = {'indirect_register': 2, 'indirect_indexed_register': 3, 'indirect_numeric': 4, 'deferred_numeric': 5,
        'indexed_register': 6, 'enumeration': 7, 'numeric_enumeration': 7, 'register': 8, 'numeric': 9, 'address': 10,
        'relative_address': 11, 'numeric_bytecode': 12}


def alt_pool(rng):
    """name -> operand config; codes are distinct so the image identifies the alternative"""
    code = [0]

    def bc(pos='suffix'):
        code[0] += 1
        return {'value': code[0], 'size': 5, 'position': pos}
    a8 = {'size': 8, 'byte_align': True}
    pool = {
        'reg_a': {'type': 'register', 'register': 'a', 'bytecode': bc()},
        'reg_b': {'type': 'register', 'register': 'b', 'bytecode': bc()},
        'reg_sp': {'type': 'register', 'register': 'sp', 'bytecode': bc()},
        'reg_ah': {'type': 'register', 'register': 'ah', 'bytecode': bc()},
        'ind_a': {'type': 'indirect_register', 'register': 'a', 'bytecode': bc()},
        'indoff_sp': {'type': 'indirect_register', 'register': 'sp', 'bytecode': bc(), 'offset': dict(a8)},
        'indoff_b': {'type': 'indirect_register', 'register': 'b', 'bytecode': bc(), 'offset': dict(a8)},
        'iidx_a': {'type': 'indirect_indexed_register', 'register': 'a', 'bytecode': bc(),
                   'index_operands': {'xb': {'type': 'register', 'register': 'b', 'bytecode': {'value': 1, 'size': 2}},
                                      'xn': {'type': 'numeric', 'argument': dict(a8), 'bytecode': {'value': 2, 'size': 2}}}},
        'iidx_b': {'type': 'indirect_indexed_register', 'register': 'b', 'bytecode': bc(),
                   'index_operands': {'xa': {'type': 'register', 'register': 'a', 'bytecode': {'value': 1, 'size': 2}},
                                      'xs': {'type': 'register', 'register': 'sp', 'bytecode': {'value': 3, 'size': 2}}}},
        # (the numeric index alternative is written in front of the enumeration one: index alternatives follow the same
        # priority as the alternatives of an operand set, not their order in the definition)
        'idx_b': {'type': 'indexed_register', 'register': 'b', 'bytecode': bc(),
                  'index_operands': {'xa': {'type': 'register', 'register': 'a', 'bytecode': {'value': 1, 'size': 2}},
                                     'xn': {'type': 'numeric', 'argument': dict(a8), 'bytecode': {'value': 2, 'size': 2}},
                                     'xk': {'type': 'enumeration', 'bytecode': {'size': 2, 'value_dict': {k: 3 for k in KEYS}},
                                            'argument': {'size': 8, 'byte_align': True, 'value_dict': {k: 0xC0 + v for k, v in KEYS.items()}}}}},
        'indnum': {'type': 'indirect_numeric', 'argument': dict(a8), 'bytecode': bc()},
        'defer': {'type': 'deferred_numeric', 'argument': dict(a8), 'bytecode': bc()},
        # 'nil0' stands for 0 in every table it is in (it is a key like the others - and a label of that name exists as well)
        'key': {'type': 'enumeration', 'bytecode': {'size': 5, 'value_dict': dict({k: 20 + v for k, v in KEYS.items()}, nil0=0)},
                'argument': {'size': 8, 'byte_align': True, 'value_dict': dict({k: 0xE0 + v for k, v in KEYS.items()}, nil0=0)}},
        'num': {'type': 'numeric', 'argument': dict(a8), 'bytecode': bc()},
        'numbc': {'type': 'numeric_bytecode', 'bytecode': {'size': 5, 'min': 0, 'max': 15}},
        'adr': {'type': 'address', 'argument': {'size': 16, 'byte_align': True}, 'bytecode': bc()},
        'curly': {'type': 'relative_address', 'use_curly_braces': True, 'argument': {'size': 8, 'byte_align': True}, 'bytecode': bc()},
        'predec_sp': {'type': 'register', 'register': 'sp', 'bytecode': bc(), 'decorator': {'type': 'minus', 'is_prefix': True}},
        'postinc_a': {'type': 'register', 'register': 'a', 'bytecode': bc(), 'decorator': {'type': 'plus', 'is_prefix': False}},
        # bracketed forms with a decorator in front of / behind the brackets
        'predec_ind_sp': {'type': 'indirect_register', 'register': 'sp', 'bytecode': bc(), 'decorator': {'type': 'minus_minus', 'is_prefix': True}},
        'postinc_ind_a': {'type': 'indirect_register', 'register': 'a', 'bytecode': bc(), 'decorator': {'type': 'plus_plus', 'is_prefix': False}},
        'rel': {'type': 'relative_address', 'argument': {'size': 8, 'byte_align': True}, 'bytecode': bc()},
        # numeric forms whose value has to be a valid address (a register name is no more an address than it is a number)
        'num_va': {'type': 'numeric', 'argument': {'size': 16, 'byte_align': True, 'valid_address': True}, 'bytecode': bc()},
        'indnum_va': {'type': 'indirect_numeric', 'argument': {'size': 16, 'byte_align': True, 'valid_address': True}, 'bytecode': bc()},
        'defer_va': {'type': 'deferred_numeric', 'argument': {'size': 16, 'byte_align': True, 'valid_address': True}, 'bytecode': bc()},
        # numeric enumerations (a numeric expression whose value is looked up): one with an argument table only, one with both
        'nenum_arg': {'type': 'numeric_enumeration',
                      'argument': {'size': 8, 'byte_align': True, 'value_dict': {v: 0x80 + v for v in range(0, 18)}}},
        'nenum_bc': {'type': 'numeric_enumeration', 'bytecode': {'size': 5, 'value_dict': {v: (3 * v + 1) % 32 for v in range(0, 18)}},
                     'argument': {'size': 8, 'byte_align': True, 'value_dict': {v: 0x60 + v for v in range(0, 18)}}},
    }
    return pool


EXPR_LIKE = ('num', 'numbc', 'adr', 'rel', 'nenum_arg', 'nenum_bc', 'num_va')


def operand_texts(rng):
    """-> list of operand descriptions {'cls', 'text', ...} the statements are drawn from"""
    r = rng.choice(REGS)
    r2 = rng.choice(REGS)
    e = rng.randrange(0, 16)
    big = rng.choice([16, 17, 99, 200, 255])
    lab = rng.choice(sorted(LABELS))
    sp = rng.choice(['', ' '])
    rq = rng.choice(['a', 'a', r])
    rb2 = rng.choice(['a', 'sp'])
    return [
        {'cls': 'reg', 'r': r, 'text': r if rng.random() < 0.7 else r.upper()},
        {'cls': 'ind', 'r': r, 'text': f'[{sp}{r}{sp}]'},
        {'cls': 'indoff', 'r': r, 'e': e, 'text': f'[{r}{sp}+{sp}{e}]'},
        {'cls': 'indoff', 'r': r, 'e': LABELS[lab], 'text': f'[{r}+{lab}]', 'lab': lab},
        {'cls': 'indidxreg', 'r': r, 't': r2, 'text': f'[{r}+{r2}]'},
        {'cls': 'indidxreg', 'r': 'b', 't': rb2, 'text': f'[b{sp}+{sp}{rb2.upper()}]', 'upper_index': True},
        {'cls': 'idx', 'r': r, 'e': e, 'text': f'{r}{sp}+{sp}{e}'},
        {'cls': 'idx', 'r': r, 'e': LABELS[lab], 'text': f'{r}+{lab}', 'lab': lab},
        {'cls': 'idxreg', 'r': r, 't': r2, 'text': f'{r}+{r2}'},
        {'cls': 'indnum', 'e': e, 'text': f'[{sp}{e}{sp}]'},
        {'cls': 'indnum', 'e': LABELS[lab], 'text': f'[{lab}]', 'lab': lab},
        {'cls': 'defer', 'e': e, 'text': f'[[{e}]]'},
        # every operator and a character literal are expression text inside these forms as well
        {'cls': 'indnum', 'e': e * 2, 'text': f'[{e}*2]', 'opform': True},
        {'cls': 'indnum', 'e': 65, 'text': "['A']", 'opform': True},
        {'cls': 'defer', 'e': e | 1, 'text': f'[[{e}|1]]', 'opform': True},
        {'cls': 'indoff', 'r': r, 'e': e << 1, 'text': f'[{r}+{e}<<1]', 'opform': True},
        {'cls': 'idx', 'r': r, 'e': e * 3, 'text': f'{r}+{e}*3', 'opform': True},
        {'cls': 'word', 'w': lab, 'e': LABELS[lab], 'text': lab},              # a label; also a key when spelled like one
        {'cls': 'word', 'w': 'one', 'e': None, 'text': 'one'},                 # a key that is not a label
        {'cls': 'word', 'w': 'nil0', 'e': LABELS['nil0'], 'text': 'nil0', 'zero_key': True},     # a key whose codes are all 0, and a label
        {'cls': 'num', 'e': e, 'text': str(e)},
        # a literal beyond the 0..15 range of the numeric_bytecode alternative: which alternative / variant takes a numeric
        # text does not depend on its value (the chosen one then rejects it)
        {'cls': 'num', 'e': big, 'text': str(big), 'big': True},
        {'cls': 'num', 'e': LABELS[lab] + 1, 'text': f'{lab}+1', 'lab': lab, 'expr': True},
        {'cls': 'dreg', 'r': r, 'dec': ('minus', True), 'text': f'-{r}'},        # a decorated register, or a negated register "value"
        {'cls': 'dreg', 'r': r, 'dec': ('plus', False), 'text': f'{r}+'},
        {'cls': 'dind', 'r': 'sp', 'dec': ('minus_minus', True), 'text': f'--[{sp}sp{sp}]'},
        {'cls': 'dind', 'r': rq, 'dec': ('plus_plus', False), 'text': f'[{rq}]++'},
        {'cls': 'regexpr', 'r': r, 'text': rng.choice([f'1+{r}', f'- {r} + 1', f'LSB({r})', f'BYTE0({r})', f'({r})', f'-({r})', f'{r}*2',
                                                        f'BYTE1(-{r})', f'2 - -{r}', f'({r}+1)', f'lab_k+{r}'])},
        {'cls': 'curly', 'e': e, 'text': '{' + f'{sp}{e}{sp}' + '}'},
    ]


def accepts(name, conf, o, addr):
    """Does alternative `conf` accept operand description `o`?  -> encode-op dict or None.  (documented operand syntax)"""
    t = conf['type']
    c = o['cls']
    if t == 'register':
        dec = conf.get('decorator')
        if dec:
            return {'id': name} if c == 'dreg' and o['r'] == conf['register'] and o['dec'] == (dec['type'], dec['is_prefix']) else None
        return {'id': name} if c == 'reg' and o['r'] == conf['register'] else None
    if t == 'indirect_register':
        dec = conf.get('decorator')
        if dec or c == 'dind':
            return {'id': name, 'val': None} if dec and c == 'dind' and o['r'] == conf['register'] and o['dec'] == (dec['type'], dec['is_prefix']) else None
        if c == 'ind' and o['r'] == conf['register']:
            return {'id': name, 'val': None}
        if c == 'indoff' and o['r'] == conf['register'] and 'offset' in conf:
            return {'id': name, 'val': o['e']}
        return None
    if t in ('indexed_register', 'indirect_indexed_register'):
        want_num, want_reg = ('idx', 'idxreg') if t == 'indexed_register' else ('indoff', 'indidxreg')
        if o.get('r') != conf['register']:
            return None
        if c == want_reg:
            for iid, ic in conf['index_operands'].items():
                if ic['type'] == 'register' and ic['register'] == o['t']:
                    return {'id': name, 'index': {'id': iid}}
            return None
        if c == want_num:
            if o.get('lab') and 'expr' not in o and o['text'].replace(' ', '').endswith('+' + o['lab']):
                for iid, ic in conf['index_operands'].items():
                    if ic['type'] == 'enumeration' and o['lab'] in ic['argument']['value_dict']:
                        return {'id': name, 'index': {'id': iid, 'key': o['lab']}, 'index_key': True}
            for iid, ic in conf['index_operands'].items():
                if ic['type'] == 'numeric':
                    return {'id': name, 'index': {'id': iid, 'val': o['e']}}
        return None
    if t == 'indirect_numeric':
        return {'id': name, 'val': o['e']} if c == 'indnum' else None
    if t == 'deferred_numeric':
        return {'id': name, 'val': o['e']} if c == 'defer' else None
    if t == 'enumeration':
        if c == 'word' and o['w'] in conf['argument']['value_dict']:
            return {'id': name, 'key': o['w']}
        return None
    if t in ('numeric', 'address', 'numeric_bytecode', 'numeric_enumeration'):
        # any identifier is syntactically a label (it may be defined later): a numeric alternative accepts it
        if c == 'num' or c == 'word':
            return {'id': name, 'val': o['e'], 'undefined': o['e'] is None}
        return None
    if t == 'relative_address':
        if conf.get('use_curly_braces'):
            return {'id': name, 'val': o['e']} if c == 'curly' else None
        if c == 'num' or c == 'word':
            return {'id': name, 'val': o['e'], 'undefined': o['e'] is None}
        return None
    return None


def choose_in_set(setconf, o, addr):
    """first accepting alternative by the documented priority; ambiguity inside one priority class -> 'DONT_CARE'"""
    acc = []
    for name, conf in setconf['operand_values'].items():
        op = accepts(name, conf, o, addr)
        if op is not None:
            acc.append((PRIO[conf['type']], IMPL[conf['type']], name, op))
    if not acc:
        return None
    acc.sort(key=lambda x: (x[0], x[1]))
    best = acc[0]
    same = [a for a in acc if a[0] == best[0]]
    if len(same) > 1:
        return 'DONT_CARE'
    return best


class C13(core.Check):
    pid = 'C13'
    level = 'exploration'
    rule = ('deliberately ambiguous ISA definitions: 1..3 variants with distinct opcodes whose operand sets / specific operand '
            'lists accept the same operand text, disallowed pairs that knock out the first match, operand sets whose '
            'alternatives overlap textually ([r] / [r+e] / [e], r+e vs label expression, enumeration key vs label of the same '
            'spelling, register vs numeric); statements over every operand text class, with register names in numeric '
            'positions, operand counts no variant takes and mixed-case mnemonics. Expected choice from the documented priority; '
            'expected bytes from the reference encoder. distinct_nontrivial = distinct (operand classes, accepting candidates, '
            'chosen candidate) tuples with >= 2 accepting candidates.')
    rule = rule + ' ' + 'Numeric enumerations (argument table only / both tables) are among the alternatives, also next to plain registers.'
    assumptions = ('the index alternatives of an indexed register follow the same priority as the alternatives of an operand set '
                   '(register, then enumeration key, then numeric expression)',
                   'within one priority class of the statement (bracketed/indexed forms; keys and registers; numeric expressions) '
                   'two alternatives that both accept a text make the case DONT_CARE',
                   'a numeric enumeration shares the priority class of enumeration keys (an identifier that an enumeration and a '
                   'numeric enumeration of one set both accept makes the case DONT_CARE); it is never put in one set with another '
                   'numeric-expression alternative, so its order relative to those is not examined',
                   'a specific-operand list whose length differs from count is not generated (malformed by C19)')
    chunk = 1500
    no_image_reject = lambda self, c: c['meta'].get('kind') == 'REJECT'
    crosscheck_every = {'quick': 50, 'thorough': 50}
    required_buckets = {b: 3 for b in [
        'amb:variant1-and-2-accept', 'amb:specific-and-set-accept', 'amb:disallowed-pair-hit', 'amb:bracketed-vs-numeric-set',
        'amb:key-vs-label', 'amb:register-vs-numeric', 'amb:indexed-vs-label-expression', 'reject:register-in-numeric-position',
        'reject:register-inside-expression', 'reject:no-variant-takes-count', 'mnemonic:upper', 'mnemonic:mixed',
        'chosen:variant>=2', 'chosen:specific', 'expect:ACCEPT', 'expect:REJECT',
        'later-candidate-after-nonaccepting-earlier', 'amb:disallowed-pair-mirrored-is-allowed', 'amb:two-specific-entries-accept',
        'amb:key-vs-relative-address', 'amb:decorated-register-vs-numeric', 'chosen:decorated-bracketed-register', 'index-register-in-capitals-inside-brackets', 'registers-declared-with-capitals', 'reject:register-that-reads-as-a-number', 'same-statement-before-and-behind-a-zone-declaration', 'literal-outside-the-first-variant\'s-range-with-a-later-variant-that-could-hold-it', 'chosen:decorated-bracketed-register/decorator-in-front', 'amb:implied-operand-entry-vs-shorter-variant',
        'amb:out-of-range-literal-with-later-accepting-candidate', 'primer:earlier-statement-took-a-later-variant', 'amb:listed-combination-named-like-the-disallowed-pair', 'amb:index-key-vs-index-expression', 'amb:register-that-reads-as-a-number',
        'amb:register-vs-numeric-enumeration', 'amb:register-vs-numeric-enumeration-with-argument-table-only',
        'amb:key-that-stands-for-0-vs-label', 'operator-inside-bracketed-or-indexed-form', 'reject:empty-operand-beside-a-comma', 'definition-shared-by-anchor-and-alias', 'chosen:variant-behind-one-without-operands']}

    def gen_isa(self, rng, force_empty=False, force_dp=False, force_ne=False, force_idx=False, force_kr=False):
        self._kr = False
        self._dp_pair = None
        self._ne_regs = None
        self._opless_at = None
        self._idx = False
        pool = alt_pool(rng)
        names = sorted(pool)
        sets = {}
        for si in range(rng.randrange(1, 3)):
            k = rng.randrange(3, 9)
            pick = rng.sample(names, k)
            # at most one expression-like alternative per set (their mutual order is not fixed by the statement)
            ex = [p for p in pick if p in EXPR_LIKE]
            for p in ex[1:]:
                pick.remove(p)
            rng.shuffle(pick)
            sets[f's{si}'] = {'operand_values': {p: pool[p] for p in pick}}
        variants = []
        nv = rng.randrange(1, 4)
        if force_empty:
            # an entry with an implied (empty) second operand next to a one-operand variant over the same alternative
            p = rng.choice([n_ for n_ in names if n_ not in ('rel', 'curly')])
            s0 = sets[sorted(sets)[0]]['operand_values']
            s0.setdefault(p, pool[p])
            ex = [q for q in s0 if q in EXPR_LIKE and q != p]
            if p in EXPR_LIKE:
                for q in ex:
                    del s0[q]
            pair = [('spE_0_' + p, dict(pool[p])), ('spE_1_empty', {'type': 'empty', 'bytecode': {'value': 29, 'size': 5}})]
            if rng.random() < 0.35:
                pair.reverse()            # the implied operand comes first
            two = {'bytecode': {'value': 0xA0, 'size': 8}, 'operands': {'count': 2, 'specific_operands': {'zeta_first': {'list': dict(pair)}}}}
            if rng.random() < 0.5:
                # a listed combination with two written operands in front of the one with the implied operand
                q = rng.choice(names)
                two['operands']['specific_operands'] = {
                    'zeta_first': {'list': {'spL_0_' + p: dict(pool[p]), 'spL_1_' + q: dict(pool[q])}},
                    'alpha_second': two['operands']['specific_operands']['zeta_first']}
            one = {'bytecode': {'value': 0xA1, 'size': 8}, 'operands': {'count': 1, 'operand_sets': {'list': [sorted(sets)[0]]}}}
            variants = [two, one] if rng.random() < 0.6 else [one, two]
            nv = 0
        if force_dp and not force_empty:
            # a barred pair of one operand set that has its own listed combination, named with the pair's operand ids
            sn_ = sorted(sets)[0]
            ids_ = sorted(sets[sn_]['operand_values'])
            i1_, i2_ = rng.sample(ids_, 2) if len(ids_) >= 2 else (ids_[0], ids_[0])
            if i1_ != i2_:
                lst_ = {}
                for oid_ in (i1_, i2_):
                    c_ = dict(sets[sn_]['operand_values'][oid_])
                    if 'bytecode' in c_ and 'value' in c_['bytecode']:
                        c_ = dict(c_, bytecode=dict(c_['bytecode'], value=(c_['bytecode']['value'] + 7) % 32))
                    lst_[oid_] = c_
                variants = [{'bytecode': {'value': 0xA0, 'size': 8}, 'operands': {
                    'count': 2, 'operand_sets': {'list': [sn_, sn_], 'disallowed_pairs': [[i1_, i2_]]},
                    'specific_operands': {'zeta_first': {'list': lst_}}}}]
                nv = rng.randrange(0, 2)
                self._dp_pair = (sn_, [i1_, i2_])
        if force_idx and not variants:
            # an indexed register whose index reads as a label expression / as an index key
            sn_ = sorted(sets)[0]
            s0 = sets[sn_]['operand_values']
            if 'idx_b' not in s0:
                items_ = list(s0.items())
                items_.insert(rng.randrange(0, len(items_) + 1), ('idx_b', pool['idx_b']))
                sets[sn_]['operand_values'] = dict(items_)
            variants = [{'bytecode': {'value': 0xA0, 'size': 8}, 'operands': {'count': 1, 'operand_sets': {'list': [sn_]}}}]
            nv = rng.randrange(0, 2)
            self._idx = True
        if force_kr and not variants:
            # an enumeration next to a plain relative address in one operand set: a key belongs to the enumeration
            sn_ = sorted(sets)[0]
            s0 = sets[sn_]['operand_values']
            for q in [q for q in s0 if q in EXPR_LIKE or q == 'key']:
                del s0[q]
            new_ = [('rel', pool['rel']), ('key', pool['key'])] if rng.random() < 0.5 else [('key', pool['key']), ('rel', pool['rel'])]
            items_ = list(s0.items())
            at_ = rng.randrange(0, len(items_) + 1)
            sets[sn_]['operand_values'] = dict(items_[:at_] + new_ + items_[at_:])
            variants = [{'bytecode': {'value': 0xA0, 'size': 8}, 'operands': {'count': 1, 'operand_sets': {'list': [sn_]}}}]
            nv = rng.randrange(0, 2)
            self._kr = True
        if force_ne and not variants:
            # a numeric enumeration next to plain registers in one operand set: the register text belongs to the register
            sn_ = sorted(sets)[0]
            s0 = sets[sn_]['operand_values']
            for q in [q for q in s0 if q in EXPR_LIKE]:
                del s0[q]
            ne_ = rng.choice(['nenum_arg', 'nenum_arg', 'nenum_bc'])
            regs_ = rng.sample(['reg_a', 'reg_b', 'reg_sp'], 2)
            new_ = [(ne_, pool[ne_])] + [(r_, pool[r_]) for r_ in regs_ if r_ not in s0] + list(s0.items())
            if rng.random() < 0.5:
                new_ = list(s0.items()) + [(r_, pool[r_]) for r_ in regs_ if r_ not in s0] + [(ne_, pool[ne_])]
            sets[sn_]['operand_values'] = dict(new_)
            variants = [{'bytecode': {'value': 0xA0, 'size': 8}, 'operands': {'count': 1, 'operand_sets': {'list': [sn_]}}}]
            nv = rng.randrange(0, 2)
            self._ne_regs = [pool[r_]['register'] for r_ in regs_]
        for vi in range(len(variants), len(variants) + nv):
            cnt = rng.choice([1, 1, 2])
            ops = {'count': cnt}
            r = rng.random()
            if r < 0.75:
                ops['operand_sets'] = {'list': [rng.choice(sorted(sets)) for _ in range(cnt)]}
                if cnt == 2 and rng.random() < 0.5:
                    ops['operand_sets']['list'][1] = ops['operand_sets']['list'][0]
                if rng.random() < 0.45:
                    # disallow one concrete combination
                    ids = [rng.choice(sorted(sets[s]['operand_values'])) for s in ops['operand_sets']['list']]
                    ops['operand_sets']['disallowed_pairs'] = [ids]
            if r >= 0.55:
                # one or two explicitly listed combinations; their names are deliberately NOT in alphabetical order, and they
                # are tried in definition order
                entries = {}
                for en, ename in enumerate(['zeta_first', 'alpha_second'][:rng.choice([1, 2, 2])]):
                    lst = {}
                    for k in range(cnt):
                        if cnt == 2 and not any(c_['type'] == 'empty' for c_ in lst.values()) and \
                                ((k == cnt - 1 and rng.random() < 0.3) or (k == 0 and rng.random() < 0.12)):
                            # an implied operand: nothing is written for it, so the statement has one operand fewer than count
                            lst[f'sp{vi}_{en}_{k}_empty'] = {'type': 'empty', 'bytecode': {'value': 30 - vi - 4 * en, 'size': 5}}
                            continue
                        p = rng.choice(names)
                        key = f'sp{vi}_{en}_{k}_{p}'
                        lst[key] = dict(pool[p])
                        # a distinct code for the specific instance of the alternative
                        if 'bytecode' in lst[key] and 'value' in lst[key]['bytecode']:
                            lst[key] = dict(lst[key], bytecode=dict(lst[key]['bytecode'], value=31 - vi - 4 * en))
                    entries[ename] = {'list': lst}
                dp_ = (ops.get('operand_sets') or {}).get('disallowed_pairs')
                if dp_ and cnt == 2 and dp_[0][0] != dp_[0][1] and rng.random() < 0.6:
                    # the usual way to give a barred pair its own encoding: a listed combination whose operand ids are exactly
                    # those of the disallowed pair (the bar concerns the operand-set pattern only)
                    sl_ = ops['operand_sets']['list']
                    lst_ = {}
                    for k_, oid_ in enumerate(dp_[0]):
                        c_ = dict(sets[sl_[k_]]['operand_values'][oid_])
                        if 'bytecode' in c_ and 'value' in c_['bytecode']:
                            c_ = dict(c_, bytecode=dict(c_['bytecode'], value=(c_['bytecode']['value'] + 7) % 32))
                        lst_[oid_] = c_
                    entries = dict([('zeta_first', {'list': lst_})] + [(k2_, v2_) for k2_, v2_ in entries.items() if k2_ != 'zeta_first'])
                    self._dp_named = True
                ops['specific_operands'] = entries
            variants.append({'bytecode': {'value': 0xA0 + vi, 'size': 8}, 'operands': ops})
        if rng.random() < 0.3:
            # a variant without operands (no operands section at all), anywhere in the order: a statement with operands goes on
            # to the variants behind it
            at_ = rng.choice([0, 0, len(variants) // 2, len(variants)])
            variants.insert(at_, {'bytecode': {'value': 0xAF, 'size': 8}})
            self._opless_at = at_ if at_ < len(variants) - 1 else None
        conf = dict(variants[0])
        if len(variants) > 1:
            conf['variants'] = variants[1:]
        isa = {'description': 'C13', 'general': {'address_size': 16, 'endian': 'big', 'registers': list(REGS),
                                                 'identifier': {'name': 'vfc13', 'version': '1.0.0'}},
               'operand_sets': sets, 'instructions': {'amb': conf, 'nop': {'bytecode': {'value': 0xEA, 'size': 8}}}}
        return isa

    def model(self, isa, operands, addr):
        """-> (kind, stmt, info)"""
        vs = encode.variants_of(isa, 'amb')
        info = {'accepting': []}
        chosen = None
        dont_care = None
        for vi, v in enumerate(vs):
            ops = v.get('operands')
            if not ops:
                if not operands:
                    cand = ('v%d' % vi, {'mn': 'amb', 'variant': vi, 'spec': None, 'ops': []})
                    info['accepting'].append(cand[0])
                    chosen = chosen or cand
                continue
            if 'specific_operands' in ops:
                n_acc = 0
                for ename, entry in ops['specific_operands'].items():
                    lst = entry['list']
                    if sum(1 for c_ in lst.values() if c_['type'] != 'empty') != len(operands):
                        continue
                    got = []
                    it_ = iter(operands)
                    for name, conf in lst.items():
                        if conf['type'] == 'empty':
                            got.append({'id': name})
                            info['empty_in_candidate'] = True
                            continue
                        op = accepts(name, conf, next(it_), addr)
                        if op is None:
                            got = None
                            break
                        got.append(op)
                    if got is not None:
                        n_acc += 1
                        cand = ('v%d/specific' % vi, {'mn': 'amb', 'variant': vi, 'spec': ename, 'ops': got})
                        info['accepting'].append(cand[0] + ':' + ename)
                        chosen = chosen or cand
                if n_acc >= 2:
                    info['two_specific_entries_accept'] = True
            if 'operand_sets' in ops and ops['count'] == len(operands):
                got = []
                for sname, o in zip(ops['operand_sets']['list'], operands):
                    c = choose_in_set(isa['operand_sets'][sname], o, addr)
                    if c == 'DONT_CARE':
                        if chosen is None:
                            dont_care = 'two alternatives of one priority class accept'
                        got = None
                        break
                    if c is None:
                        got = None
                        break
                    got.append(c)
                if got is not None:
                    ids = [g[2] for g in got]
                    if ids in (ops['operand_sets'].get('disallowed_pairs') or []):
                        info['disallowed_hit'] = True
                        continue
                    cand = ('v%d/sets' % vi, {'mn': 'amb', 'variant': vi, 'spec': None, 'ops': [g[3] for g in got]})
                    info['accepting'].append(cand[0])
                    chosen = chosen or cand
                    if chosen is cand and dont_care:
                        pass
            if chosen is None and dont_care:
                return 'DONT_CARE', None, info
        if dont_care and (chosen is None):
            return 'DONT_CARE', None, info
        if chosen is None:
            return 'REJECT', None, info
        info['chosen'] = chosen[0]
        return 'ACCEPT', chosen[1], info

    def cases(self, tier, seed):
        yield from self.register_that_reads_as_a_number_cases()
        yield from self.zone_declared_later_cases()
        yield from self.out_of_range_literal_cases()
        n_pre = 800
        n = 700 if tier == 'quick' else 15000
        for i in range(n_pre + n):
            rng = core.rng_for(0 if i < n_pre else seed, self.pid, i)
            isa = self.gen_isa(rng, force_empty=(i < n_pre and i % 10 == 3), force_dp=(i < n_pre and i % 10 == 7),
                               force_ne=(i < n_pre and i % 10 == 5), force_idx=(i < n_pre and i % 10 == 9), force_kr=(i < n_pre and i % 20 == 1))
            texts = operand_texts(rng)
            mirrored = None
            for v in encode.variants_of(isa, 'amb'):
                os_ = (v.get('operands') or {}).get('operand_sets') or {}
                dp = os_.get('disallowed_pairs')
                if dp and len(dp[0]) == 2 and dp[0][0] != dp[0][1] and os_['list'][0] == os_['list'][1]:
                    mirrored = (os_['list'][0], dp[0])
            if self._kr and rng.random() < 0.8:
                w_ = rng.choice(sorted(KEYS))
                operands = [{'cls': 'word', 'w': w_, 'e': LABELS.get(w_), 'text': w_}]
                mirror_case = False
            elif self._idx and rng.random() < 0.8:
                lab_ = rng.choice(sorted(LABELS))
                sp_ = rng.choice(['', ' '])
                operands = [{'cls': 'idx', 'r': 'b', 'e': LABELS[lab_], 'text': f'b{sp_}+{sp_}{lab_}', 'lab': lab_}]
                mirror_case = False
            elif self._ne_regs and rng.random() < 0.7:
                r_ = rng.choice(self._ne_regs)
                operands = [{'cls': 'reg', 'r': r_, 'text': r_ if rng.random() < 0.7 else r_.upper()}]
                mirror_case = False
            elif self._dp_pair and rng.random() < 0.8:
                sname, (i1, i2) = self._dp_pair
                ov = isa['operand_sets'][sname]['operand_values']
                operands = []
                for oid in (i1, i2):
                    cand = [t for t in texts if accepts(oid, ov[oid], t, 0) is not None]
                    operands.append(rng.choice(cand) if cand else rng.choice(texts))
                mirror_case = False
            elif mirrored and rng.random() < 0.5:
                # the mirror image of a disallowed pair is NOT disallowed
                sname, (i1, i2) = mirrored
                ov = isa['operand_sets'][sname]['operand_values']
                operands = []
                for oid in (i2, i1):
                    cand = [t for t in texts if accepts(oid, ov[oid], t, 0) is not None]
                    operands.append(rng.choice(cand) if cand else rng.choice(texts))
                mirror_case = True
            elif rng.random() < 0.8:
                # aim at one variant: operand texts that some alternative of that variant accepts
                vs_ = encode.variants_of(isa, 'amb')
                v = rng.choice(vs_)
                ops_ = v.get('operands') or {}
                operands = []
                for k in range(ops_.get('count', 0)):
                    confs = []
                    if 'operand_sets' in ops_ and (rng.random() < 0.7 or 'specific_operands' not in ops_):
                        confs = list(isa['operand_sets'][ops_['operand_sets']['list'][k]]['operand_values'].values())
                    elif 'specific_operands' in ops_:
                        confs = [list(e_['list'].values())[k] for e_ in ops_['specific_operands'].values()]
                    cand = [t for t in texts if any(accepts('x', c, t, 0) is not None for c in confs)]
                    operands.append(rng.choice(cand) if cand else rng.choice(texts))
                if any(c_['type'] == 'empty' for e_ in (ops_.get('specific_operands') or {}).values() for c_ in e_['list'].values()) \
                        and operands and rng.random() < 0.6:
                    operands = operands[:-1]
            else:
                cnt = rng.choice([0, 1, 1, 2, 3])
                operands = [rng.choice(texts) for _ in range(cnt)]
            addr = rng.choice([0, 16, 100])
            kind, stmt, info = self.model(isa, operands, addr)
            tags = set()
            zt = {'GLOBAL': (0, 65535)}
            exp = None
            if kind == 'ACCEPT' and any(op.get('undefined') or (op.get('index') or {}).get('undefined') for op in stmt['ops']):
                kind = 'REJECT'          # the chosen candidate refers to a label that is never defined
                tags.add('reject:undefined-label-in-chosen-candidate')
            if kind == 'ACCEPT':
                try:
                    b, _ = encode.encode(isa, stmt, addr, zt)
                    exp = b.hex()
                except encode.Reject:
                    kind = 'REJECT'     # e.g. value outside a numeric_bytecode range: still a rejection
                    tags.add('reject:constraint')
                except encode.DontCare:
                    kind = 'DONT_CARE'
            acc = info['accepting']
            if kind == 'ACCEPT':
                if len(acc) >= 2:
                    vset = {a.split('/')[0] for a in acc}
                    if info.get('two_specific_entries_accept'):
                        tags.add('amb:two-specific-entries-accept')
                    if len(vset) >= 2:
                        tags.add('amb:variant1-and-2-accept')
                    if any('/specific' in a for a in acc) and any(a.endswith('/sets') and a.split('/')[0] in
                                                                         {x.split('/')[0] for x in acc if '/specific' in x} for a in acc):
                        tags.add('amb:specific-and-set-accept')
                if info.get('empty_in_candidate') and len(acc) >= 2:
                    tags.add('amb:implied-operand-entry-vs-shorter-variant')
                if stmt['spec'] is not None:
                    v_ = encode.variants_of(isa, 'amb')[stmt['variant']]
                    dp2_ = ((v_.get('operands') or {}).get('operand_sets') or {}).get('disallowed_pairs') or []
                    if [op_['id'] for op_ in stmt['ops']] in dp2_:
                        tags.add('amb:listed-combination-named-like-the-disallowed-pair')
                if info.get('disallowed_hit'):
                    tags.add('amb:disallowed-pair-hit')
                if mirrored and [op['id'] for op in stmt['ops']] == [mirrored[1][1], mirrored[1][0]] and stmt['spec'] is None:
                    tags.add('amb:disallowed-pair-mirrored-is-allowed')
                if self._opless_at is not None and operands and int(info['chosen'][1]) > self._opless_at:
                    tags.add('chosen:variant-behind-one-without-operands')
                if int(info['chosen'][1]) >= 1:
                    tags.add('chosen:variant>=2')
                    tags.add('later-candidate-after-nonaccepting-earlier')
                if info['chosen'].endswith('/specific'):
                    tags.add('chosen:specific')
                # which textual overlaps were in play in the chosen set
                for o, op in zip(operands, stmt['ops']):
                    if o['cls'] == 'word' and op.get('key') and o['e'] is not None:
                        tags.add('amb:key-vs-label')
                    if o.get('upper_index') and kind == 'ACCEPT':
                        tags.add('index-register-in-capitals-inside-brackets')
                    if o.get('opform'):
                        tags.add('operator-inside-bracketed-or-indexed-form')
                    if o.get('zero_key') and op.get('key'):
                        tags.add('amb:key-that-stands-for-0-vs-label')
                    if o['cls'] == 'word' and op.get('key') and stmt['spec'] is None:
                        for v_ in encode.variants_of(isa, 'amb'):
                            for sn in ((v_.get('operands') or {}).get('operand_sets') or {}).get('list', []):
                                ov_ = isa['operand_sets'][sn]['operand_values']
                                if op['id'] in ov_ and any(c_['type'] == 'relative_address' and not c_.get('use_curly_braces')
                                                           for c_ in ov_.values()):
                                    tags.add('amb:key-vs-relative-address')
                    if o['cls'] in ('indoff', 'ind', 'indnum') and stmt['spec'] is None:
                        tags.add('amb:bracketed-vs-numeric-set')
                    if o['cls'] == 'reg' and stmt['spec'] is None:
                        tags.add('amb:register-vs-numeric')
                        v_ = encode.variants_of(isa, 'amb')[stmt['variant']]
                        for sn in ((v_.get('operands') or {}).get('operand_sets') or {}).get('list', []):
                            ov_ = isa['operand_sets'][sn]['operand_values']
                            if op['id'] in ov_ and any(c_['type'] == 'numeric_enumeration' for c_ in ov_.values()):
                                tags.add('amb:register-vs-numeric-enumeration')
                                if any(c_['type'] == 'numeric_enumeration' and 'bytecode' not in c_ for c_ in ov_.values()):
                                    tags.add('amb:register-vs-numeric-enumeration-with-argument-table-only')
                    if o['cls'] == 'reg' and o['r'] == 'ah' and len(acc) >= 1:
                        tags.add('amb:register-that-reads-as-a-number')
                    if o['cls'] == 'idx' and o.get('lab'):
                        tags.add('amb:indexed-vs-label-expression')
                    if op.get('index_key'):
                        tags.add('amb:index-key-vs-index-expression')
            if 'reject:constraint' in tags and len(acc) >= 2 and any(o.get('big') for o in operands):
                tags.add('amb:out-of-range-literal-with-later-accepting-candidate')
            if kind == 'ACCEPT' and any(o['cls'] == 'dind' for o in operands):
                tags.add('chosen:decorated-bracketed-register')
                if any(o['cls'] == 'dind' and o['dec'][1] for o in operands):
                    tags.add('chosen:decorated-bracketed-register/decorator-in-front')
            if kind == 'ACCEPT' and any(o['cls'] == 'dreg' for o in operands):
                tags.add('amb:decorated-register-vs-numeric')
            if kind == 'REJECT':
                if any(o['cls'] == 'dreg' for o in operands):
                    tags.add('reject:register-inside-expression')
                if any(o['cls'] == 'reg' for o in operands):
                    tags.add('reject:register-in-numeric-position')
                if any(o['cls'] == 'regexpr' for o in operands):
                    tags.add('reject:register-inside-expression')
                counts = set()
                for v in encode.variants_of(isa, 'amb'):
                    counts.add((v.get('operands') or {}).get('count', 0))
                if len(operands) not in counts:
                    tags.add('reject:no-variant-takes-count')
            mn = 'amb'
            shared_def = False
            if any(((v_.get('operands') or {}).get('operand_sets') or {}).get('disallowed_pairs') for v_ in encode.variants_of(isa, 'amb')) \
                    and (i % 3 == 1 or rng.random() < 0.2):
                # a second mnemonic defined by the very same block (an anchor and an alias in the YAML file): what the first
                # one's construction does to the block must not change what the second one means
                isa['instructions'] = {'amb': isa['instructions']['amb'], 'amc': isa['instructions']['amb'], 'nop': isa['instructions']['nop']}
                mn = 'amc'
                shared_def = True
                tags.add('definition-shared-by-anchor-and-alias')
            r = rng.random()
            if r < 0.15:
                mn = mn.upper()
                tags.add('mnemonic:upper')
            elif r < 0.3:
                mn = rng.choice([mn.capitalize(), mn[0] + mn[1].upper() + mn[2], mn[:2] + mn[2].upper()])
                tags.add('mnemonic:mixed')
            text = mn + (' ' + ', '.join(o['text'] for o in operands) if operands else '')
            if kind == 'ACCEPT' and operands and '"type": "empty"' not in json.dumps(isa) and (i % 7 == 2 or rng.random() < 0.08):
                # a comma with nothing on one side of it is an operand nobody wrote: no variant takes the statement
                ots_ = [o['text'] for o in operands]
                shape_ = [lambda t_: ', '.join(t_) + ',', lambda t_: ', ' + ', '.join(t_), lambda t_: t_[0] + ', , ' + ', '.join(t_[1:] or ['5']),
                          lambda t_: ', '.join(t_) + ' ,', lambda t_: ',' + ','.join(t_)][i % 5]
                text = mn + ' ' + shape_(ots_)
                kind = 'REJECT'
                exp = None
                tags = {'reject:empty-operand-beside-a-comma'}
            # a primer: an earlier statement of the same mnemonic that a LATER variant takes - which variant a statement gets
            # never depends on the statements before it
            primer = ''
            vs_all = encode.variants_of(isa, 'amb')
            if len(vs_all) >= 2 and (i % 3 == 0 or rng.random() < 0.3):
                for _try in range(6):
                    pv = rng.randrange(1, len(vs_all))
                    pops_ = vs_all[pv].get('operands') or {}
                    p_operands = []
                    for k_ in range(pops_.get('count', 0)):
                        confs_ = []
                        if 'operand_sets' in pops_:
                            confs_ = list(isa['operand_sets'][pops_['operand_sets']['list'][k_]]['operand_values'].values())
                        elif 'specific_operands' in pops_:
                            confs_ = [list(e_['list'].values())[k_] for e_ in pops_['specific_operands'].values() if len(e_['list']) > k_]
                        cand_ = [t for t in texts if any(c_['type'] != 'empty' and accepts('x', c_, t, 0) is not None for c_ in confs_)]
                        if cand_:
                            p_operands.append(rng.choice(cand_))
                    pk, pstmt, pinfo = self.model(isa, p_operands, 0x400)
                    if pk != 'ACCEPT' or any(op_.get('undefined') or (op_.get('index') or {}).get('undefined') for op_ in pstmt['ops']):
                        continue
                    try:
                        encode.encode(isa, pstmt, 0x400, zt)
                    except (encode.Reject, encode.DontCare):
                        continue
                    if int(pinfo['chosen'][1]) < 1:
                        continue
                    primer = '.org $400\namb' + (' ' + ', '.join(o_['text'] for o_ in p_operands) if p_operands else '') + '\n'
                    tags.add('primer:earlier-statement-took-a-later-variant')
                    break
            src = ''.join(f'{k} = {v}\n' for k, v in LABELS.items()) + primer + f'.org {addr}\n{text}\n.byte $EE\n'
            isa_w = isa
            if not shared_def and ((i < n_pre and i % 10 == 2) or (i >= n_pre and rng.random() < 0.15)):
                # the configuration spells its registers with capitals (in the register list and in every operand that names one):
                # a register name is a register name in any letter case
                cap_ = {'a': 'A', 'b': 'B', 'sp': 'Sp', 'ah': 'AH'}

                def cap_regs(x):
                    if isinstance(x, dict):
                        return {k_: (cap_.get(v_, v_) if k_ == 'register' and isinstance(v_, str) else cap_regs(v_)) for k_, v_ in x.items()}
                    if isinstance(x, list):
                        return [cap_regs(v_) for v_ in x]
                    return x
                isa_w = cap_regs(isa)
                isa_w['general']['registers'] = [cap_.get(r_, r_) for r_ in isa['general']['registers']]
                tags.add('registers-declared-with-capitals')
            fn, itext = isamod.render_isa(isa_w, 'yaml' if ('numeric_enumeration' in json.dumps(isa) or shared_def) else 'json')
            tags.add('expect:' + kind)
            ntk = None
            if len(acc) >= 2:
                ntk = '|'.join(sorted(o['cls'] for o in operands)) + '>' + ','.join(acc) + '>' + str(info.get('chosen'))
            yield {'runs': [{'files': {fn: itext, 'p.asm': src},
                             'argv': ['compile', '-c', fn, 'p.asm', '-o', 'out.bin', '-s', str(addr)],
                             'probes': ['steps', 'select'], 'step_limit': 300000}],
                   'meta': {'kind': kind, 'bytes': exp, 'text': text, 'info': info, 'nt': ntk,
                            'classes': [o['cls'] for o in operands]}, 'tags': sorted(tags)}

    def register_that_reads_as_a_number_cases(self):
        """a register whose name could be read as a hexadecimal number (AH) in a position that takes numeric expressions only:
        a register name, never a number - in any letter case, alone or inside an expression"""
        a8 = {'size': 8, 'byte_align': True}
        for typ in ('numeric', 'address', 'numeric_bytecode', 'relative_address', 'indirect_numeric'):
            conf = {'type': typ, 'bytecode': {'value': 3, 'size': 5}}
            if typ == 'numeric_bytecode':
                conf = {'type': typ, 'bytecode': {'size': 5, 'min': 0, 'max': 31}}
            elif typ == 'address':
                conf['argument'] = {'size': 16, 'byte_align': True}
            else:
                conf['argument'] = dict(a8)
            isa = isamod.base_isa(address_size=16, endian='big')
            isa['general']['registers'] = ['a', 'ah', 'bh', 'c0h']
            isa['operand_sets'] = {'only_num': {'operand_values': {'nv': conf}}}
            isa['instructions'] = {'amb': {'bytecode': {'value': 0xA0, 'size': 8}, 'operands': {'count': 1, 'operand_sets': {'list': ['only_num']}}}}
            fn, itext = isamod.render_isa(isa, 'json')
            for reg in ('ah', 'AH', 'Ah', 'bh', 'C0H', 'ah+1', '1+AH', '(bh)'):
                text = f'[{reg}]' if typ == 'indirect_numeric' else reg
                src = f'.org 0\namb {text}\n.byte $EE\n'
                yield {'runs': [{'files': {fn: itext, 'p.asm': src}, 'argv': ['compile', '-c', fn, 'p.asm', '-o', 'out.bin', '-s', '0'],
                                 'probes': ['steps', 'select'], 'step_limit': 300000}],
                       'meta': {'kind': 'REJECT', 'bytes': None, 'text': 'amb ' + text, 'info': {'why': 'register name in a numeric position'}, 'nt': None,
                                'classes': ['reg']},
                       'tags': sorted({'expect:REJECT', 'reject:register-in-numeric-position', 'reject:register-that-reads-as-a-number/' + typ,
                                       'reject:register-that-reads-as-a-number'})}

    def out_of_range_literal_cases(self):
        """which variant takes a numeric text does not depend on the value: a literal outside the range of the first variant's
        operand code is refused by that variant - it does not fall through to a later variant that could hold it"""
        for lo, hi in ((0, 15), (1, 8), (-4, 3)):
            isa = isamod.base_isa(address_size=16, endian='big')
            isa['operand_sets'] = {'s0': {'operand_values': {'nb': {'type': 'numeric_bytecode', 'bytecode': {'size': 5, 'min': lo, 'max': hi}}}},
                                   's1': {'operand_values': {'nn': {'type': 'numeric', 'bytecode': {'value': 9, 'size': 5}, 'argument': {'size': 8, 'byte_align': True}}}}}
            isa['instructions'] = {'amb': {'bytecode': {'value': 0x5, 'size': 3}, 'operands': {'count': 1, 'operand_sets': {'list': ['s0']}},
                                           'variants': [{'bytecode': {'value': 0x6, 'size': 3}, 'operands': {'count': 1, 'operand_sets': {'list': ['s1']}}}]}}
            fn, itext = isamod.render_isa(isa, 'json')
            for v in (hi + 1, hi + 2, 99, 127, hi, lo, lo - 1):
                ok = lo <= v <= hi
                text = str(v) if v >= 0 else f'0 - {-v}'
                exp = None
                if ok:
                    b_, _ = encode.encode(isa, {'mn': 'amb', 'variant': 0, 'spec': None, 'ops': [{'id': 'nb', 'val': v}]}, 0, {'GLOBAL': (0, 65535)})
                    exp = b_.hex()
                src = f'.org 0\namb {text}\n.byte $EE\n'
                yield {'runs': [{'files': {fn: itext, 'p.asm': src}, 'argv': ['compile', '-c', fn, 'p.asm', '-o', 'out.bin', '-s', '0'],
                                 'probes': ['steps', 'select'], 'step_limit': 300000}],
                       'meta': {'kind': 'ACCEPT' if ok else 'REJECT', 'bytes': exp, 'text': 'amb ' + text, 'info': {'range': [lo, hi]}, 'nt': None, 'classes': ['num']},
                       'tags': sorted({'expect:' + ('ACCEPT' if ok else 'REJECT'), 'reject:constraint', 'literal-outside-the-first-variant\'s-range-with-a-later-variant-that-could-hold-it'}
                                      if not ok else {'expect:ACCEPT', 'literal-on-the-edge-of-the-first-variant\'s-range'})}

    def zone_declared_later_cases(self):
        """an address alternative bound to a zone that the source declares only further down, in front of another numeric alternative:
        whatever is made of the statement, it is the same before and behind the declaration (the encoding depends on the definition's
        order, not on the place in the source) - or the program is refused"""
        for second in ('numeric-alternative', 'later-variant'):
            for text in ('$12', '5+5', 'lab_q'):
                isa = isamod.base_isa(address_size=16, endian='big')
                adr = {'type': 'address', 'bytecode': {'value': 5, 'size': 8}, 'argument': {'size': 8, 'byte_align': True, 'memory_zone': 'ZLATE'}}
                num = {'type': 'numeric', 'bytecode': {'value': 9, 'size': 8}, 'argument': {'size': 16, 'byte_align': True}}
                if second == 'numeric-alternative':
                    isa['operand_sets'] = {'s0': {'operand_values': {'az': adr, 'nn': num}}}
                    isa['instructions'] = {'amb': {'bytecode': {'value': 0xA0, 'size': 8}, 'operands': {'count': 1, 'operand_sets': {'list': ['s0']}}}}
                else:
                    isa['operand_sets'] = {'s0': {'operand_values': {'az': adr}}, 's1': {'operand_values': {'nn': num}}}
                    isa['instructions'] = {'amb': {'bytecode': {'value': 0xA0, 'size': 8}, 'operands': {'count': 1, 'operand_sets': {'list': ['s0']}},
                                                   'variants': [{'bytecode': {'value': 0xA1, 'size': 8}, 'operands': {'count': 1, 'operand_sets': {'list': ['s1']}}}]}}
                fn, itext = isamod.render_isa(isa, 'json')
                src = f'lab_q = $21\n.org 0\namb {text}\n.byte $EE\n#create_memzone ZLATE $0000 $00FF\n.org $10\namb {text}\n.byte $EE\n'
                yield {'runs': [{'files': {fn: itext, 'p.asm': src}, 'argv': ['compile', '-c', fn, 'p.asm', '-o', 'out.bin', '-s', '0'],
                                 'probes': ['steps', 'select'], 'step_limit': 300000}],
                       'meta': {'kind': 'SAME-OR-REFUSED', 'bytes': None, 'text': 'amb ' + text, 'info': {'second': second}, 'nt': None, 'classes': ['num']},
                       'tags': sorted({'same-statement-before-and-behind-a-zone-declaration'})}

    def judge(self, case, outcomes):
        o = outcomes[0]
        m = case['meta']
        tags = case['tags']
        nt = m['nt']
        if m['kind'] == 'SAME-OR-REFUSED':
            img = (o.get('files') or {}).get('out.bin')
            if o.get('timed_out'):
                return [core.violated('termination:' + str(o['timed_out']), {'statement': m['text']})]
            if o.get('exit') != 0 or img is None:
                return [core.held(buckets=tags)]
            b = bytes.fromhex(img)
            first = b[:b.index(0xEE)] if 0xEE in b[:16] else b[:16]
            second = b[0x10:0x10 + len(first)]
            if first != second:
                return [core.violated('encoding-depends-on-the-place-in-the-source', {'statement': m['text'], 'before': first.hex(), 'behind': second.hex()},
                                      buckets=tags)]
            return [core.held(buckets=tags)]
        det = {'statement': m['text'], 'model': m['info'], 'expected_bytes': m['bytes'],
               'isa': 'see replay', 'classes': m['classes']}
        if o.get('timed_out'):
            return [core.violated('termination:' + str(o['timed_out']), det)]
        if m['kind'] == 'DONT_CARE':
            return [core.dont_care('ambiguous within one priority class')]
        if m['kind'] == 'REJECT':
            if o.get('exit') == 0:
                det['image'] = (o.get('files') or {}).get('out.bin', '')[:40]
                cls = next((t for t in tags if t.startswith('reject:')), 'reject:other')
                return [core.violated('no-candidate-accepts-but-assembled/' + cls + '/' + '+'.join(sorted(set(m['classes']))), det,
                                      buckets=tags, nt=nt)]
            return [core.held(buckets=tags, nt=nt)]
        img = (o.get('files') or {}).get('out.bin')
        if o.get('exit') != 0 or img is None:
            det['stderr'] = (o.get('stderr') or '')[-400:]
            return [core.violated('accepting-candidate-exists-but-rejected/' + '+'.join(sorted(set(m['classes']))), det,
                                  buckets=tags, nt=nt)]
        n = len(m['bytes']) // 2
        if img[:2 * n] != m['bytes'] or img[2 * n:2 * n + 2] != 'ee':
            det['got'] = img[:2 * n + 6]
            sel = (o.get('probes') or {}).get('select') or {}
            det['variants_tried'] = sel.get('variants')
            det['operands_tried'] = sel.get('operands')
            return [core.violated('other-candidate-chosen/' + '+'.join(sorted(set(m['classes']))), det, buckets=tags, nt=nt)]
        return [core.held(buckets=tags, nt=nt)]

    def sample_of(self, case, outcomes):
        return {'statement': case['meta']['text'], 'model': case['meta']['info'], 'expected_bytes': case['meta']['bytes'],
                'exit': outcomes[0].get('exit'), 'image': (outcomes[0].get('files') or {}).get('out.bin', '')[:24]}
