"""C14 — assembly always terminates and fails closed.

Restated as bounded progress: every run ends within B = 200*(source lines) + 60000 monitored line-steps of the engine's
loops (sys.monitoring LINE events, `steps` probe), with RLIMIT_CPU as virtual-time backstop.
Oracle (fault enumeration): valid programs from the other generators, then a catalogue of corruptions.  Every run must
(a) terminate, (b) be consistent: exit 0 and an image exists, or exit != 0 and the pre-placed sentinel image is untouched
and was never opened for writing; (c) runs with a planted must-reject fault (unresolvable label, unknown instruction,
statement no variant accepts, value its field cannot hold) must exit != 0.
"""
import os
import re

from vf import core, isa as isamod, gen_prog
from vf.oracles import c10, c18

SENTINEL = 'SENTINEL-IMAGE-DO-NOT-TOUCH\n'
FORMATS = [None, 'listing', 'hex', 'intel_hex', 'minhex']
ZERO_LEN = ['.fill 0, 7', '.zero 0', '.zerountil 0', '.byte ""', ".cstr ''"]


def base_program(rng):
    """a valid program (source lines) + ISA, from the C18 AST generator (bracketed / indexed / enumeration operands)"""
    endian = rng.choice(['big', 'little'])
    isa = c18.c18_isa(endian)
    if rng.random() < 0.3:
        isa['general']['allow_embedded_strings'] = True
    ast = c18.gen_ast(rng)
    src = c18.render(ast, rng, set(rng.sample(c18.REWRITES, rng.randrange(0, 4))))
    return isa, src.rstrip('\n').split('\n')


def long_runs(n, blank=' '):
    B = blank * n
    return [f'.fill 1{B}x', f'.fill 16{B}0', f'.byte 1{B}2', f'K_run = 1{B}2', f'.org 5{B}junk', f'ldi 1{B}2',
            f'.zero 3{B}q', f'.2byte 1,{B}2 3', f'lbl_run:{B}nop', f'#if 1{B}x\n#endif', f'#if K_none{B}== 1 1\n#endif',
            f'.zerountil 3{B}q', f'.align 4{B}q', f'.cstr "a"{B}x', f'nop{B}', f'{B}nop', f'.fill{B}1{B},{B}2{B}x',
            '.byte ' + '(' * n + '1' + ')' * n, '.byte ' + '(' * n + '1', '.byte ' + '-' * n + '1',
            '.byte ' + '+'.join(['1'] * n), '.byte ' + ','.join(['1'] * n) + ' x', '.2byte ' + 'L' * (n * 5),
            '.cstr "' + 'a' * (n * 5) + '"', '.cstr "' + 'a' * (n * 5), 'K_run2 = ' + '1' * n + 'x',
            '.byte ' + 'BYTE0(' * min(n, 200) + '1' + ')' * min(n, 200), '.byte 1' + ' ;' * n, 'l' * n + ':' + B + 'l' * n + ':',
            # long identifiers / numbers in front of text that cannot follow them (e.g. a forgotten comma)
            '.fill ' + 'L' * n, '.fill ' + '1' * n + ' x', '.fill ' + '1' * n, '.fill 1, ' + 'b01' * (n // 3 + 1) + ' q',
            '.byte ' + '0a' * (n // 2 + 1) + 'H z', '.fill ' + 'count_of_things_' * (n // 16 + 1) + ' 0', '.org ' + '7' * n + ' "ZQ" x',
            'K_run3 = ' + 'f' * n + ' ]', '#if ' + 'S' * n + ' =', '#if ' + '9' * n + ' == x y', '.zero ' + 'z' * n + ' 1',
            'ldi ' + 'v' * n + ' w', 'ldi ' + '5' * n + ' 6', '.2byte 1, ' + 'q' * n + ' r',
            # long words inside operand forms that cannot be completed (unterminated brace / bracket, trailing junk)
            'bra {' + 'a' * n, 'bra {' + '1' * n + ' x', 'bra { ' + 'lbl_' * (n // 4 + 1) + ' + 1', 'ldx [sp+' + 'L' * n, 'ldx [' + 'q' * n + ' x]',
            'lix sp+' + 'L' * n + ' x', 'liy [a+' + '7' * n, 'sel ' + 'k' * n + ' k', 'mv2 a, ' + 'w' * n + ' 1', 'ldq [' + '9' * n,
            'psh ' + 'p' * n + '++', 'inr ' + 'r' * n + ' r', 'jmp ' + 'j' * n + ' +', 'bra {' + 'a' * n + '} x',
            # long names on preprocessor and zone lines that cannot be completed (a dropped or wrong closing quote, junk behind)
            '#include "' + 'inc_' * (n // 4 + 1) + '.asm', '#include "' + 'a' * n + ".asm' x", '#include ' + 'a' * n + '.asm',
            '#include "' + 'a.' * (n // 2 + 1) + 'asm"x"', '#include "' + 'dir-' * (n // 4 + 1) + 'f.asm" "', "#include '" + '_' * n,
            '#require "bespokeasm >= ' + '1' * n, '#require "' + 'b' * n + '" x', '#require "bespokeasm >= 0.' + '0' * n + '.x"',
            '#define ' + 'D' * n + ' ' + '(' * min(n, 200), '#define ' + 'D' * n + '(', '#define 9' + 'D' * n + ' 1',
            '#create_memzone ' + 'Z' * n + ' 1 x', '#create_memzone ZRUN 1 ' + '9' * n + ' q', '#create_memzone ZRUN ' + '$' + 'f' * n,
            '.memzone ' + 'Z' * n + ' x', '.org 1 "' + 'Z' * n, '.org 1 "' + 'Z' * n + '" "', '#ifdef ' + 'S' * n + ' S', '#ifndef ' + '9' * n,
            '#elif ' + 'e' * n, '#mute ' + 'm' * n, '#' + 'x' * n,
            # long conditional chains and deep nesting (work must not multiply per branch / level)
            '\n'.join(['#if 0', '.byte 1'] + ['#elif 0\n.byte 2'] * min(n, 120) + ['#else', '.byte 3', '#endif']),
            '\n'.join(['#if 0', '.byte 1'] + ['#elif 0\n.byte 2'] * min(n, 120) + ['#elif 1', '.byte 3', '#endif']),
            '\n'.join(['#ifdef NOT_DEF_RUN', '.byte 1'] + ['#elif NOT_DEF_RUN == 3\n.byte 2'] * min(n, 120) + ['#endif']),
            '\n'.join(['#if 1'] * min(n, 300) + ['.byte 1'] + ['#endif'] * min(n, 300)),
            '\n'.join(['#if 0'] * min(n, 300) + ['.byte 1'] + ['#endif'] * min(n, 300)),
            '\n'.join([f'#define RUN_S{i_} RUN_S{i_ + 1}' for i_ in range(min(n, 300))] + [f'#define RUN_S{min(n, 300)} 7', '.byte RUN_S0']),
            '\n'.join(['#mute'] * min(n, 500) + ['.byte 1'] + ['#unmute'] * min(n, 500))]


# a name whose only definition stands in a branch that is not compiled is not defined
DEAD_BRANCH_NAMES = ['#if 0\nK_DEAD1 = 5\n#endif\nldi K_DEAD1', '#ifdef C14_NOT_DEFINED\ndead_lbl2:\nnop\n#endif\njmp dead_lbl2',
                     '#if 1\nnop\n#else\nK_DEAD3 EQU 7\n#endif\n.byte K_DEAD3', '#if 0\n#define DEAD_SYM4 9\n#endif\n.byte DEAD_SYM4',
                     '#if 0\n#elif 0\nK_DEAD5 = 1\n#else\nnop\n#endif\n.2byte K_DEAD5 + 1', '#if 0\n#if 1\nK_DEAD6 = 2\n#endif\n#endif\nmv2 a, K_DEAD6',
                     '#ifndef C14_NOT_DEFINED\nnop\n#else\n_dead_f7:\nnop\n#endif\n.2byte _dead_f7']


def _maybe_muted(rng, ins):
    """a faulty statement is faulty also where nothing is emitted: a quarter of the planted faults sit inside #mute .. #unmute"""
    if rng.random() < 0.25 and not ins.startswith('#mute'):
        return '#mute\n' + ins + '\n' + rng.choice(['#unmute', '#emit'])
    return ins


def corrupt(rng, lines, kind):
    """-> (new lines, planted must-reject class or None, position tag) or None if not applicable"""
    L = list(lines)
    # positions outside conditional blocks (a fault planted inside an unselected branch is no fault), not on directives
    depth_, open_ = 0, set()
    for i_, l_ in enumerate(L):
        t_ = l_.strip().split(None, 1)[0] if l_.strip() else ''
        if t_ in ('#if', '#ifdef', '#ifndef'):
            depth_ += 1
        if depth_ > 0 or t_.startswith('#'):
            open_.add(i_)
        if t_ == '#endif':
            depth_ = max(0, depth_ - 1)
    code_idx = [i for i, l in enumerate(L) if l.strip() and not l.strip().startswith(';') and i not in open_]
    instr_idx = [i for i in code_idx if re.match(r'\s*(\w+:\s*)?(nop|q4|inr|nib|ldi|q12|tri|jmp|ldx|sel|mv2|lix|liy|bra|psh|ldq|ldn)\b', L[i], re.I)
                 and not L[i].strip().startswith('.')]
    if not code_idx:
        return None

    def pos_tag(i):
        return 'first' if i == code_idx[0] else 'last' if i == code_idx[-1] else 'middle'
    if kind in ('drop-token', 'dup-token', 'swap-token', 'truncate-line'):
        i = rng.choice(code_idx)
        toks = re.findall(r'\S+|\s+', L[i])
        words = [k for k, t in enumerate(toks) if not t.isspace()]
        if not words:
            return None
        if kind == 'drop-token':
            del toks[rng.choice(words)]
        elif kind == 'dup-token':
            k = rng.choice(words)
            toks.insert(k, toks[k] + ' ')
        elif kind == 'swap-token':
            if len(words) < 2:
                return None
            a, b = rng.sample(words, 2)
            toks[a], toks[b] = toks[b], toks[a]
        else:
            s = L[i].rstrip()
            if len(s) < 2:
                return None
            toks = [s[:rng.randrange(1, len(s))]]
        L[i] = ''.join(toks)
        return L, None, pos_tag(i)
    if kind in ('drop-line', 'dup-line', 'swap-line'):
        i = rng.choice(code_idx)
        if kind == 'drop-line':
            del L[i]
        elif kind == 'dup-line':
            L.insert(i, L[i])
        else:
            j = rng.choice(code_idx)
            L[i], L[j] = L[j], L[i]
        return L, None, pos_tag(i)
    if kind == 'garble-mnemonic':
        if not instr_idx:
            return None
        i = rng.choice(instr_idx)
        L[i] = re.sub(r'(?i)\b(nop|q4|inr|nib|ldi|q12|tri|jmp|ldx|sel|mv2|lix|liy|bra|psh|ldq|ldn)\b', rng.choice(['xyzzy', 'ldzz', 'n0p', 'jmpp']), L[i], count=1)
        return L, 'unknown-instruction', pos_tag(i)
    if kind == 'garble-after-statement':
        i = rng.choice(code_idx)
        ins = rng.choice(['nop xyzzy 1', 'lbl_gx: frob 2', 'inr a blorp', 'K_g = 5 zorch', '.byte 1 wibble', 'nop nop qqq7'])
        L.insert(i, _maybe_muted(rng, ins))
        return L, 'unknown-instruction', pos_tag(i)
    if kind == 'undefined-label':
        i = rng.choice(code_idx)
        ins = rng.choice(['jmp nowhere_label', 'ldi BYTE0(_no_such)', '.2byte undefined_thing + 1', 'bra {missing_lbl}', '.byte .orphan_ref',
                          '.fill 0, no_such_fill_value', '.fill 0, undefined_v + 1', '.fill 3, nope_val', '.fill missing_count, 1',
                          '.zero nope_cnt', '.zerountil not_defined_addr', '#mute\n.byte muted_undefined_ref\n#unmute',
                          '.org undefined_origin', '.align undefined_page', 'K_bad = undefined_in_constant + 1',
                          'mv2 a, unknown_imm', 'ldx [sp+undefined_off]', 'lix sp+undefined_idx',
                          # a local label that exists, but not in the region of the reference
                          'c14_g1:\n.c14_loc:\nnop\n_c14_f:\njmp .c14_loc', 'c14_g2:\n.c14_loc2:\nnop\nc14_g3:\njmp .c14_loc2',
                          'c14_g4:\n.c14_loc3:\nnop\n.org $780\njmp .c14_loc3', '_c14_f2:\n.c14_loc4:\nnop\n_c14_f3:\n.2byte .c14_loc4'] + DEAD_BRANCH_NAMES)
        L.insert(i, _maybe_muted(rng, ins))
        return L, 'unresolvable-label', pos_tag(i)
    if kind == 'no-variant':
        i = rng.choice(code_idx)
        ins = rng.choice(['nop 5', 'inr 7', 'ldi', 'ldi 1, 2', 'mv2 a', 'jmp [sp+1]', 'sel notakey', 'inr [a]', 'ldx sp', 'nib a', 'q4 1',
                          'mv2 5, a', 'lix a+1',
                          # stray commas: an empty position in the operand list is not "no operand"
                          'mv2 a,,1', 'mv2 a, 1,', 'mv2 ,a, 1', 'inr a,', 'nop ,', 'ldi 5,', 'ldi ,5', 'mv2 a, ,1', 'inr ,', 'ldi ,',
                          'mv2 a,, 1', 'inr a ,'])
        L.insert(i, _maybe_muted(rng, ins))
        return L, 'no-variant-accepts', pos_tag(i)
    if kind == 'value-overflow':
        i = rng.choice(code_idx)
        ins = rng.choice(['ldi 256', 'ldi -129', 'nib 16', 'tri 4096', 'jmp 65536', 'q12 300', 'ldi $1ff', 'nib -9', 'ldx [sp+256]',
                          'mv2 a, 1000', 'tri -2049'])
        L.insert(i, _maybe_muted(rng, ins))
        return L, 'value-does-not-fit-field', pos_tag(i)
    if kind == 'unbalance':
        i = rng.choice(code_idx)
        ch = rng.choice(['"', "'", '[', ']', '(', ')', '{', '}'])
        k = rng.randrange(0, len(L[i]) + 1)
        L[i] = L[i][:k] + ch + L[i][k:]
        return L, None, pos_tag(i)
    if kind == 'zero-length':
        z = rng.choice(ZERO_LEN)
        where = rng.choice(['start', 'middle', 'end', 'before-org-gap', 'muted', 'end-after-label'])
        if where == 'start':
            L.insert(code_idx[0] + 1 if L[code_idx[0]].startswith('.org') else 0, z)
        elif where == 'middle':
            L.insert(rng.choice(code_idx), z)
        elif where == 'end':
            L.append(z)
        elif where == 'before-org-gap':
            L += [z, '.org $700', '.byte 1']
        elif where == 'muted':
            L += ['#mute', z, '.byte 2', '#unmute']
        else:
            L += ['tail_lbl:', z]
        return L, None, 'zero-length@' + where
    if kind == 'junk':
        i = rng.choice(code_idx)
        L.insert(i, ''.join(chr(rng.choice([1, 7, 27, 127, 0xA0, 0xFF, 0x2028, 0x1F600, 9, 11, 12])) for _ in range(rng.randrange(1, 12))))
        return L, None, pos_tag(i)
    if kind == 'odd-spacing':
        # blanks in unusual places around punctuation (a label's colon, '=', commas, brackets, operators)
        if rng.random() < 0.5:
            i = rng.choice(code_idx)
            out = []
            for ch in L[i]:
                if ch in ':,=[]()+-{}"\'' and rng.random() < 0.5:
                    ch = rng.choice([' ' + ch, ch + ' ', ' ' + ch + ' ', '\t' + ch, '  ' + ch])
                out.append(ch)
            L[i] = ''.join(out)
        else:
            i = rng.choice(code_idx)
            L.insert(i, rng.choice(['spaced_lbl : nop', 'spaced_lbl2 :', 'spaced_lbl3\t: ldi 1', '.sp_loc : nop', '_sp_file : .byte 1',
                                    'K_sp=5', 'K_sp2 =5', 'K_sp3= 5', 'K_sp4  EQU  5', '.byte 1 , 2', '.byte 1 ,2', 'mv2 a ,1', 'mv2 a , 1',
                                    'ldx [ sp + 1 ]', 'ldx [sp +1]', 'ldx [ sp+1]', 'bra { spaced_t }', 'spaced_t : spaced_u : nop',
                                    '.org 8 "ZQ"', '.org  8', '. byte 1', '.byte1', '# if 1\n#endif', '#if1\n#endif', 'nop ; c ; d',
                                    'spaced_v:spaced_w:nop', ': nop', 'nop :', '= 5', 'K_sp5 = = 5', 'lbl_sp6 : = 5']))
        return L, None, pos_tag(i)
    if kind == 'long-run':
        # very long runs of one token / character: matching and parsing must stay (near) linear
        ins = rng.choice(long_runs(rng.choice([25, 40, 80, 200, 1000]), rng.choice([' ', ' ', '\t', ' \t'])))
        i = rng.choice(code_idx)
        L.insert(i, ins)
        return L, None, pos_tag(i)
    if kind == 'directive-case':
        # directive keywords in upper / mixed case (whatever the tool makes of them, it must decide and fail closed)
        if rng.random() < 0.5:
            dl = [i for i in code_idx if L[i].lstrip().startswith(('.', '#'))]
            if dl:
                i = rng.choice(dl)
                m_ = re.match(r'(\s*)([.#]\w+)(.*)', L[i], re.S)
                w_ = m_.group(2)
                L[i] = m_.group(1) + rng.choice([w_.upper(), w_.capitalize(), w_[:2].upper() + w_[2:], w_.title()]) + m_.group(3)
                return L, None, pos_tag(i)
        i = rng.choice(code_idx)
        L.insert(i, rng.choice(['.ORG 4', '.BYTE 1, 2', '.ALIGN 4', '.FILL 2, 1', '.Zero 2', '.ZEROUNTIL 9', '.CSTR "x"', '.AsciiZ "y"',
                                '.2BYTE 5', '.MEMZONE GLOBAL', '.Org 4', '.Byte 7', '#DEFINE UC_SYM 1', '#IF 1\n.byte 1\n#ENDIF', '#Mute\n#Unmute',
                                '#IFDEF UC_X\n#ELSE\n#ENDIF', '#if 1\n.byte 1\n#ENDIF', '#INCLUDE "nothere.asm"', '#REQUIRE "x"']))
        return L, None, pos_tag(i)
    if kind == 'only-zero-length':
        # a program whose byte-producing lines all have length zero (with labels, constants, comments around them)
        zs = [rng.choice(ZERO_LEN) for _ in range(rng.randrange(1, 5))]
        P = [rng.choice(['.org 0', '.org 16', '; zero length only'])]
        for z in zs:
            P.append(z)
            if rng.random() < 0.4:
                P.append(rng.choice(['zl_lbl%d:' % len(P), 'ZL_K%d = 5' % len(P), '; c', '']))
        return P, None, 'whole'
    if kind == 'empty-file':
        return [], None, 'whole'
    if kind == 'comments-only':
        return ['; nothing here', '', ';; still nothing'], None, 'whole'
    if kind == 'none':
        return L, None, 'valid'
    raise ValueError(kind)


CORRUPTIONS = ['none', 'garble-after-statement', 'drop-token', 'dup-token', 'swap-token', 'truncate-line', 'drop-line', 'dup-line', 'swap-line',
               'garble-mnemonic', 'undefined-label', 'no-variant', 'value-overflow', 'unbalance', 'zero-length', 'junk', 'empty-file',
               'comments-only', 'long-run', 'odd-spacing', 'only-zero-length', 'directive-case']


class C14(core.Check):
    pid = 'C14'
    level = 'fault_enumeration'
    rule = ('valid programs (instructions over plain / bracketed / indexed / enumeration operands, labels, constants, data) and '
            'example programs, each put through a catalogue of corruptions (drop / duplicate / swap a token or a line, truncated '
            'line, garbled mnemonic, undefined label, operand shape no variant takes, value one past its field range, unbalanced '
            'quote or bracket, zero-length byte lines at start / middle / end / before an origin gap / inside a muted region / '
            'after a trailing label, binary-junk lines, empty file, comments only, output path in a missing directory), with and '
            'without each pretty-print format. Every run: terminate within the step bound, and either (exit 0 and image written) '
            'or (exit != 0 and the pre-placed sentinel image neither changed nor opened for writing); planted must-reject faults '
            'must exit != 0. distinct_nontrivial = distinct (corruption, position, format, outcome class) tuples.')
    rule = rule + ' ' + 'Symbol definitions closing a cycle of length 1..3 come in every order with uses in between, from #define / -D / configuration.'
    assumptions = ('termination is judged as bounded progress: B = 200 x source lines + 60000 monitored line-steps; RLIMIT_CPU is '
                   'the backstop; a wall-clock timeout is inconclusive (the step bound has a quadratic allowance per source line)',
                   'faults are planted in compiled code only (also inside #mute): a line of a conditional branch that is not compiled '
                   'contributes nothing (C08), and whether such a line makes the program one "containing" a fault is not fixed by the '
                   'statement - the pinned tree itself rejects an unknown mnemonic there but accepts trailing garbage after a directive')
    chunk = 1500
    required_buckets = {**{'corruption:' + c: 3 for c in CORRUPTIONS}, **{'fmt:' + str(f): 3 for f in FORMATS},
                        'planted:unresolvable-label': 3, 'planted:unknown-instruction': 3, 'planted:no-variant-accepts': 3,
                        'planted:value-does-not-fit-field': 3, 'pos:first': 3, 'pos:middle': 3, 'pos:last': 3,
                        'pos:zero-length@end': 2, 'pos:zero-length@start': 2, 'pos:zero-length@before-org-gap': 2,
                        'pos:zero-length@muted': 2, 'pos:zero-length@end-after-label': 2, 'outcome:success': 3,
                        'outcome:failure': 3, 'output-in-missing-directory': 3, 'long-run:directed': 20, 'odd-spacing:directed': 10, 'corpus-example': 2, 'window-options': 3,
                        'planted:symbol-cycle': 3, 'no-image-asked-for': 3, 'page-local-target:page-0': 3, 'corruption:name-defined-in-an-uncompiled-branch-only': 3, 'corruption:label-of-another-file-of-the-include-chain': 3, 'corruption:text-behind-a-complete-operand': 3, 'corruption:garbled-preprocessor-keyword': 3, 'corruption:garbled-directive': 3, 'corruption:disallowed-combination-of-one-or-three-operands': 3, 'allowed-combination-next-to-a-disallowed-one': 3, 'last-line-without-a-newline': 3, 'corruption:value-outside-a-bound-that-is-0': 3, 'value-on-a-bound-that-is-0': 3, 'symbol-cycle:use-before-it-closes': 3, 'symbol-cycle:first-from-cmdline': 3,
                        'symbol-cycle:first-from-config': 3}

    def make(self, isa_files, isa_name, main, src, fmt, planted, tags, missing_dir=False, extra_argv=()):
        files = dict(isa_files)
        tags = set(tags)
        if 'pos:last' in tags and len(src) % 2 == 0 and src.endswith('\n') and not src.endswith('\n\n'):
            # a fault on the last line is a fault also when no newline follows that line
            src = src[:-1]
            tags.add('last-line-without-a-newline')
        files[main] = src
        out = 'nodir/sub/out.bin' if missing_dir else 'out.bin'
        if not missing_dir:
            files['out.bin'] = SENTINEL
        argv = ['compile', '-c', isa_name, main, '-o', out] + list(extra_argv)
        if fmt:
            argv += ['-p', '-t', fmt, '--pretty-print-output', 'pp.txt']
        nlines = src.count('\n') + 1
        return {'runs': [{'files': files, 'argv': argv, 'probes': ['steps', 'files'],
                          # linear work per line plus a quadratic allowance (conditional chains walk their lineage);
                          # what the bound has to stop is work that multiplies per token or per branch
                          'step_limit': min(200 * nlines + 60000 + 60 * nlines * nlines, 8_000_000), 'cpu_s': 20}],
                'meta': {'planted': planted, 'out': out, 'missing_dir': missing_dir, 'nlines': nlines},
                'tags': sorted(tags)}

    def cases(self, tier, seed):
        n_pre = 40
        n = 40 if tier == 'quick' else 900
        for i in range(n_pre + n):
            rng = core.rng_for(0 if i < n_pre else seed, self.pid, i)
            isa, lines = base_program(rng)
            fn, itext = isamod.render_isa(isa, 'json')
            kinds = CORRUPTIONS if i < n_pre else rng.sample(CORRUPTIONS, 8)
            for k, kind in enumerate(kinds):
                c = corrupt(rng, lines, kind)
                if c is None:
                    continue
                L, planted, pos = c
                src = '\n'.join(L) + ('\n' if L else '')
                fmts = FORMATS if (i < n_pre and (i + k) % 3 == 0) else [rng.choice(FORMATS), None]
                for fmt in dict.fromkeys(fmts):
                    tags = {'corruption:' + kind, 'fmt:' + str(fmt), 'pos:' + pos}
                    if planted:
                        tags.add('planted:' + planted)
                    extra = []
                    if rng.random() < 0.35:
                        extra = rng.choice([['-e', '200'], ['-s', '2', '-e', '90'], ['-s', '1'], ['-e', '5', '-f', '255']])
                        tags.add('window-options')
                    elif (i + k) % 5 == 0:
                        # no image asked for: the program is judged all the same, and nothing touches the image that is there
                        extra = ['-n']
                        tags.add('no-image-asked-for')
                    yield self.make({fn: itext}, fn, 'p.asm', src, fmt, planted, tags, extra_argv=extra)
            if i % 4 == 0:
                yield self.make({fn: itext}, fn, 'p.asm', '\n'.join(lines) + '\n', None, None,
                                {'output-in-missing-directory', 'fmt:None', 'corruption:none'}, missing_dir=True)
        # every long-run shape, in front of, inside and after a valid program
        rng = core.rng_for(0, self.pid, 'runs')
        isa, lines = base_program(rng)
        fn, itext = isamod.render_isa(isa, 'json')
        for n_ in ([40, 300] if tier == 'quick' else [25, 40, 80, 300, 1000, 3000]):
            for blank in (' ', '\t'):
                for k, ins in enumerate(long_runs(n_, blank)):
                    at = [0, len(lines) // 2, len(lines)][k % 3]
                    L = lines[:at] + [ins] + lines[at:]
                    c_ = self.make({fn: itext}, fn, 'p.asm', '\n'.join(L) + '\n', None, None,
                                   {'corruption:long-run', 'fmt:None', 'long-run:directed', 'pos:' + ['first', 'middle', 'last'][k % 3]})
                    # linear and quadratic work is fine; the bound only has to stop work that multiplies per element
                    c_['runs'][0]['step_limit'] = 6_000_000
                    yield c_
        odd = ['spaced_lbl : nop', 'spaced_lbl2 :', 'spaced_lbl3\t: ldi 1', '.sp_loc : nop', '_sp_file : .byte 1', 'K_sp=5', 'K_sp2 =5',
               'K_sp4  EQU  5', '.byte 1 , 2', 'mv2 a ,1', 'ldx [ sp + 1 ]', 'bra { spaced_t }', 'spaced_t : spaced_u : nop',
               'spaced_v:spaced_w:nop', ': nop', 'nop :', '= 5', 'K_sp5 = = 5', 'lbl_sp6 : = 5', '. byte 1', '# if 1\n#endif']
        for k, ins in enumerate(odd):
            at = [0, len(lines) // 2, len(lines)][k % 3]
            L = lines[:at] + [ins] + lines[at:]
            yield self.make({fn: itext}, fn, 'p.asm', '\n'.join(L) + '\n', None, None,
                            {'corruption:odd-spacing', 'fmt:None', 'odd-spacing:directed', 'pos:' + ['first', 'middle', 'last'][k % 3]})
        # symbol definitions that close a cycle, in every definition order, with uses in between (each name is also a constant,
        # so a use made before the cycle closes is fine): the use after the last definition is rejected - and terminates
        import itertools
        nm_ = ['SIZE_', 'LIMIT', 'QUOTA']
        for L_ in (1, 2, 3):
            for perm in itertools.permutations(range(L_)):
                for use in range(L_):
                    for src_kind in ('define', 'cmdline', 'config'):
                        body = [f'{nm_[j_]} = {j_ + 4}' for j_ in range(L_)]
                        extra, isa_c = [], isa
                        for n_def, j_ in enumerate(perm):
                            d_ = (nm_[j_], nm_[(j_ + 1) % L_])
                            if n_def == 0 and src_kind == 'cmdline':
                                extra = ['-D', f'{d_[0]}={d_[1]}']
                            elif n_def == 0 and src_kind == 'config':
                                isa_c = dict(isa, predefined=dict(isa.get('predefined') or {}, symbols=[{'name': d_[0], 'value': d_[1]}]))
                            else:
                                body.append(f'#define {d_[0]} {d_[1]}')
                            body.append(f'.byte {nm_[use]}')
                        fn_c, itext_c = isamod.render_isa(isa_c, 'json')
                        at = [0, len(lines) // 2, len(lines)][(L_ + use) % 3]
                        Lc = lines[:at] + body + lines[at:]
                        c_ = self.make({fn_c: itext_c}, fn_c, 'p.asm', '\n'.join(Lc) + '\n', None, 'symbol-cycle',
                                       {'corruption:symbol-cycle', 'fmt:None', 'planted:symbol-cycle', 'symbol-cycle:first-from-' + src_kind,
                                        'symbol-cycle:use-before-it-closes' if L_ > 1 else 'symbol-cycle:length-1',
                                        'pos:' + ['first', 'middle', 'last'][(L_ + use) % 3]}, extra_argv=extra)
                        yield c_
        for k_, ins in enumerate(DEAD_BRANCH_NAMES):
            for at in (0, len(lines) // 2, len(lines)):
                Ld = lines[:at] + [ins] + lines[at:]
                yield self.make({fn: itext}, fn, 'p.asm', '\n'.join(Ld) + '\n', None, 'unresolvable-label',
                                {'corruption:name-defined-in-an-uncompiled-branch-only', 'fmt:None', 'planted:unresolvable-label',
                                 'pos:' + ['first', 'middle', 'last'][[0, len(lines) // 2, len(lines)].index(at)]})
        # a file label (leading "_") belongs to its file: in another file of the include chain the name is not defined
        for k_, (main_x, incs_) in enumerate([
                (['_c14_priv:', '.byte 1', '#include "c14a.asm"'], {'c14a.asm': 'jmp _c14_priv\n'}),
                (['_c14_priv = 7', '#include "c14a.asm"'], {'c14a.asm': '.byte _c14_priv\n'}),
                (['_c14_priv:', '.byte 1', '#include "c14a.asm"'], {'c14a.asm': 'nop\n#include "c14b.asm"\n', 'c14b.asm': '.2byte _c14_priv\n'}),
                (['#include "c14a.asm"', 'jmp _c14_in'], {'c14a.asm': '_c14_in:\nnop\n'}),
                (['#include "c14a.asm"', '_c14_late:', 'nop'], {'c14a.asm': 'ldi BYTE0(_c14_late)\n'}),
                (['c14_glob:', '.c14_loc:', 'nop', '#include "c14a.asm"'], {'c14a.asm': 'jmp .c14_loc\n'})]):
            for at in (0, len(lines)):
                Lf = lines[:at] + main_x + lines[at:]
                files_ = dict({fn: itext}, **incs_)
                yield self.make(files_, fn, 'p.asm', '\n'.join(Lf) + '\n', None, 'unresolvable-label',
                                {'corruption:label-of-another-file-of-the-include-chain', 'fmt:None', 'planted:unresolvable-label',
                                 'pos:' + ('first' if at == 0 else 'last')})
        # text behind a complete operand is not part of any operand form: no variant takes the statement
        for k_, ins in enumerate(['c14_rl:\nbra {c14_rl} @!xyz', 'c14_rl:\nbra {c14_rl} 5', 'c14_rl:\nbra {c14_rl}}', 'c14_rl:\nbra {c14_rl} {c14_rl}',
                                  'ldx [sp+1] 2', 'ldx [sp] ]', 'lix sp+1 ]', 'liy [a+1] b', 'ldq [5] 6', 'psh sp++ +', 'sel eq ne', 'inr a b']):
            at = [0, len(lines) // 2, len(lines)][k_ % 3]
            Lt = lines[:at] + [ins] + lines[at:]
            yield self.make({fn: itext}, fn, 'p.asm', '\n'.join(Lt) + '\n', None, 'no-variant-accepts',
                            {'corruption:text-behind-a-complete-operand', 'fmt:None', 'planted:no-variant-accepts', 'pos:' + ['first', 'middle', 'last'][k_ % 3]})
        # a line that begins with # and is no preprocessor directive is an unknown statement, not a line to pass over
        for k_, ins in enumerate(['#esle', '#defne C14_FLAG 1', '#incude "c14x.asm"', '#iff 1', '#endfi', '#unmut', '#requir "x"',
                                  '#create_memzon C14Z 1 2', '#', '#define', '#ifdef', '#print "x"', '# define C14_X 1', '#DEFINE C14_X 1', '#Mute',
                                  '#if 1\n.byte 1\n#esle\n.byte 2\n#endif', '#includes "c14x.asm"', '#emitt']):
            at = [0, len(lines) // 2, len(lines)][k_ % 3]
            Lt = lines[:at] + [ins] + lines[at:]
            yield self.make({fn: itext}, fn, 'p.asm', '\n'.join(Lt) + '\n', None, 'unknown-instruction',
                            {'corruption:garbled-preprocessor-keyword', 'fmt:None', 'planted:unknown-instruction', 'pos:' + ['first', 'middle', 'last'][k_ % 3]})
        # a directive keyword with text glued to it is another word, and text behind a complete directive is not dropped
        for k_, ins in enumerate(['.alignxyz', '.align4', '.align 4, garbage', '.align 2 3', '.orgx 5', '.org5', '.bytes 1', '.byte1', '.zero2', '.zerox 2',
                                  '.fill 2, 1, 3', '.fillx 2, 1', '.memzone GLOBAL x', '.memzonex GLOBAL', '.cstr "a" x', '.cstrx "a"', '.2bytex 1',
                                  '.zerountilx 5', '.zerountil 5 x', '.aligned', '.alignnop', '.alignq4']):
            at = [0, len(lines) // 2, len(lines)][k_ % 3]
            Lt = lines[:at] + [ins] + lines[at:]
            yield self.make({fn: itext}, fn, 'p.asm', '\n'.join(Lt) + '\n', None, 'unknown-instruction',
                            {'corruption:garbled-directive', 'fmt:None', 'planted:unknown-instruction', 'pos:' + ['first', 'middle', 'last'][k_ % 3]})
        # a page-local target outside the instruction's page does not fit its field, wherever the two pages are
        for k_, (ia_, ta_) in enumerate([(0x0200, 0x0010), (0x0300, 0x00FF), (0x0100, 0x0000), (0x0200, 0x0300), (0x0210, 0x01FF),
                                         (0x4000, 0x0040), (0x0100, 0x4001)]):
            for via in ('literal', 'label', 'constant'):
                tgt_ = {'literal': f'${ta_:04x}', 'label': 'c14_pg_target', 'constant': 'C14_PG_K'}[via]
                body = ([f'C14_PG_K = ${ta_:04x}'] if via == 'constant' else []) + [f'.org ${ia_:04x}', f'jpl {tgt_}']
                if via == 'label':
                    body = [f'.org ${ta_:04x}', 'c14_pg_target:', '.byte 1'] + body if ta_ < ia_ else body + [f'.org ${ta_:04x}', 'c14_pg_target:', '.byte 1']
                yield self.make({fn: itext}, fn, 'p.asm', '\n'.join(body) + '\n', None, 'value-does-not-fit-field',
                                {'corruption:page-local-target-in-another-page', 'fmt:None', 'planted:value-does-not-fit-field',
                                 'page-local-target:' + ('page-0' if ta_ < 0x100 else 'other-page'), 'pos:last'})
        # a bound of an operand code field holds when it is 0 as well as when it is any other number: values below a minimum of 0
        # (and above the maximum) do not fit, whether written as a literal, an expression or a constant
        import copy
        isa_b = copy.deepcopy(isa)
        isa_b['operand_sets']['c14_bit3'] = {'operand_values': {'n3': {'type': 'numeric_bytecode', 'bytecode': {'size': 3, 'min': 0, 'max': 7}}}}
        isa_b['operand_sets']['c14_sgn3'] = {'operand_values': {'n3': {'type': 'numeric_bytecode', 'bytecode': {'size': 3, 'min': -4, 'max': 0}}}}
        isa_b['instructions']['bt3'] = {'bytecode': {'value': 0x15, 'size': 5}, 'operands': {'count': 1, 'operand_sets': {'list': ['c14_bit3']}}}
        isa_b['instructions']['sg3'] = {'bytecode': {'value': 0x16, 'size': 5}, 'operands': {'count': 1, 'operand_sets': {'list': ['c14_sgn3']}}}
        # combinations named as disallowed for instructions of one and of three operands are disallowed like pairs
        isa_b['instructions']['dp1'] = {'bytecode': {'value': 0x17, 'size': 6}, 'operands': {'count': 1, 'operand_sets': {'list': ['reg'], 'disallowed_pairs': [['rb']]}}}
        isa_b['instructions']['dp3'] = {'bytecode': {'value': 0x18, 'size': 2}, 'operands': {'count': 3, 'operand_sets': {
            'list': ['reg', 'reg', 'reg'], 'disallowed_pairs': [['ra', 'ra', 'ra'], ['rb', 'ra', 'rsp']]}}}
        fn_b, itext_b = isamod.render_isa(isa_b, 'json')
        for k_, ins in enumerate(['dp1 b', 'dp1 B', 'dp3 a, a, a', 'dp3 b, a, sp', 'dp3 A,a,A']):
            at = [0, len(lines) // 2, len(lines)][k_ % 3]
            Lt = lines[:at] + [ins] + lines[at:]
            yield self.make({fn_b: itext_b}, fn_b, 'p.asm', '\n'.join(Lt) + '\n', None, 'no-variant-accepts',
                            {'corruption:disallowed-combination-of-one-or-three-operands', 'fmt:None', 'planted:no-variant-accepts', 'pos:' + ['first', 'middle', 'last'][k_ % 3]})
        for k_, ins in enumerate(['dp1 a', 'dp1 sp', 'dp3 a, a, b', 'dp3 sp, a, b', 'dp3 b, a, a']):
            yield self.make({fn_b: itext_b}, fn_b, 'p.asm', '\n'.join(lines + [ins]) + '\n', None, None,
                            {'corruption:none', 'fmt:None', 'allowed-combination-next-to-a-disallowed-one', 'pos:last'})
        for k_, ins in enumerate(['bt3 -1', 'bt3 0-4', 'bt3 c14_two-3', 'bt3 8', 'bt3 -4', 'bt3 c14_two*4', 'sg3 1', 'sg3 c14_two', 'sg3 -5', 'sg3 3']):
            at = [0, len(lines) // 2, len(lines)][k_ % 3]
            Lt = ['c14_two = 2'] + lines[:at] + [ins] + lines[at:]
            yield self.make({fn_b: itext_b}, fn_b, 'p.asm', '\n'.join(Lt) + '\n', None, 'value-does-not-fit-field',
                            {'corruption:value-outside-a-bound-that-is-0', 'fmt:None', 'planted:value-does-not-fit-field', 'pos:' + ['first', 'middle', 'last'][k_ % 3]})
        for k_, ins in enumerate(['bt3 0', 'bt3 7', 'bt3 c14_two+5', 'sg3 0', 'sg3 -4', 'sg3 c14_two-3']):
            Lt = ['c14_two = 2'] + lines + [ins]
            yield self.make({fn_b: itext_b}, fn_b, 'p.asm', '\n'.join(Lt) + '\n', None, None,
                            {'corruption:none', 'fmt:None', 'value-on-a-bound-that-is-0', 'pos:last'})
        # corruptions of the repository's example programs (line-level, no AST needed)
        from vf import runner
        import sys
        sys.path.insert(0, os.path.join(runner.VERIF_ROOT, 'tools'))
        import examples_screen
        root = runner.repo_root()
        progs = list(examples_screen.programs(root))
        pick = [progs[0], progs[3]] if tier == 'quick' else progs
        for pi, (srcp, isap) in enumerate(pick):
            d = os.path.dirname(srcp)
            files = {}
            for fn_ in os.listdir(d):
                p_ = os.path.join(d, fn_)
                if os.path.isfile(p_) and os.path.splitext(fn_)[1] in examples_screen.EXT2ISA:
                    files['ex/' + fn_] = open(p_, encoding='utf-8', errors='surrogateescape').read()
            files['isa.yaml'] = open(isap).read()
            main = 'ex/' + os.path.basename(srcp)
            lines = files[main].split('\n')
            for k in range(6 if tier == 'quick' else 12):
                rng = core.rng_for(0, self.pid, 'corpus', pi, k)
                kind = ['drop-line', 'dup-line', 'swap-line', 'truncate-line', 'zero-length', 'junk', 'unbalance', 'drop-token'][k % 8]
                c = corrupt(rng, lines, kind)
                if c is None:
                    continue
                L, planted, pos = c
                fl = dict(files)
                fl.pop(main)
                case = self.make(fl, 'isa.yaml', main, '\n'.join(L), rng.choice(FORMATS), None,
                                 {'corpus-example', 'corruption:' + kind, 'pos:' + pos})
                case['runs'][0]['files']['out.bin'] = SENTINEL
                case['runs'][0]['step_limit'] = 200 * len(L) + 400000
                case['runs'][0]['cpu_s'] = 60
                yield case

    def judge(self, case, outcomes):
        o = outcomes[0]
        m = case['meta']
        tags = list(case['tags'])
        src = case['runs'][0]['files'].get('p.asm')
        det = {'argv': case['runs'][0]['argv'], 'source': (src or '')[:1500], 'exit': o.get('exit'),
               'stderr': (o.get('stderr') or '')[-300:]}
        if o.get('timed_out') == 'wall':
            return [core.inconclusive('wall-clock watchdog', det)]
        if o.get('timed_out') in ('steps', 'cpu'):
            det['steps'] = (o.get('probes') or {}).get('steps')
            pos = next((t for t in tags if t.startswith('pos:')), '')
            det['bound'] = o['timed_out']        # logical steps in the forked run; CPU seconds in the fresh-interpreter run
            return [core.violated(f'does-not-terminate-within-bound/{pos}', det, buckets=tags)]
        files = o.get('files') or {}
        out = m['out']
        ok = o.get('exit') == 0
        tags.append('outcome:success' if ok else 'outcome:failure')
        cls = 'success' if ok else 'failure'
        nt = '|'.join(t for t in tags if not t.startswith('planted:'))
        vs = []
        if ok:
            if m['planted']:
                vs.append(core.violated('planted-fault-accepted/' + m['planted'], det, buckets=tags, nt=nt))
            if m['missing_dir']:
                if out not in files:
                    vs.append(core.violated('success-reported-but-no-image', det, buckets=tags, nt=nt))
            elif '-n' in case['runs'][0]['argv']:
                if out in files or out in (o.get('missing_inputs') or []):
                    vs.append(core.violated('image-altered-although-none-was-asked-for', det, buckets=tags, nt=nt))
            else:
                if out not in files:
                    # the sentinel is still there unchanged: success was reported but nothing was written
                    vs.append(core.violated('success-reported-but-image-not-written', det, buckets=tags, nt=nt))
        else:
            if out in (o.get('missing_inputs') or []):
                # the image that was there before the run is gone
                vs.append(core.violated('failure-reported-but-image-deleted', det, buckets=tags, nt=nt))
            if out in files:
                fmt = next((t for t in tags if t.startswith('fmt:')), '')
                vs.append(core.violated('failure-reported-but-image-' + ('created' if m['missing_dir'] else 'altered') + '/' + fmt,
                                        det, buckets=tags, nt=nt))
            fp = (o.get('probes') or {}).get('files')
            # (an attempt to open a path in a missing directory IS the failure, not a write before it)
            if fp is not None and not m['missing_dir'] and out in fp.get('writes', []):
                vs.append(core.violated('failure-reported-but-image-opened-for-writing', det, buckets=tags, nt=nt))
        return vs or [core.held(buckets=tags, nt=nt)]

    def sample_of(self, case, outcomes):
        o = outcomes[0]
        return {'argv': case['runs'][0]['argv'], 'source': (case['runs'][0]['files'].get('p.asm') or '')[:500],
                'exit': o.get('exit'), 'steps': ((o.get('probes') or {}).get('steps') or {}).get('n'),
                'step_limit': case['runs'][0]['step_limit'], 'stderr': (o.get('stderr') or '')[-160:], 'tags': case['tags']}
