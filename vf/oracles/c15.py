"""C15 — assembly is deterministic.

Oracle: byte-identity of the image and of the four pretty-print outputs (and equality of the exit status) between a
baseline run and runs of the same inputs under other interpreter hash seeds (one zygote pool per seed), changed process
environment, another working directory (same absolute argument strings) and every order / duplication / symlink alias of
the include directories.  Probe: `setorder` — the iteration orders the seeds actually produced.
"""
import itertools
import json
import os

from vf import core, isa as isamod, gen_isa, gen_prog
from vf.oracles import c01, c17, c16

SEEDS = ['0', '1', '2', '3', '7', '42', '12345', 'random']
ENVS = [{'LANG': 'C', 'LC_ALL': 'C'}, {'LANG': 'tr_TR.UTF-8', 'LC_ALL': 'tr_TR.UTF-8', 'TZ': 'Pacific/Kiritimati'},
        {'HOME': '/nonexistent', 'COLUMNS': '20', 'PYTHONUTF8': '1', 'TERM': 'dumb'},
        {'COLUMNS': '200', 'LINES': '60', 'TERM': 'xterm-256color', 'FORCE_COLOR': '1', 'CLICOLOR_FORCE': '1'},
        {'COLUMNS': '1000', 'LINES': '5', 'NO_COLOR': '1', 'USER': 'nobody', 'TMPDIR': '/nonexistent'},
        # variables whose names read as hexadecimal digits (a value written $CC is a number, never a variable reference)
        {'CC': 'gcc', 'AB': '$10', 'FACE': '7', 'DEAD': '0x11', 'A1': '99'},
        # interpreter switches: what is assembled does not depend on whether the interpreter keeps assert statements and docstrings
        {'PYTHONOPTIMIZE': '1'}, {'PYTHONOPTIMIZE': '2', 'PYTHONDEVMODE': '1'}, {'PYTHONWARNINGS': 'error::UserWarning'},
        # two home directories inside the scratch directory (they hold decoy copies in the "~" cases)
        {'HOME': '{SCRATCH}/home1', 'USERPROFILE': '{SCRATCH}/home1'}, {'HOME': '{SCRATCH}/home2', 'XDG_CONFIG_HOME': '{SCRATCH}/home2'}]
FORMATS = c16.FORMATS


def norm(o):
    sc = (o.get('scratch') or '').encode()
    res = {}
    for k, v in (o.get('files') or {}).items():
        if isinstance(v, str):
            b = bytes.fromhex(v)
            if sc:
                b = b.replace(sc, b'<SCRATCH>')
            res[k] = b
    return res


class C15(core.Check):
    pid = 'C15'
    level = 'exploration'
    rule = ('generated programs (ISA definitions with many registers / mnemonics / operand alternatives; multi-file programs with '
            '1..3 include directories) and the repository\'s example programs, each assembled to the image and the four formats '
            'under PYTHONHASHSEED in {0,1,2,3,7,42,12345,random}, three environment permutations, a different working directory '
            '(absolute argument strings) and every permutation / duplication / symlink alias of the include directories; every '
            'output must be byte-identical to the baseline run\'s (scratch-directory paths normalised). '
            'distinct_nontrivial = distinct (program, variation) pairs whose baseline succeeded.')
    rule = rule + ' ' + 'Enumeration keys that differ in letter case only are used side by side.'
    assumptions = ('BESPOKEASM_* environment variables are inputs (click reads them), not noise: never set',
                   'absolute scratch-directory paths printed by the listing are normalised before comparison',
                   'of the interpreter switches, PYTHONOPTIMIZE, PYTHONDEVMODE and PYTHONWARNINGS=error::UserWarning are varied; '
                   'PYTHONWARNINGS=error for every category is not: it asks the interpreter to end the run at its own deprecation '
                   'warnings (an unknown escape such as "\\d" in a string raises one), which is a request to behave differently')
    chunk = 2500
    crosscheck_every = {'quick': 200, 'thorough': 200}
    required_buckets = {b: 3 for b in ['prog:overlapping-vocabulary', 'prog:register-name-beginning-with-another-register', 'prog:command-line-symbol-given-twice', 'var:output-file-already-there', 'var:earlier-run-with-another-definition-at-the-same-path', 'prog:tilde-directory', 'prog:configured-zone-name-given-twice', 'prog:general-settings', 'prog:layout-values-from-labels-of-other-zones', 'var:hashseed', 'var:env', 'var:cwd', 'var:include-order', 'var:include-duplicate',
                                       'var:include-symlink', 'prog:generated-isa', 'prog:multi-file', 'prog:example',
                                       'include-dirs>=3', 'ambiguous-include-name']}

    def __init__(self):
        self.orders = set()
        self.seeds_seen = set()

    def variations(self, base_argv_fn, files, dirs, extra=None, heavy=False):
        """-> list of (tag, run-spec overrides). base_argv_fn(fmt, include_args, absolute) -> argv"""
        out = []
        inc = [d for d in dirs if d != '.']
        base_inc = list(itertools.chain.from_iterable(('-I', d) for d in inc))
        out.append(('baseline', {'hashseed': '0', 'inc': base_inc}))
        for hs in (SEEDS[1:] if not heavy else ['1', '42', 'random']):
            out.append(('var:hashseed', {'hashseed': hs, 'inc': base_inc}))
        for e in (ENVS if not heavy else ENVS[:1]):
            out.append(('var:env', {'hashseed': '0', 'inc': base_inc, 'env': e}))
        abs_inc = ['{SCRATCH}/' + x if i % 2 else x for i, x in enumerate(base_inc)]
        out.append(('baseline-abs', {'hashseed': '0', 'inc': abs_inc, 'absolute': True}))
        out.append(('var:cwd', {'hashseed': '0', 'inc': abs_inc, 'cwd': 'elsewhere', 'absolute': True}))
        out.append(('var:cwd', {'hashseed': '3', 'inc': abs_inc, 'cwd': 'elsewhere/deeper', 'absolute': True}))
        if inc:
            perms = list(itertools.permutations(inc))
            for k, p in enumerate(perms[1:] if len(inc) > 1 else []):
                out.append(('var:include-order', {'hashseed': SEEDS[k % 7], 'inc': list(itertools.chain.from_iterable(('-I', d) for d in p))}))
            out.append(('var:include-duplicate', {'hashseed': '2', 'inc': base_inc + ['-I', inc[0]] + (['-I', './' + inc[-1] + '/'] if inc else [])}))
            out.append(('var:include-symlink', {'hashseed': '7', 'inc': base_inc + ['-I', 'alias_dir'],
                                                'symlinks': {'alias_dir': inc[0].split('/')[0] if '/' not in inc[0] else inc[0]}}))
        return out

    def build_runs(self, files, main, isa_name, dirs, tags, heavy=False, extra_argv=(), stale_image=None, earlier_definition=None):
        runs, labels = [], []
        # decoys: files carrying the names of the included files, with other contents, in the directories that serve as
        # working directory in the cwd variation (they are on no search path, so they must never be picked up)
        files = dict(files)
        for rel in list(files):
            if rel in (main, isa_name) or rel.startswith('elsewhere/'):
                continue
            for d_ in ('elsewhere', 'elsewhere/deeper'):
                for nm in {rel, os.path.basename(rel)}:
                    files.setdefault(f'{d_}/{nm}', '.byte $DE, $C0\ndecoy_label_in_cwd:\n.byte $1\n')
        var_list = self.variations(None, files, dirs, heavy=heavy)
        if stale_image is not None:
            # the output file is already there - holding the very image about to be written plus a tail, exactly that image,
            # something longer, or nothing: what is there afterwards does not depend on it
            import base64
            for nm_, old_ in (('same-image-plus-tail', stale_image + b'\x01\x02\x03\x04'), ('same-image', stale_image),
                              ('longer-junk', b'Z' * (len(stale_image) + 40)), ('empty-file', b''), ('first-byte-only', stale_image[:1])):
                var_list.append(('var:output-file-already-there', {'hashseed': '0', 'inc': [], 'files_b64': {'out.bin': base64.b64encode(old_).decode()},
                                                                  'stale': nm_}))
        if earlier_definition is not None:
            # the very same paths were assembled before, with another definition in the configuration file (put back since, with
            # its old time stamp), in the same temporary directory: what an earlier run saw plays no part in this one
            var_list.append(('var:earlier-run-with-another-definition-at-the-same-path',
                             {'hashseed': '0', 'inc': [], 'env': {'TMPDIR': '{SCRATCH}/tmpdir', 'TEMP': '{SCRATCH}/tmpdir', 'TMP': '{SCRATCH}/tmpdir'},
                              'before': [{'files': {isa_name: earlier_definition}, 'argv': ['compile', '-c', isa_name, main, '-o', 'earlier.bin'],
                                          'remove_after': ['earlier.bin']}]}))
        for tag, ov in var_list:
            for f in FORMATS:
                absolute = ov.get('absolute')
                pre = '{SCRATCH}/' if absolute else ''
                argv = ['compile', '-c', pre + isa_name, pre + main, '-o', pre + 'out.bin', '-p', '-t', f,
                        '--pretty-print-output', pre + 'pp.txt'] + ov['inc'] + list(extra_argv)
                spec = {'files': files, 'argv': argv, 'hashseed': ov['hashseed'], 'probes': ['setorder'],
                        'dirs': ['elsewhere/deeper'], 'cpu_s': 60, 'wall_s': 120}
                if 'env' in ov:
                    spec['env'] = ov['env']
                if 'cwd' in ov:
                    spec['cwd'] = ov['cwd']
                if 'symlinks' in ov:
                    spec['symlinks'] = ov['symlinks']
                if 'files_b64' in ov:
                    spec['files_b64'] = ov['files_b64']
                if 'before' in ov:
                    spec['before'] = ov['before']
                    spec['dirs'] = spec['dirs'] + ['tmpdir']
                runs.append(spec)
                labels.append([tag, f, ov['hashseed']])
        if stale_image is not None:
            # the same once more with nothing but the image asked for (no -p): what lies at the output path beforehand plays no part
            import base64
            argv0 = ['compile', '-c', isa_name, main, '-o', 'out.bin'] + list(extra_argv)
            runs.append({'files': files, 'argv': argv0, 'hashseed': '0', 'probes': ['setorder'], 'dirs': ['elsewhere/deeper'], 'cpu_s': 60, 'wall_s': 120})
            labels.append(['baseline', 'image-only', '0'])
            for nm_, old_ in (('same-image-plus-tail', stale_image + b'\x01\x02'), ('longer-junk', b'Z' * (len(stale_image) + 40)), ('empty-file', b'')):
                runs.append({'files': files, 'argv': argv0, 'hashseed': '0', 'probes': ['setorder'], 'dirs': ['elsewhere/deeper'], 'cpu_s': 60, 'wall_s': 120,
                             'files_b64': {'out.bin': base64.b64encode(old_).decode()}})
                labels.append(['var:output-file-already-there', 'image-only', '0'])
        return {'runs': runs, 'meta': {'labels': labels}, 'tags': sorted(tags)}

    def cases(self, tier, seed):
        # the repository's example programs
        from vf import runner
        import sys
        sys.path.insert(0, os.path.join(runner.VERIF_ROOT, 'tools'))
        import examples_screen
        root = runner.repo_root()
        progs = list(examples_screen.programs(root))
        if tier == 'quick':
            progs = [progs[0], progs[2], progs[-2]]
        for src, isa in progs:
            d = os.path.dirname(src)
            files = {}
            for fn_ in os.listdir(d):
                p_ = os.path.join(d, fn_)
                if os.path.isfile(p_) and os.path.splitext(fn_)[1] in examples_screen.EXT2ISA:
                    files['ex/' + fn_] = open(p_, encoding='utf-8', errors='surrogateescape').read()
            files['isa.yaml'] = open(isa).read()
            yield self.build_runs(files, 'ex/' + os.path.basename(src), 'isa.yaml', ['.'], {'prog:example'}, heavy=True)
        # vocabularies whose order matters to anything built from them: mnemonics and macro names that are prefixes of
        # one another, or that end in a dotted suffix which is itself a mnemonic; many registers with shared prefixes
        # (a dotted mnemonic is listed in front of its own prefix: the definition order is what makes these lines assemble)
        for k, mns in enumerate([['sub.q', 'sub', 'q', 'ld.w', 'ld', 'w', 'add.c', 'c'], ['sub.q', 'q', 'sub', 'ld.w', 'w', 'ld'],
                                 ['jmp.l', 'jmpx', 'jmp', 'jm', 'j', 'l'], ['st.k', 'stk', 'st', 'k.st', 'k']]):
            rng = core.rng_for(0, self.pid, 'vocab', k)
            isa = gen_prog.layout_isa(16)
            isa['general']['registers'] = ['a', 'b', 'sp', 'r1', 'r10', 'r11', 'r', 'spx', 'x', 'xsp', 'ah', 'bh', 'b1', 'b10', 'ch']
            isa['operand_sets']['any8'] = {'operand_values': {'n8': {'type': 'numeric', 'argument': {'size': 8, 'byte_align': True}}}}
            isa['instructions'] = {}
            for n_, m_ in enumerate(mns):
                isa['instructions'][m_] = {'bytecode': {'value': 0x40 + n_, 'size': 8}}
                if n_ % 2:
                    isa['instructions'][m_]['operands'] = {'count': 1, 'operand_sets': {'list': ['any8']}}
            isa['macros'] = {mns[0] + 'x2': [{'instructions': [mns[0], mns[0]]}], 'm.' + mns[2]: [{'instructions': [mns[2]]}]}
            # alternatives of one type that accept the same text: whichever is chosen, it is the same one in every run
            isa['operand_sets']['tie'] = {'operand_values': {
                'zq_ind0': {'type': 'indirect_register', 'register': 'sp', 'bytecode': {'value': 1, 'size': 4}},
                'aa_ind8': {'type': 'indirect_register', 'register': 'sp', 'bytecode': {'value': 2, 'size': 4}, 'offset': {'size': 8, 'byte_align': True}},
                'mm_n8': {'type': 'numeric', 'bytecode': {'value': 3, 'size': 4}, 'argument': {'size': 8, 'byte_align': True}},
                'bb_n16': {'type': 'numeric', 'bytecode': {'value': 4, 'size': 4}, 'argument': {'size': 16, 'byte_align': True}},
                'yy_e1': {'type': 'enumeration', 'bytecode': {'size': 4, 'value_dict': {'kx': 5, 'ky': 6}}, 'argument': {'size': 8, 'byte_align': True, 'value_dict': {'kx': 1, 'ky': 2}}},
                'cc_e2': {'type': 'enumeration', 'bytecode': {'size': 4, 'value_dict': {'kx': 7, 'kz': 8}}, 'argument': {'size': 8, 'byte_align': True, 'value_dict': {'kx': 3, 'kz': 4}}}}}
            isa['instructions']['tie4'] = {'bytecode': {'value': 9, 'size': 4}, 'operands': {'count': 1, 'operand_sets': {'list': ['tie']}}}
            # registers whose names begin like shorter register names and read as numbers (AH, b1), behind a numeric variant
            isa['operand_sets']['rnum'] = {'operand_values': {f'r_{r_}': {'type': 'register', 'register': r_, 'bytecode': {'value': n_, 'size': 4}}
                                                              for n_, r_ in enumerate(['a', 'ah', 'b', 'bh', 'b1', 'b10', 'ch'])}}
            isa['instructions']['nr4'] = {'bytecode': {'value': 11, 'size': 4}, 'operands': {'count': 1, 'operand_sets': {'list': ['any8']}},
                                          'variants': [{'bytecode': {'value': 12, 'size': 4}, 'operands': {'count': 1, 'operand_sets': {'list': ['rnum']}}}]}
            # enumeration keys that differ in letter case only are different keys - in every run
            ck_ = {'N': 1, 'n': 2, 'Kq': 3, 'kQ': 4, 'KQ': 5, 'kq': 6, 'zed': 7}
            isa['operand_sets']['casekeys'] = {'operand_values': {
                'ck': {'type': 'enumeration', 'bytecode': {'size': 4, 'value_dict': ck_},
                       'argument': {'size': 8, 'byte_align': True, 'value_dict': {k_: 0x10 * v_ for k_, v_ in ck_.items()}}}}}
            isa['instructions']['cas4'] = {'bytecode': {'value': 10, 'size': 4}, 'operands': {'count': 1, 'operand_sets': {'list': ['casekeys']}}}
            src = []
            for n_, m_ in enumerate(mns):
                src.append(m_ + (' 5' if n_ % 2 else ''))
            src += ['tie4 [sp]', 'tie4 [sp+3]', 'tie4 5', 'tie4 kx', 'tie4 ky', 'tie4 kz', 'tie4 [sp]']
            src += ['cas4 ' + k_ for k_ in ck_]
            src += ['nr4 ' + t_ for t_ in ('a', 'b', '5', '$0A')]
            src.append(mns[0] + 'x2')
            src.append('m.' + mns[2])
            for a_ in range(len(mns)):
                b_ = (a_ + 3) % len(mns)
                src.append(mns[a_] + (' 7' if a_ % 2 else '') + ' ' + mns[b_] + (' 9' if b_ % 2 else ''))
            fn, text = isamod.render_isa(isa, 'json')
            yield self.build_runs({fn: text, 'p.asm': '\n'.join(src) + '\n'}, 'p.asm', fn, ['.'], {'prog:overlapping-vocabulary'})
        # symbols given on the command line, several of them and one of them more than once: whatever the tool makes of
        # that, it makes the same of it in every run
        isa = gen_prog.layout_isa(16)
        fn, text = isamod.render_isa(isa, 'json')
        src_d = '#if MODE == 1\n.byte $11\n#elif MODE == 2\n.byte $22\n#else\n.byte $33\n#endif\n.byte MODE, LVL\n#ifdef EXTRA\n.byte EXTRA\n#endif\n'
        for k, dargs in enumerate([['MODE=$CC', 'LVL=$AB', 'EXTRA=$A1'], ['MODE=2', 'LVL=$FACE & 255', 'EXTRA=${DEAD}'], ['MODE=1', 'LVL=2'], ['LVL=2', 'MODE=1', 'EXTRA=7'], ['MODE=1', 'MODE=2', 'LVL=3'], ['MODE=2', 'MODE=1', 'LVL=3'],
                                   ['MODE=1', 'LVL=3', 'MODE=1'], ['MODE=2', 'LVL=4', 'EXTRA', 'EXTRA=5'], ['LVL=1', 'LVL=2', 'LVL=3', 'MODE=3']]):
            extra = list(itertools.chain.from_iterable(('-D', a_) for a_ in dargs))
            dup = len({a_.split('=')[0] for a_ in dargs}) < len(dargs)
            yield self.build_runs({fn: text, 'p.asm': src_d}, 'p.asm', fn, ['.'],
                                  {'prog:command-line-symbols', 'prog:command-line-symbol-given-twice' if dup else 'prog:command-line-symbols-distinct'},
                                  extra_argv=extra)
        # two registers, one name beginning with the other and reading as a number, behind a numeric variant: one small program
        # per pair (whatever is made of "nr4 AH", it is the same in every run)
        for short_, long_ in (('a', 'ah'), ('b', 'bh'), ('b', 'b1'), ('b1', 'b10'), ('c', 'ch'), ('d', 'd0h')):
            isa = gen_prog.layout_isa(16)
            isa['general']['registers'] = list(dict.fromkeys(list(isa['general']['registers']) + [short_, long_]))
            isa['operand_sets']['any8'] = {'operand_values': {'n8': {'type': 'numeric', 'argument': {'size': 8, 'byte_align': True}}}}
            isa['operand_sets']['rnum'] = {'operand_values': {'r_s': {'type': 'register', 'register': short_, 'bytecode': {'value': 1, 'size': 4}},
                                                              'r_l': {'type': 'register', 'register': long_, 'bytecode': {'value': 2, 'size': 4}}}}
            isa['instructions'] = {'nr4': {'bytecode': {'value': 11, 'size': 4}, 'operands': {'count': 1, 'operand_sets': {'list': ['any8']}},
                                           'variants': [{'bytecode': {'value': 12, 'size': 4}, 'operands': {'count': 1, 'operand_sets': {'list': ['rnum']}}}]}}
            isa.pop('macros', None)
            fn, text = isamod.render_isa(isa, 'json')
            src_r = ''.join(f'nr4 {t_}\n' for t_ in (long_.upper(), long_, short_, short_.upper(), '5'))
            yield self.build_runs({fn: text, 'p.asm': src_r}, 'p.asm', fn, ['.'], {'prog:register-name-beginning-with-another-register',
                                                                                    'prog:overlapping-vocabulary'})
        for k, (src_s, img_s) in enumerate([('.byte 1, 2, 3\n', '010203'), ('nop\nldi 5\n.2byte $1234\n', 'eaa9051234'), ('.org 2\n.byte 7\n', '000007')]):
            isa = gen_prog.layout_isa(16)
            fn, text = isamod.render_isa(isa, 'json')
            yield self.build_runs({fn: text, 'p.asm': src_s}, 'p.asm', fn, ['.'], {'prog:output-file-already-there'},
                                  stale_image=bytes.fromhex(img_s))
        # a configuration whose predefined zone list gives a name more than once, with different ranges: whichever entry
        # counts, it is the same one in every run
        for k, zl in enumerate([[('VARS', 0x10, 0x1F), ('VARS', 0x40, 0x4F)], [('VARS', 0x40, 0x4F), ('VARS', 0x10, 0x1F)],
                                [('VARS', 0x10, 0x1F), ('IO', 0x80, 0x8F), ('VARS', 0x40, 0x4F), ('IO', 0x90, 0x9F), ('STK', 0xA0, 0xAF), ('STK', 0xB0, 0xBF)],
                                [('VARS', 0x10, 0x1F), ('VARS', 0x20, 0x2F), ('VARS', 0x30, 0x3F), ('VARS', 0x40, 0x4F), ('VARS', 0x50, 0x5F)]]):
            isa = gen_prog.layout_isa(16, zones=[{'name': n_, 'start': s_, 'end': e_} for n_, s_, e_ in zl])
            src_z = ''.join(f'.org 2 "{n_}"\n.byte ${0xA0 + j_:02x}\n.memzone {n_}\n.byte ${0x50 + j_:02x}\n' for j_, n_ in enumerate(dict.fromkeys(n_ for n_, _, _ in zl)))
            for fmt_ in ('json', 'yaml'):
                fn, text = isamod.render_isa(isa, fmt_)
                yield self.build_runs({fn: text, 'p.asm': src_z}, 'p.asm', fn, ['.'], {'prog:configured-zone-name-given-twice'})
        # settings of the configuration's general section that the programs below depend on (string terminator, embedded
        # strings, origin, byte order): taken from the file in every run
        for k, (term, endian, origin) in enumerate([(0x24, 'little', 0x20), (10, 'big', None), (0xFF, 'little', None)]):
            isa = gen_prog.layout_isa(16, origin=origin) if origin is not None else gen_prog.layout_isa(16)
            isa['general']['cstr_terminator'] = term
            isa['general']['allow_embedded_strings'] = True
            isa['general']['endian'] = endian
            src_g = 'nop\n.cstr "Hi"\n.byte 1\n.asciiz "there"\n"bare"\n.2byte $1234, after\nafter:\n.4byte $A1B2C3D4\n.cstr ""\n.byte 300, 0 - 1\n.2byte $12345\n.fill 2, $1FF\n'
            for fmt_ in ('json', 'yaml'):
                fn, text = isamod.render_isa(isa, fmt_)
                isa_e = json.loads(json.dumps(isa))
                isa_e['general']['cstr_terminator'] = 0x7E
                isa_e['general']['endian'] = 'big' if endian == 'little' else 'little'
                yield self.build_runs({fn: text, 'p.asm': src_g}, 'p.asm', fn, ['.'], {'prog:general-settings'},
                                      earlier_definition=isamod.render_isa(isa_e, fmt_)[1])
        # several zones, each laid out with a count or target worked out from a label of a zone used earlier in the source: the
        # lines are laid out in source order in every run
        for k, names in enumerate([('low', 'mid', 'hi', 'io', 'zq'), ('zq', 'io', 'hi', 'mid', 'low'), ('a_z', 'b_z', 'c_z', 'd_z', 'e_z'), ('rom', 'ram', 'vars', 'stack', 'vec')]):
            zl = [{'name': n_, 'start': 0x100 * (j_ + 1), 'end': 0x100 * (j_ + 1) + 0xFF} for j_, n_ in enumerate(names)]
            isa = gen_prog.layout_isa(16, zones=zl)
            n0, n1, n2, n3, n4 = names
            src_x = (f'.memzone {n0}\nl_start: .byte 1, 2\n.memzone {n1}\n.fill l_start - $FE, $AA\nm_here: .byte 3\n.memzone {n2}\n.zero m_here - $200\n'
                     f'h_here: .byte 4\n.memzone {n3}\n.fill h_here - $300, 5\ni_here: .byte 6\n.memzone {n4}\n.zerountil $500 + i_here - $400\n'
                     f'.memzone {n0}\n.fill m_here - $200 + h_here - $300, 7\n.org i_here + 4\n.byte 8\n')
            fn, text = isamod.render_isa(isa, 'json')
            yield self.build_runs({fn: text, 'p.asm': src_x}, 'p.asm', fn, ['.'], {'prog:layout-values-from-labels-of-other-zones'})
            # and the same with two and three zones only (one dependency each)
            for pair in ((n0, n1), (n1, n0), (n2, n4), (n3, n1, n0)):
                st_ = {n_: 0x100 * (names.index(n_) + 1) for n_ in pair}
                src_2 = f'.memzone {pair[0]}\np_first: .byte 1, 2\n.memzone {pair[1]}\n.fill p_first - ${st_[pair[0]] - 2:x}, $AA\np_second: .byte 3\n'
                if len(pair) == 3:
                    src_2 += f'.memzone {pair[2]}\n.zero p_second - ${st_[pair[1]]:x}\n.byte 4\n'
                yield self.build_runs({fn: text, 'p.asm': src_2}, 'p.asm', fn, ['.'], {'prog:layout-values-from-labels-of-other-zones'})
        # a search directory whose name begins with "~" is that directory, whatever HOME says
        for k, incdir in enumerate(['~/lib', '~lib', '~']):
            isa = gen_prog.layout_isa(16)
            fn, text = isamod.render_isa(isa, 'json')
            files = {fn: text, 'p.asm': '.byte 1\n#include "tdefs.asm"\n.byte T_VAL, 3\n',
                     incdir + '/tdefs.asm': 'T_VAL = $42\n.byte 2\n'}
            for h_, v_ in (('home1', '$99'), ('home2', '$77')):
                for sub in ('lib/', '', 'ib/'):
                    files[f'{h_}/{sub}tdefs.asm'] = f'T_VAL = {v_}\n.byte 2\n'
            yield self.build_runs(files, 'p.asm', fn, ['.', incdir], {'prog:tilde-directory'})
        n = 30 if tier == 'quick' else 400
        for i in range(n):
            rng = core.rng_for(0 if i < 12 else seed, self.pid, i)
            if i % 2 == 0:
                obj, zones = gen_isa.gen_isa(rng, n_sets=5, n_instr=9)
                obj['general']['registers'] = list(gen_isa.REGS)      # many registers: a set whose order depends on the seed
                lines = c01.build_program(rng, obj, zones, rng.randrange(8, 30), 1500)
                if not lines:
                    continue
                fmt = 'yaml' if gen_isa.needs_yaml(obj) else 'json'
                fn, text = isamod.render_isa(obj, fmt)
                files = {fn: text, 'p.asm': ''.join(l['text'] + '\n' for l in lines if l.get('text') is not None)}
                yield self.build_runs(files, 'p.asm', fn, ['.'], {'prog:generated-isa'})
            else:
                c = None
                for _ in range(6):
                    c = self.multi_file(rng, force_ambiguous=(i < 12 and i % 4 == 1) or (i >= 12 and i % 8 == 1))
                    if c:
                        break
                if c:
                    yield c

    def multi_file(self, rng, force_ambiguous=False):
        g = None
        for _ in range(10):
            g = gen_prog.Structured(rng, 16, {'file_labels': False})
            g.gen(rng.randrange(14, 45))
            if g.finish():
                break
            g = None
        if g is None:
            return None
        dirs = ['.', 'lib', 'lib2/deep', 'third'][:rng.choice([3, 4] if force_ambiguous else [2, 3, 4])]
        pool = [f'part{i}.asm' for i in range(1, 5)]
        files = {}
        tags = set()
        main = c17.split_once(rng, g.lines, pool, files, [d for d in dirs if d != '.'] or ['.'], tags)
        if main is None:
            return None
        if pool:
            m2 = c17.split_once(rng, main, pool, files, [d for d in dirs if d != '.'] or ['.'], tags)
            if m2 is not None:
                main = m2
        fn, text = isamod.render_isa(g.isa, 'json')
        fl = {fn: text, 'p.asm': ''.join(l['text'] + '\n' for l in main)}
        for (d, f), ls in files.items():
            fl[(d + '/' if d != '.' else '') + f] = ''.join(l['text'] + '\n' for l in ls)
        t = {'prog:multi-file'}
        if len([d for d in dirs if d != '.']) >= 3:
            t.add('include-dirs>=3')
        incdirs = [d for d in dirs if d != '.']
        if files and len(incdirs) >= 2 and (force_ambiguous or rng.random() < 0.35):
            # the same include name, with different content, in a second search directory: whatever the assembler does
            # with the ambiguity, it must do the same in every run
            (d0, f0), ls0 = next(iter(files.items()))
            other = [d for d in incdirs if d != d0][0]
            fl[other + '/' + f0] = 'nop\n' + ''.join(l['text'] + '\n' for l in ls0)
            t.add('ambiguous-include-name')
        spec = self.build_runs(fl, 'p.asm', fn, dirs, t)
        for r in spec['runs']:
            r['dirs'] = r.get('dirs', []) + [d for d in dirs if d != '.']
        return spec

    def judge(self, case, outcomes):
        labels = case['meta']['labels']
        base = {}
        vs = []
        for (tag, f, hs), o in zip(labels, outcomes):
            so = (o.get('probes') or {}).get('setorder')
            if so:
                self.orders.add(tuple(so['order']))
                self.seeds_seen.add(so.get('hashseed'))
            if tag == 'baseline':
                base[f] = o
            elif tag == 'baseline-abs':
                base['abs/' + f] = o
        if ('prog:overlapping-vocabulary' in case['tags'] or 'prog:tilde-directory' in case['tags']) and all(o_.get('exit') != 0 for o_ in outcomes):
            # these directed programs are meant to assemble: agreeing failures would show nothing
            return [core.inconclusive('directed program does not assemble', {'stderr': (list(base.values())[0].get('stderr') or '')[-300:]})]
        # the same inputs named relatively and absolutely: same verdict, same image
        for f in FORMATS:
            b_, a_ = base.get(f), base.get('abs/' + f)
            if b_ is None or a_ is None or b_.get('timed_out') or a_.get('timed_out'):
                continue
            if b_.get('exit') != a_.get('exit'):
                vs.append(core.violated('exit-status-differs/relative-vs-absolute-paths', {'relative_exit': b_.get('exit'), 'absolute_exit': a_.get('exit'),
                                                                                         'stderr_relative': (b_.get('stderr') or '')[-300:],
                                                                                         'stderr_absolute': (a_.get('stderr') or '')[-300:]},
                                        buckets=['var:path-spelling']))
            elif (b_.get('files') or {}).get('out.bin') != (a_.get('files') or {}).get('out.bin'):
                vs.append(core.violated('image-differs/relative-vs-absolute-paths', {'format': f}, buckets=['var:path-spelling']))
            else:
                vs.append(core.held(buckets=['var:path-spelling']))
        for (tag, f, hs), o, r in zip(labels, outcomes, case['runs']):
            if tag.startswith('baseline'):
                continue
            b = base['abs/' + f] if tag == 'var:cwd' else base[f]
            if b.get('timed_out') or o.get('timed_out'):
                vs.append(core.inconclusive('timeout in determinism run', {'argv': r['argv']}))
                continue
            nt = f'{tag}|{f}|{hs}|' + ','.join(case['tags']) + '|' + str(hash(r['files'].get('p.asm', '')) % 100000)
            if b.get('exit') != o.get('exit'):
                vs.append(core.violated(f'exit-status-differs/{tag}', {'baseline_exit': b.get('exit'), 'exit': o.get('exit'),
                                                                      'argv': r['argv'], 'env': r.get('env'), 'hashseed': hs,
                                                                      'stderr': (o.get('stderr') or '')[-300:],
                                                                      'baseline_stderr': (b.get('stderr') or '')[-300:]},
                                        buckets=[tag], nt=nt))
                continue
            nb, no = norm(b), norm(o)
            for rel_, b64_ in (r.get('files_b64') or {}).items():
                # (the executor reports a file that ends up identical to what was pre-placed as "unchanged", without its content)
                if rel_ not in no and rel_ in (o.get('unchanged') or []):
                    import base64
                    no[rel_] = base64.b64decode(b64_)
            if nb != no:
                which = sorted(k for k in set(nb) | set(no) if nb.get(k) != no.get(k))
                vs.append(core.violated(f'output-differs/{tag}/{f}', {'files': which, 'argv': r['argv'], 'env': r.get('env'),
                                                                      'hashseed': hs}, buckets=[tag], nt=nt))
                continue
            if b.get('exit') != 0:
                # the same failure, with identical outputs, in every run is also deterministic behaviour
                vs.append(core.held(buckets=[tag, 'consistent-failure']))
                continue
            vs.append(core.held(buckets=[tag], nt=nt))
        return vs

    def sample_of(self, case, outcomes):
        return {'argv_baseline': case['runs'][0]['argv'], 'variations': sorted({t for t, _, _ in case['meta']['labels']}),
                'runs': len(case['runs']), 'source_head': case['runs'][0]['files'].get('p.asm', '')[:300]}

    def final_problems(self):
        if len(self.orders) < 2:
            return ['fewer than 2 distinct set iteration orders observed: the hash seeds did not differ in effect']
        return []

    def extra_evidence(self):
        return {'distinct_set_iteration_orders_observed': len(self.orders), 'hash_seeds_run': sorted(self.seeds_seen),
                'note': 'fewer than 2 distinct orders would make this check inconclusive'}
