"""C16 — all output formats describe the same memory contents as the binary image.

Oracle: four decoders written from the format definitions (vf.model.formats) — Intel HEX, hex dump, compact hex, listing —
each decoded map must equal the model memory map M (hence the image on the addresses M covers); muted lines contribute to
none; the listing shows every unmuted byte-producing statement exactly once with the model's address and bytes.
"""
import os

from vf import core, isa as isamod, gen_prog
from vf.model import layout, formats
from vf.oracles import c03, c17

FORMATS = ['listing', 'hex', 'intel_hex', 'minhex']


def tiny_program(rng, addr_bits):
    """a few data lines inside a small address space"""
    top = (1 << addr_bits) - 1
    lines = []
    cur = rng.randrange(0, max(1, min(top, 8)))
    lines.append({'k': 'org', 'addr': cur, 'zone_name': None})
    for i in range(rng.randrange(1, 4)):
        n = rng.randrange(1, 4)
        if cur + n - 1 > top:
            break
        lines.append({'k': 'data', 'width': 1, 'vals': [rng.randrange(0, 256) for _ in range(n)]})
        cur += n
        if rng.random() < 0.4 and cur + 6 <= top:
            cur += rng.randrange(2, 5)
            lines.append({'k': 'org', 'addr': cur, 'zone_name': None})
    if lines[-1]['k'] == 'org':
        lines.pop()
    if not any(l['k'] == 'data' for l in lines):
        lines.append({'k': 'data', 'width': 1, 'vals': [7]})
    return lines


class C16(core.Check):
    pid = 'C16'
    level = 'exploration'
    rule = ('sparse and structured programs (gaps from .org, .align, zone switches, muted regions, zero-length lines, lines '
            'longer than 6 and 16 bytes, predefined data, included files) under address widths 4..32, each assembled to the '
            'image and to the four formats (one real CLI run per format); every decoded address->byte map must equal the model '
            'map; listing rows checked per statement. distinct_nontrivial = distinct (format, feature set) tuples.')
    rule = rule + ' ' + 'Single statements of 41..3000 bytes (lists, fills, zero runs, strings) are listed at three origins.'
    assumptions = ('compact hex: without an address row the data continues contiguously, starting at the ISA origin',
                   'a muted statement may be shown by the listing, but without bytes')
    chunk = 1200
    required_buckets = {b: 3 for b in ['line>6-bytes', 'line>16-bytes', 'gap-without-org', 'muted-region', 'zero-length-line',
                                       'included-file', 'predefined-data', 'width:4', 'width:8', 'width:12', 'width:16',
                                       'width:24', 'width:32', 'width:20', 'bytes-above-64KiB', 'statement-across-a-64KiB-boundary', 'bytes-below-a-configured-origin', 'every-line-length-1..40', 'fmt:listing', 'fmt:hex', 'fmt:intel_hex', 'fmt:minhex',
                                       'image-fill:nonzero', 'width:not-a-multiple-of-4', 'zero-length-at-gap-edge', 'gap:align', 'gap:memzone', 'gap:muted', 'gap:zone-org',
                                       'statement-longer-than-96-bytes', 'long-statement:fill', 'long-statement:cstr',
                                       'stale-longer-output-present', 'image-window-starts-inside-a-statement',
                                       'nested-mute-across-includes', 'include-at-mute-depth:2+', 'image-window-ends-below-a-statement']}
    required_buckets['every-line-length-1..40'] = 2
    required_buckets['several-statements-per-line'] = 3

    def make_case(self, isa, files, main_name, argv_extra, res, line_ids, tags, origin=0):
        """line_ids: {id(line): (basename, lineno)} for model byte lines"""
        fn, itext = isamod.render_isa(isa, 'json')
        fl = dict(files)
        fl[fn] = itext
        M = res.M
        stm = []
        for l in res.byte_lines:
            fl_ = line_ids.get(id(l))
            if fl_ is None:
                continue
            stm.append({'file': fl_[0], 'line': fl_[1], 'idx': fl_[2] if len(fl_) > 2 else 0, 'addr': l['addr'], 'bytes': l['bytes'], 'muted': bool(l.get('muted')),
                        'text': l.get('text', '')})
            n = len(l['bytes']) // 2
            if n > 6:
                tags.add('line>6-bytes')
            if n > 16:
                tags.add('line>16-bytes')
            if n == 0:
                tags.add('zero-length-line')
            if l.get('muted'):
                tags.add('muted-region')
        runs = []
        # every third program is assembled with a non-zero gap-fill value: the formats describe assembled bytes only, and the
        # image must agree with them on every assembled byte (a zero byte included)
        self._n = getattr(self, '_n', 0) + 1
        fillv = [0, 0, 255, 0, 0, 0xA5][self._n % 6]
        if fillv:
            argv_extra = list(argv_extra) + ['-f', str(fillv)]
            tags.add('image-fill:nonzero')
        win_s = 0
        if self._n % 5 == 2 and M:
            # an image window that begins in the middle of a statement: the image shows the statement's remaining bytes at
            # the window start, and the formats still describe the whole map
            multi = [l for l in res.byte_lines if len(l['bytes']) // 2 >= 2 and not l.get('muted') and l['addr'] + 1 <= max(M)]
            if multi:
                l_ = multi[self._n % len(multi)]
                win_s = l_['addr'] + 1 + (self._n // 5) % (len(l_['bytes']) // 2 - 1)
                argv_extra = list(argv_extra) + ['-s', str(win_s)]
                tags.add('image-window-starts-inside-a-statement')
        win_e = None
        if self._n % 5 == 4 and M:
            # an image window that ends a little below a statement of several bytes: nothing of that statement is in the image,
            # and the formats still describe the whole map
            multi = [l for l in res.byte_lines if len(l['bytes']) // 2 >= 3 and not l.get('muted') and l['addr'] >= 3]
            if multi:
                l_ = multi[self._n % len(multi)]
                win_e = l_['addr'] - 2 - (self._n // 5) % 2
                argv_extra = list(argv_extra) + ['-e', str(win_e)]
                tags.add('image-window-ends-below-a-statement')
        if self._n % 4 == 1:
            # an older, longer output of an earlier run is already there: the new output replaces it completely
            fl = dict(fl)
            fl['pp.txt'] = ('9999 | ff ff ff ff ff ff | stale row of an earlier run\n:10FFF000FFFFFFFFFFFFFFFFFFFFFFFFFFFFFFFF11\n' * 400)
            tags.add('stale-longer-output-present')
        for f in FORMATS:
            runs.append({'files': fl, 'argv': ['compile', '-c', fn, main_name, '-o', 'out.bin', '-p', '-t', f,
                                               '--pretty-print-output', 'pp.txt'] + argv_extra,
                         'probes': ['steps'], 'step_limit': 4_000_000})
        return {'runs': runs, 'meta': {'M': {str(k): v for k, v in M.items()}, 'stm': stm, 'origin': origin,
                                       'image': (layout.image(M, win_s, win_e, fillv) or b'').hex()},
                'tags': sorted(tags)}

    def length_cases(self):
        """data lines of every length 1..40 bytes (listing rows wrap at 6, hex rows at 16)"""
        for base in (0, 3):
            rng = core.rng_for(0, self.pid, 'len', base)
            isa = gen_prog.layout_isa(16)
            lines = [{'k': 'org', 'addr': base, 'zone_name': None}]
            for n in range(1, 41):
                lines.append({'k': 'data', 'width': 1, 'vals': [(n * 7 + j) & 0xFF for j in range(n)]})
            res = layout.layout(lines, 16, origin=0, size_of=lambda l, a: gen_prog.byte_line_size(isa, l))
            layout.memory_map(res, lambda l: gen_prog.byte_line_bytes(isa, l, None, {'GLOBAL': (0, 65535)}))
            for l in lines:
                l['text'] = gen_prog.render_line(l, None)
            ids = {id(l): ('p.asm', k + 1) for k, l in enumerate(lines)}
            yield self.make_case(isa, {'p.asm': ''.join(l['text'] + '\n' for l in lines)}, 'p.asm', [], res, ids,
                                 {'width:16', 'every-line-length-1..40'})

    def long_statement_cases(self):
        """single statements of 41..3000 bytes (data lists, fills, zero runs, strings): every byte of a statement is listed, however
        many rows that takes"""
        sizes = [41, 64, 95, 96, 97, 100, 128, 200, 257, 600, 1500, 3000]
        for kind, base in [(k_, b_) for k_ in ('data', 'fill', 'zero', 'cstr', 'data16') for b_ in (5, 0, 0x1F3)]:
            rng = core.rng_for(0, self.pid, 'long', kind)
            isa = gen_prog.layout_isa(16)
            lines = [{'k': 'org', 'addr': base, 'zone_name': None}]
            for n in (sizes if kind in ('fill', 'zero') else sizes[:8]):
                if kind == 'data':
                    lines.append({'k': 'data', 'width': 1, 'vals': [(n + 3 * j) & 0xFF for j in range(n)]})
                elif kind == 'data16':
                    lines.append({'k': 'data', 'width': 2, 'vals': [(n * 257 + 5 * j) & 0xFFFF for j in range(n // 2)]})
                elif kind == 'fill':
                    lines.append({'k': 'fill', 'n': n, 'v': (n * 7) & 0xFF or 1})
                elif kind == 'zero':
                    lines.append({'k': 'zero', 'n': n})
                else:
                    txt = ''.join(chr(0x41 + (j + n) % 26) for j in range(n - 1))
                    lines.append({'k': 'bytes', 'bytes': (txt.encode() + b'\0').hex(), 'text': f'.cstr "{txt}"'})
                lines.append({'k': 'data', 'width': 1, 'vals': [0xEE]})
            res = layout.layout(lines, 16, origin=0, size_of=lambda l, a: gen_prog.byte_line_size(isa, l))
            layout.memory_map(res, lambda l: gen_prog.byte_line_bytes(isa, l, None, {'GLOBAL': (0, 65535)}))
            for l in lines:
                l['text'] = gen_prog.render_line(l, None)
            ids = {id(l): ('p.asm', k + 1) for k, l in enumerate(lines)}
            yield self.make_case(isa, {'p.asm': ''.join(l['text'] + '\n' for l in lines)}, 'p.asm', [], res, ids,
                                 {'width:16', 'statement-longer-than-96-bytes', 'long-statement:' + kind})

    def boundary_64k_cases(self):
        """statements of 1..100 bytes standing before, across and behind a 64 KiB boundary under address widths above 16 (the
        Intel HEX records carry 16 address bits each; the upper bits come from separate records)"""
        for ab in (20, 24):
            for kind in ('data', 'fill', 'cstr'):
                for base in (0xFFF0, 0xFFFF, 0x10000, 0x1FFF5, 0x2FF9C):
                    isa = gen_prog.layout_isa(ab)
                    lines = [{'k': 'data', 'width': 1, 'vals': [0xA1, 0xA2]}, {'k': 'org', 'addr': base, 'zone_name': None}]
                    for n in (1, 4, 17, 40, 100, 3):
                        if kind == 'data':
                            lines.append({'k': 'data', 'width': 1, 'vals': [(n + 3 * j + base) & 0xFF for j in range(n)]})
                        elif kind == 'fill':
                            lines.append({'k': 'fill', 'n': n, 'v': (n * 7 + base) & 0xFF or 1})
                        else:
                            txt = ''.join(chr(0x41 + (j + n) % 26) for j in range(n - 1))
                            lines.append({'k': 'bytes', 'bytes': (txt.encode() + b'\0').hex(), 'text': f'.cstr "{txt}"'})
                    res = layout.layout(lines, ab, origin=0, size_of=lambda l, a: gen_prog.byte_line_size(isa, l))
                    layout.memory_map(res, lambda l: gen_prog.byte_line_bytes(isa, l, None, {'GLOBAL': (0, (1 << ab) - 1)}))
                    for l in lines:
                        l['text'] = gen_prog.render_line(l, None)
                    ids = {id(l): ('p.asm', k + 1) for k, l in enumerate(lines)}
                    crossing = any(l['addr'] >> 16 != (l['addr'] + len(l['bytes']) // 2 - 1) >> 16 for l in res.byte_lines if l['bytes'])
                    yield self.make_case(isa, {'p.asm': ''.join(l['text'] + '\n' for l in lines)}, 'p.asm', [], res, ids,
                                         {f'width:{ab}', 'bytes-above-64KiB', 'statement-across-a-64KiB-boundary' if crossing else 'statement-next-to-a-64KiB-boundary'})

    def below_origin_cases(self):
        """a configured origin above 0 with bytes placed below it through a zone switch or a predefined data block (no .org in
        front of them): every format carries their addresses"""
        D = lambda *v: {'k': 'data', 'width': 1, 'vals': list(v)}     # noqa: E731
        for origin in (0x100, 0x06, 0x20):
            for how in ('zone-first', 'zone-later', 'predefined-data', 'zone-and-data'):
                zones = [{'name': 'ZLOW', 'start': origin // 2, 'end': origin // 2 + 7}] if how != 'predefined-data' else []
                data = [{'name': 'pd_low', 'address': 0, 'value': 0x5A, 'size': 2}] if how in ('predefined-data', 'zone-and-data') else []
                isa = gen_prog.layout_isa(16, origin=origin, zones=zones, data=data)
                Z = lambda n: {'k': 'memzone', 'name': n}             # noqa: E731
                if how == 'zone-first':
                    lines = [Z('ZLOW'), D(0x11, 0x22, 0x33), Z('GLOBAL'), D(1, 2), Z('ZLOW'), D(0x44)]
                elif how == 'predefined-data':
                    lines = [D(1, 2, 3)]
                else:
                    lines = [D(1, 2), Z('ZLOW'), D(0x11, 0x22, 0x33), Z('GLOBAL'), D(3), Z('ZLOW'), D(0x44), Z('GLOBAL'), D(4)]
                res = layout.layout(lines, 16, origin=origin, predefined_zones=zones, predefined_data=data,
                                    size_of=lambda l, a: gen_prog.byte_line_size(isa, l))
                if res.kind != 'ACCEPT' or layout.overlaps(res)[0] != 'ACCEPT':
                    continue
                zt = {'GLOBAL': (0, 65535)}
                zt.update({z['name']: (z['start'], z['end']) for z in zones})
                layout.memory_map(res, lambda l: gen_prog.byte_line_bytes(isa, l, None, zt))
                for l in lines:
                    l['text'] = gen_prog.render_line(l, None)
                ids = {id(l): ('p.asm', k + 1) for k, l in enumerate(lines)}
                yield self.make_case(isa, {'p.asm': ''.join(l['text'] + '\n' for l in lines)}, 'p.asm', [], res, ids,
                                     {'width:16', 'bytes-below-a-configured-origin', 'below-origin:' + how}, origin=origin)

    def nested_mute_include_cases(self):
        """files included at mute depth 0..3 that mute, unmute and include further files themselves: the depth is one counter
        across all files, and what is muted appears in no format"""
        isa = gen_prog.layout_isa(16)
        k = 0
        for lead in (0, 1, 2, 3):
            for mid_wrap in (0, 1, 2):
                for mid_emits in (mid_wrap, max(0, mid_wrap - 1), mid_wrap + 1):
                    for tail_emits in (lead, max(0, lead - 1)):
                        k += 1
                        src = {
                            'p.asm': ['.byte $A1'] + ['#mute'] * lead + ['#include "mid.asm"'] + ['#emit'] * 1 + ['.byte $A2'] +
                                     ['#unmute'] * tail_emits + ['.byte $A3', '#emit', '#emit', '#emit', '.byte $A4'],
                            'mid.asm': ['.byte $B1'] + ['#mute'] * mid_wrap + ['#include "deep.asm"'] + ['#emit'] * mid_emits + ['.byte $B2'],
                            'deep.asm': ['.byte $C1', '#mute', '.byte $C2', '#unmute', '.byte $C3']}
                        flat, ids = [], {}

                        def walk(fname):
                            for n_, t_ in enumerate(src[fname]):
                                if t_.startswith('#include'):
                                    walk(t_.split('"')[1])
                                elif t_ == '#mute':
                                    flat.append({'k': 'mute', 'text': t_})
                                elif t_ in ('#emit', '#unmute'):
                                    flat.append({'k': 'unmute', 'text': t_})
                                else:
                                    l_ = {'k': 'data', 'width': 1, 'vals': [int(t_.split('$')[1], 16)], 'text': t_}
                                    flat.append(l_)
                                    ids[id(l_)] = (fname, n_ + 1)
                        walk('p.asm')
                        res = layout.layout(flat, 16, origin=0, size_of=lambda l, a: gen_prog.byte_line_size(isa, l))
                        layout.memory_map(res, lambda l: gen_prog.byte_line_bytes(isa, l, None, {'GLOBAL': (0, 65535)}))
                        if not res.M:
                            continue
                        yield self.make_case(isa, {f_: '\n'.join(t_) + '\n' for f_, t_ in src.items()}, 'p.asm', [], res, ids,
                                             {'width:16', 'included-file', 'include-at-mute-depth:' + str(min(lead, 2)) + ('+' if lead >= 2 else ''),
                                              'nested-mute-across-includes'})

    def gap_cases(self):
        """a gap in the address map made by something other than .org, with zero-length statements at its edges"""
        zones = [{'name': 'ZG', 'start': 0x40, 'end': 0x7F}]
        gaps = {'align': [{'k': 'align', 'p': 8}], 'memzone': [{'k': 'memzone', 'name': 'ZG'}],
                'muted': [{'k': 'mute'}, {'k': 'data', 'width': 1, 'vals': [0x71, 0x72, 0x73]}, {'k': 'unmute', 'text': '#unmute'}],
                'zone-org': [{'k': 'org', 'addr': 5, 'zone_name': 'ZG'}], 'org': [{'k': 'org', 'addr': 0x30, 'zone_name': None}],
                'fill': [{'k': 'mute'}, {'k': 'fill', 'n': 5, 'v': 1}, {'k': 'unmute', 'text': '#unmute'}]}
        zeros = {'none': [], 'fill0': [{'k': 'fill', 'n': 0, 'v': 7}], 'zero0': [{'k': 'zero', 'n': 0}],
                 'zerountil-behind': [{'k': 'zerountil', 'a': 0}], 'label+fill0': [{'k': 'label', 'name': 'at_gap'}, {'k': 'fill', 'n': 0, 'v': 1}]}
        k = 0
        for gname, gap in gaps.items():
            for zname, zero in zeros.items():
                for where in ('after-gap', 'before-gap', 'both'):
                    if zname == 'none' and where != 'after-gap':
                        continue
                    rng = core.rng_for(0, self.pid, 'gap', k)
                    k += 1
                    isa = gen_prog.layout_isa(16, zones=zones)
                    import copy
                    z1 = copy.deepcopy(zero) if where in ('before-gap', 'both') else []
                    z2 = copy.deepcopy(zero) if where in ('after-gap', 'both') else []
                    for it in z2:
                        if it.get('name'):
                            it['name'] = 'at_gap2'
                    lines = [{'k': 'data', 'width': 1, 'vals': [0x11, 0x12, 0x13]}] + z1 + copy.deepcopy(gap) + z2 + \
                        [{'k': 'data', 'width': 1, 'vals': [0x21, 0x22]}, {'k': 'data', 'width': 2, 'vals': [0x3132]}]
                    res = layout.layout(lines, 16, origin=0, predefined_zones=zones, size_of=lambda l, a: gen_prog.byte_line_size(isa, l))
                    if res.kind != 'ACCEPT':
                        continue
                    layout.memory_map(res, lambda l: gen_prog.byte_line_bytes(isa, l, None, {'GLOBAL': (0, 65535), 'ZG': (0x40, 0x7F)}))
                    for l in lines:
                        l['text'] = gen_prog.render_line(l, None)
                    ids = {id(l): ('p.asm', n + 1) for n, l in enumerate(lines)}
                    yield self.make_case(isa, {'p.asm': ''.join(l['text'] + '\n' for l in lines)}, 'p.asm', [], res, ids,
                                         {'width:16', 'gap:' + gname, 'zero-length:' + zname + '/' + where, 'gap-without-org' if gname != 'org' else 'gap-by-org',
                                          'zero-length-at-gap-edge' if zname != 'none' else 'plain-gap'})

    def odd_width_cases(self):
        """address widths that are not a multiple of 4 bits, with blocks below, across and above 16**floor(bits/4) and at the top"""
        for ab in (5, 7, 10, 13, 14, 15, 17):
            top = (1 << ab) - 1
            edge = 16 ** (ab // 4)
            isa = gen_prog.layout_isa(ab)
            lines = [{'k': 'org', 'addr': 1, 'zone_name': None}, {'k': 'data', 'width': 1, 'vals': [0x11, 0x12]}]
            if edge - 2 > 4 and edge + 3 < top - 4:
                lines += [{'k': 'org', 'addr': edge - 2, 'zone_name': None}, {'k': 'data', 'width': 1, 'vals': [0x21, 0x22, 0x23, 0x24]}]
            mid = (edge + top) // 2
            if edge + 8 < mid < top - 8:
                lines += [{'k': 'org', 'addr': mid, 'zone_name': None}, {'k': 'data', 'width': 1, 'vals': [0x31, 0x32]}]
            lines += [{'k': 'org', 'addr': top - 2, 'zone_name': None}, {'k': 'data', 'width': 1, 'vals': [0x41, 0x42, 0x43]}]
            res = layout.layout(lines, ab, origin=0, size_of=lambda l, a: gen_prog.byte_line_size(isa, l))
            if res.kind != 'ACCEPT':
                continue
            layout.memory_map(res, lambda l: gen_prog.byte_line_bytes(isa, l, None, {'GLOBAL': (0, top)}))
            for l in lines:
                l['text'] = gen_prog.render_line(l, None)
            ids = {id(l): ('p.asm', n + 1) for n, l in enumerate(lines)}
            yield self.make_case(isa, {'p.asm': ''.join(l['text'] + '\n' for l in lines)}, 'p.asm', [], res, ids,
                                 {f'width:{ab}', 'width:not-a-multiple-of-4'})

    def compound_cases(self, tier, seed):
        """several statements on one source line (label in front of a statement, joined instructions): the listing must show
        each statement exactly once, in address order, under the same line number"""
        n = 12 if tier == 'quick' else 200
        for i in range(n):
            rng = core.rng_for(0 if i < 12 else seed, self.pid, 'compound', i)
            isa = gen_prog.layout_isa(16, endian=rng.choice(['big', 'little']))
            src_lines = ['.org ' + str(rng.choice([0, 16, 100]))]
            model_lines = [{'k': 'org', 'addr': int(src_lines[0].split()[1]), 'zone_name': None}]
            per_line = {}
            for ln_no in range(2, rng.randrange(4, 12)):
                parts = []
                stm = []
                if rng.random() < 0.5:
                    nm = f'L{ln_no}'
                    parts.append(nm + ':')
                    model_lines.append({'k': 'label', 'name': nm})
                for _ in range(rng.choice([1, 1, 2, 3])):
                    mn = rng.choice(['nop', 'inr', 'nib', 'ldi', 'tri', 'jmp'])
                    vals = {'nop': [], 'inr': [], 'nib': [rng.randrange(16)], 'ldi': [rng.randrange(256)], 'tri': [rng.randrange(4096)],
                            'jmp': [rng.randrange(65536)]}[mn]
                    l = {'k': 'instr', 'stmt': gen_prog.make_stmt(mn, vals, rng.choice(['ra', 'rb']))}
                    model_lines.append(l)
                    stm.append(l)
                    parts.append(gen_prog.instr_text(l))
                src_lines.append(rng.choice([' ', '  ', '\t']).join(parts))
                per_line[ln_no] = stm
            res = layout.layout(model_lines, 16, origin=0, size_of=lambda l, a: gen_prog.byte_line_size(isa, l))
            layout.memory_map(res, lambda l: gen_prog.byte_line_bytes(isa, l, None, {'GLOBAL': (0, 65535)}))
            ids = {}
            for ln_no, stm in per_line.items():
                for k, l in enumerate(stm):
                    l['text'] = gen_prog.instr_text(l)
                    ids[id(l)] = ('p.asm', ln_no, k)
            c = self.make_case(isa, {'p.asm': '\n'.join(src_lines) + '\n'}, 'p.asm', [], res, ids,
                               {'width:16', 'several-statements-per-line'})
            # statements of one line: (file, line) -> ordered list
            for s_ in c['meta']['stm']:
                pass
            yield c

    def cases(self, tier, seed):
        yield from self.corpus_cases(tier)
        yield from self.length_cases()
        yield from self.long_statement_cases()
        yield from self.boundary_64k_cases()
        yield from self.below_origin_cases()
        yield from self.nested_mute_include_cases()
        yield from self.compound_cases(tier, seed)
        yield from self.gap_cases()
        yield from self.odd_width_cases()
        n_pre = 90
        n = 90 if tier == 'quick' else 2500
        for i in range(n_pre + n):
            rng = core.rng_for(0 if i < n_pre else seed, self.pid, i)
            mode = i % 3
            tags = set()
            if mode == 0:
                isa, lines, res, lk = c03.build_program(rng, None, predefined=(i % 2 == 0))
                if res.kind != 'ACCEPT' or layout.overlaps(res)[0] != 'ACCEPT':
                    continue
                src = ''.join(l['text'] + '\n' for l in lines)
                ids = {}
                ln_no = 1
                for l in lines:
                    ids[id(l)] = ('p.asm', ln_no)
                    ln_no += l['text'].count('\n') + 1          # a few generated entries span several source lines
                if res.predefined_data:
                    tags.add('predefined-data')
                tags.add('width:16')
                yield self.make_case(isa, {'p.asm': src}, 'p.asm', [], res, ids, tags)
            elif mode == 1:
                g = None
                for _ in range(10):
                    g = gen_prog.Structured(rng, 16, {'file_labels': False})
                    g.gen(rng.randrange(10, 40))
                    if g.finish():
                        break
                    g = None
                if g is None:
                    continue
                lines = g.lines
                files = {}
                main = lines
                dirs = ['.', 'lib']
                pool = ['part1.asm', 'part2.asm']
                if rng.random() < 0.6:
                    t2 = set()
                    m2 = c17.split_once(rng, lines, pool, files, dirs, t2)
                    if m2 is not None and 'include-while-muted' not in t2:
                        main = m2
                        tags.add('included-file')
                    else:
                        files = {}
                        main = lines
                fl = {'p.asm': ''.join(l['text'] + '\n' for l in main)}
                ids = {id(l): ('p.asm', k + 1) for k, l in enumerate(main)}

                def reg(ls, name):
                    for k, l in enumerate(ls):
                        ids[id(l)] = (name, k + 1)
                for (d, f), ls in files.items():
                    fl[(d + '/' if d != '.' else '') + f] = ''.join(l['text'] + '\n' for l in ls)
                    reg(ls, f)
                if any(l['k'] in ('align', 'memzone') for l in lines):
                    tags.add('gap-without-org')
                tags.add('width:16')
                yield self.make_case(g.isa, fl, 'p.asm', ['-I', 'lib'] if files else [], g.res, ids, tags, origin=g.origin)
            else:
                ab = [4, 8, 12, 24, 32][(i // 3) % 5]
                isa = gen_prog.layout_isa(ab)
                lines = tiny_program(rng, ab)
                res = layout.layout(lines, ab, origin=0, size_of=lambda l, a: gen_prog.byte_line_size(isa, l))
                if res.kind != 'ACCEPT':
                    continue
                layout.memory_map(res, lambda l: gen_prog.byte_line_bytes(isa, l, None, {'GLOBAL': (0, (1 << ab) - 1)}))
                for l in lines:
                    l['text'] = gen_prog.render_line(l, rng)
                ids = {id(l): ('p.asm', k + 1) for k, l in enumerate(lines)}
                tags.add(f'width:{ab}')
                yield self.make_case(isa, {'p.asm': ''.join(l['text'] + '\n' for l in lines)}, 'p.asm', [], res, ids, tags)

    def corpus_cases(self, tier):
        """the repository's own example programs: relational oracle only (all formats agree with each other and the image)"""
        from vf import runner
        import sys
        sys.path.insert(0, os.path.join(runner.VERIF_ROOT, 'tools'))
        import examples_screen
        root = runner.repo_root()
        progs = list(examples_screen.programs(root))
        if tier == 'quick':
            progs = progs[:2] + progs[12:13] + progs[-1:]
        for src, isa in progs:
            d = os.path.dirname(src)
            files = {}
            for fn_ in os.listdir(d):
                p_ = os.path.join(d, fn_)
                if os.path.isfile(p_) and os.path.splitext(fn_)[1] in examples_screen.EXT2ISA:
                    files['ex/' + fn_] = open(p_, encoding='utf-8', errors='surrogateescape').read()
            files['isa.yaml'] = open(isa).read()
            runs = []
            for f in FORMATS:
                runs.append({'files': files, 'argv': ['compile', '-c', 'isa.yaml', 'ex/' + os.path.basename(src), '-o', 'out.bin', '-p',
                                                      '-t', f, '--pretty-print-output', 'pp.txt'],
                             'probes': [], 'cpu_s': 60, 'wall_s': 120})
            yield {'runs': runs, 'meta': {'corpus': os.path.relpath(src, root)}, 'tags': ['corpus-example']}

    def judge_corpus(self, case, outcomes):
        maps = {}
        img = None
        for f, o in zip(FORMATS, outcomes):
            files = o.get('files') or {}
            if o.get('exit') != 0 or 'pp.txt' not in files:
                return [core.violated(f'corpus/format-run-failed/{f}', {'example': case['meta']['corpus'], 'stderr': (o.get('stderr') or '')[-300:]})]
            img = bytes.fromhex(files['out.bin'])
            text = bytes.fromhex(files['pp.txt']).decode('utf-8', 'replace')
            try:
                if f == 'listing':
                    maps[f] = formats.listing_map(formats.decode_listing(text))
                elif f == 'hex':
                    maps[f] = formats.decode_hexdump(text)
                elif f == 'intel_hex':
                    maps[f] = formats.decode_intel_hex(text)
                else:
                    maps[f] = formats.decode_minhex(text, 0) if not text.lstrip().startswith(':') else None
            except formats.DecodeError as e:
                return [core.violated(f'corpus/undecodable/{f}', {'example': case['meta']['corpus'], 'error': str(e)})]
        ref = maps['intel_hex']
        vs = []
        for f, D in maps.items():
            if D is None:
                continue
            if D != ref:
                diff = sorted(set(D) ^ set(ref))[:8] or sorted(a for a in D if D[a] != ref.get(a))[:8]
                vs.append(core.violated(f'corpus/map-differs/{f}-vs-intel_hex', {'example': case['meta']['corpus'], 'addresses': diff},
                                        buckets=['corpus-example', 'fmt:' + f]))
            else:
                vs.append(core.held(buckets=['fmt:' + f], nt='corpus|' + f + '|' + case['meta']['corpus']))
        bad = [a for a, b in ref.items() if a >= len(img) or img[a] != b][:8]
        if bad:
            vs.append(core.violated('corpus/image-differs-from-intel_hex', {'example': case['meta']['corpus'], 'addresses': bad}))
        return vs

    def judge(self, case, outcomes):
        m = case['meta']
        if 'corpus' in m:
            return self.judge_corpus(case, outcomes)
        M = {int(k): v for k, v in m['M'].items()}
        tags = case['tags']
        vs = []
        src = {k: v[:1200] for k, v in case['runs'][0]['files'].items() if k.endswith('.asm')}
        for f, o in zip(FORMATS, outcomes):
            t = list(tags) + ['fmt:' + f]
            nt = f + '|' + ','.join(tags)
            if o.get('timed_out'):
                vs.append(core.violated(f'termination:{o["timed_out"]}/{f}', {'src': src}))
                continue
            files = o.get('files') or {}
            pp = files.get('pp.txt')
            img = files.get('out.bin')
            if o.get('exit') != 0 or pp is None:
                cls = 'zero-length-line' if 'zero-length-line' in tags and 'line_bytes is empty' in (o.get('stderr') or '') else 'other'
                vs.append(core.violated(f'format-run-failed/{f}/{cls}', {'exit': o.get('exit'), 'stderr': (o.get('stderr') or '')[-300:],
                                                                         'image_written': img is not None, 'src': src}, buckets=t, nt=nt))
                continue
            if img is not None and img != m['image']:
                vs.append(core.violated('image-differs-from-model', {'src': src, 'got': img[:300], 'model': m['image'][:300]}))
                continue
            text = bytes.fromhex(pp).decode('utf-8', 'replace')
            try:
                if f == 'listing':
                    rows = formats.decode_listing(text)
                    D = formats.listing_map(rows)
                elif f == 'hex':
                    D = formats.decode_hexdump(text)
                elif f == 'intel_hex':
                    D = formats.decode_intel_hex(text)
                else:
                    D = formats.decode_minhex(text, m['origin'])
            except formats.DecodeError as e:
                vs.append(core.violated(f'undecodable/{f}', {'error': str(e), 'text': text[:600], 'src': src}, buckets=t, nt=nt))
                continue
            if D != M:
                extra = sorted(set(D) - set(M))[:8]
                missing = sorted(set(M) - set(D))[:8]
                wrong = sorted(a for a in set(D) & set(M) if D[a] != M[a])[:8]
                why = []
                if 'muted-region' in tags:
                    why.append('muted')
                if 'gap-without-org' in tags:
                    why.append('gap-without-org')
                if 'predefined-data' in tags:
                    why.append('predefined')
                vs.append(core.violated(f'map-differs/{f}/' + ('+'.join(why) or 'plain'),
                                        {'extra_addresses': extra, 'missing_addresses': missing, 'wrong_bytes_at': wrong,
                                         'text': text[:900], 'src': src}, buckets=t, nt=nt))
                continue
            if f == 'listing':
                bad = None
                by = {}
                for r in rows:
                    by.setdefault((os.path.basename(r['file']), r['line']), []).append(r)
                groups = {}
                for s in m['stm']:
                    groups.setdefault((s['file'], s['line']), []).append(s)
                for key, ss in groups.items():
                    rr = [r for r in by.get(key, [])]
                    if len(ss) > 1:
                        # several statements on one source line: the byte-carrying rows of that line, in order
                        rb = [r for r in rr if r['bytes']]
                        if len(rb) != len(ss):
                            bad = ('line-with-%d-statements-shown-as-%d-rows' % (len(ss), len(rb)), ss[0])
                            break
                        if any(r['addr'] != s['addr'] or bytes(r['bytes']).hex() != s['bytes'] for r, s in zip(rb, ss)):
                            bad = ('statement-address-or-bytes/several-per-line', ss[0])
                            break
                        continue
                    s = ss[0]
                    if s['muted']:
                        if any(r['bytes'] for r in rr):
                            bad = ('muted-statement-shown-with-bytes', s)
                            break
                        continue
                    if s['bytes']:
                        rb = [r for r in rr if r['bytes']]       # a label in front of the statement has its own row
                        if len(rb) != 1:
                            bad = ('statement-shown-%d-times' % len(rb), s)
                            break
                        if rb[0]['addr'] != s['addr'] or bytes(rb[0]['bytes']).hex() != s['bytes']:
                            bad = ('statement-address-or-bytes', s)
                            break
                    else:
                        if not rr:
                            bad = ('statement-shown-0-times', s)
                            break
                        if not any(r['addr'] == s['addr'] for r in rr):
                            bad = ('statement-address-or-bytes', s)
                            break
                if bad:
                    vs.append(core.violated('listing/' + bad[0], {'statement': bad[1], 'text': text[:900], 'src': src}, buckets=t, nt=nt))
                    continue
            vs.append(core.held(buckets=t, nt=nt))
        return vs

    def sample_of(self, case, outcomes):
        if 'corpus' in case['meta']:
            return {'corpus_example': case['meta']['corpus']}
        return {'files': {k: v[:400] for k, v in case['runs'][0]['files'].items() if k.endswith('.asm')},
                'minhex': bytes.fromhex((outcomes[3].get('files') or {}).get('pp.txt', '')).decode('utf-8', 'replace')[:300],
                'model_map_size': len(case['meta']['M'])}
