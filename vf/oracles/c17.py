"""C17 — including a file is equivalent to assembling its text in place.

Oracles: (a) metamorphic — a structured single-file program is split at admissible line boundaries into 2..5 files
(nested includes, 1..3 include directories); the split assembly must equal the unsplit assembly (and the layout model);
(b) model — includer inside a named zone and a local region: the included file starts in GLOBAL under a fresh file
scope, the includer then continues its zone and region; (c) negatives — file included twice (directly, transitively,
self-include), missing file, the same name in two search directories.  Probe: `files` (include read-opens, in order).
"""
from vf import core, isa as isamod, gen_prog
from vf.model import layout


def cut_points(lines):
    """Indices where a chunk may begin / end (see DESIGN C17: restricted class)."""
    depth = 0
    mute = 0
    zone = 'GLOBAL'
    info = []
    for i, ln in enumerate(lines):
        k = ln['k']
        text = ln.get('text', '')
        info.append({'cond': depth, 'mute': mute, 'zone_before': zone})
        if k == 'cond':
            if text.startswith(('#if', '#ifdef', '#ifndef')):
                depth += 1
            elif text.startswith('#endif'):
                depth -= 1
        elif ln.get('excluded'):
            continue
        elif k == 'mute':
            mute += 1
        elif k == 'unmute':
            mute = max(0, mute - 1)
        elif k == 'org':
            zone = ln.get('zone_name') or 'GLOBAL'
        elif k == 'memzone':
            zone = ln['name']
    info.append({'cond': depth, 'mute': mute, 'zone_before': zone})
    return info


def split_once(rng, lines, fname_pool, files, dirs, tags, depth=0, nest_p=0.5, prefer_mute=0):
    """Moves one admissible chunk of `lines` into a new file; returns the new includer line list (or None)."""
    info = cut_points(lines)
    starts = [i for i, ln in enumerate(lines) if ln['k'] == 'label' and ln.get('scope') == 'g' and not ln.get('excluded')
              and info[i]['cond'] == 0 and info[i]['zone_before'] == 'GLOBAL' and i > 0]
    rng.shuffle(starts)
    if prefer_mute:
        starts.sort(key=lambda i: 0 if info[i]['mute'] >= prefer_mute else 1)
    for i in starts:
        ends = []
        for j in range(i + 2, len(lines) + 1):
            if info[j]['cond'] != 0 or info[j]['mute'] != info[i]['mute'] or info[j]['zone_before'] != 'GLOBAL':
                continue
            if j == len(lines) or (lines[j]['k'] == 'label' and lines[j].get('scope') in ('g', 'f') and not lines[j].get('excluded')) \
                    or (lines[j]['k'] == 'org' and not lines[j].get('excluded')):
                ends.append(j)
        if not ends:
            continue
        j = rng.choice(ends)
        chunk = lines[i:j]
        if not any(l['k'] in layout.BYTE_KINDS for l in chunk):
            continue
        fn = fname_pool.pop(0)
        d = rng.choice(dirs)
        if info[i]['mute'] > 0:
            tags.add('include-while-muted')
        if info[i]['mute'] >= 2:
            tags.add('include-at-mute-depth>=2')
        tags.add(f'nesting:{depth + 1}')
        # nested split inside the chunk
        if depth < 2 and fname_pool and rng.random() < nest_p:
            sub = split_once(rng, chunk, fname_pool, files, dirs, tags, depth + 1, nest_p)
            if sub is not None:
                chunk = sub
        files[(d, fn)] = chunk
        # the include line itself may be indented, use tabs, and carry a comment like any other line
        form = rng.choice(['#include "{}"', '#include "{}"', '#include "{}" ; pulled in here', '#include\t"{}"', '  #include "{}"',
                           '#include   "{}"   ; c', '#include "{}";c', '#include "{}" ; "quoted" comment'])
        if form != '#include "{}"':
            tags.add('include-line:decorated')
        return lines[:i] + [{'k': 'include', 'text': form.format(fn)}] + lines[j:]
    return None


class C17(core.Check):
    pid = 'C17'
    level = 'exploration'
    rule = ('(a) structured programs (labels, references, zones, .align, muted and excluded regions; no file-scope labels) split '
            'at admissible boundaries (includer in GLOBAL, chunk begins with a non-local label, ends before a non-local label / '
            '.org / end of file, balanced conditionals and mute depth) into 2..5 files with nested includes and 1..3 include '
            'directories: split image == unsplit image == model image; (b) includer inside a named zone and a local region, '
            'included file starts in GLOBAL, includer continues zone and region; same file-label names in both files; cross-file '
            'file-label reference rejected; (c) negatives. distinct_nontrivial = distinct (nesting, #dirs, features, class) tuples.')
    rule = rule + ' ' + 'Symbols spelled like a word of the include line (stem, extension, name part, directive word) come from all three sources.'
    assumptions = ('the metamorphic class excludes cuts where pasting and including legitimately differ (zone reset at include '
                   'start, fresh file scope, fresh local region)',)
    chunk = 600
    no_image_reject = lambda self, c: c['meta'].get('kind') == 'REJECT'
    required_buckets = {b: 3 for b in ['nesting:1', 'nesting:2', 'nesting:3', 'dirs:1', 'dirs:2', 'dirs:3', 'class:metamorphic',
                                       'class:zone-region-continuation', 'class:file-label-isolation',
                                       'neg:included-twice', 'neg:transitively-twice', 'neg:self-include', 'neg:missing-file',
                                       'neg:ambiguous-name', 'class:include-in-uncompiled-branch', 'include-line:decorated', 'include-while-muted', 'include-at-mute-depth>=2', 'files:3+', 'neg:file-label-of-includer',
                                       'neg:file-label-of-included', 'neg:file-label/include-top', 'neg:file-label/include-after-global-label',
                                       'neg:file-label/include-after-local-label', 'neg:file-label/include-after-org',
                                       'neg:file-label/include-nested', 'class:symbol-spelled-like-a-word-of-the-include-line',
                                       'symbol-from:define', 'symbol-from:config', 'symbol-from:cmdline',
                                       'class:file-names-differing-in-letter-case-only', 'dirs:same-directory-under-another-spelling', 'neg:global-defined-in-two-files/same-line-number', 'class:relative-search-directory-with-the-main-file-elsewhere', 'neg:file-only-in-the-working-directory', 'neg:ambiguous-name/one-copy-is-the-including-file', 'neg:global-defined-in-two-files/other-line-number', 'neg:main-file-again/relative', 'neg:main-file-again/absolute', 'neg:main-file-again/symlinked-directory']}

    def metamorphic(self, rng, nest_p=0.5, prefer_mute=0):
        g = None
        for _ in range(10):
            g = gen_prog.Structured(rng, 16, {'file_labels': False})
            g.gen(rng.randrange(14, 45))
            if g.finish():
                break
            g = None
        if g is None:
            return None
        ndirs = rng.choice([1, 2, 3])
        dirs = ['.', 'lib', 'lib2/deep'][:ndirs]
        pool = [f'part{i}.asm' for i in range(1, 5)]
        files = {}
        tags = {'class:metamorphic', f'dirs:{ndirs}'}
        lines = g.lines
        main = split_once(rng, lines, pool, files, dirs, tags, 0, nest_p, prefer_mute)
        if main is None:
            return None
        # possibly a second sibling chunk
        if pool and rng.random() < 0.5:
            m2 = split_once(rng, main, pool, files, dirs, tags)
            if m2 is not None:
                main = m2
        if len(files) + 1 >= 3:
            tags.add('files:3+')
        fn, text = isamod.render_isa(g.isa, 'json')
        unsplit = ''.join(l['text'] + '\n' for l in lines)
        fl = {fn: text, 'p.asm': ''.join(l['text'] + '\n' for l in main)}
        for (d, f), ls in files.items():
            fl[(d + '/' if d != '.' else '') + f] = ''.join(l['text'] + '\n' for l in ls)
        argv = ['compile', '-c', fn, 'p.asm', '-o', 'out.bin']
        for d in dirs:
            if d != '.':
                argv += ['-I', d]
        self._nm = getattr(self, '_nm', 0) + 1
        if self._nm % 3 == 0:
            # the same directory named twice under different spellings is one directory (also the main file's own)
            extra_ = [['-I', '.'], ['-I', './'], ['-I', '{SCRATCH}']][(self._nm // 3) % 3]
            for d in dirs:
                if d != '.' and (self._nm // 3) % 2:
                    extra_ += ['-I', './' + d + '/']
            argv += extra_
            tags.add('dirs:same-directory-under-another-spelling')
        img = layout.image(g.res.M, 0, None, 0)
        tags |= {t for t in g.tags if t.startswith(('org:', 'zone-switch'))}
        return {'runs': [{'files': fl, 'argv': argv, 'probes': ['steps', 'files'], 'step_limit': 3_000_000},
                         {'files': {fn: text, 'p.asm': unsplit}, 'argv': ['compile', '-c', fn, 'p.asm', '-o', 'out.bin'],
                          'probes': ['steps'], 'step_limit': 3_000_000}],
                'meta': {'class': 'metamorphic', 'image': img.hex() if img else None, 'kind': 'ACCEPT',
                         'includes': sorted(f for (_, f) in files)}, 'tags': sorted(tags)}

    def continuation(self, rng):
        """includer in zone Z and region R; include; then a reference to R's local and more bytes in Z"""
        zones = [{'name': 'ZC', 'start': 0x200, 'end': 0x2FF}, {'name': 'ZD', 'start': 0x400, 'end': 0x4FF}]
        isa = gen_prog.layout_isa(16, endian='big', zones=zones)
        main = [
            {'k': 'data', 'width': 1, 'vals': [0x01]},
            {'k': 'memzone', 'name': 'ZC'} if rng.random() < 0.5 else {'k': 'org', 'addr': rng.randrange(0, 9), 'zone_name': 'ZC'},
            {'k': 'label', 'name': 'host_reg'},
            {'k': 'data', 'width': 1, 'vals': [0x11] * rng.randrange(1, 4)},
            {'k': 'label', 'name': '.mine'},
            {'k': 'data', 'width': 1, 'vals': [0x12]},
        ]
        inc = [{'k': 'label', 'name': rng.choice(['inc_glob', 'other_entry'])},
               {'k': 'data', 'width': 1, 'vals': [0x21] * rng.randrange(1, 5)}]
        use_same_file_label = rng.random() < 0.5
        if use_same_file_label:
            main.insert(3, {'k': 'label', 'name': '_shared'})
            main.insert(4, {'k': 'data', 'width': 1, 'vals': [0x13]})
            inc += [{'k': 'label', 'name': '_shared'}, {'k': 'data', 'width': 1, 'vals': [0x22]},
                    {'k': 'data', 'width': 2, 'vals': [{'ref': '_shared@inc'}]}]
        r_ = rng.random()
        if r_ < 0.25:
            inc += [{'k': 'memzone', 'name': 'ZC'}, {'k': 'data', 'width': 1, 'vals': [0x23]}]      # zone switch inside the include
        elif r_ < 0.5:
            inc += [{'k': 'memzone', 'name': 'ZD'}, {'k': 'data', 'width': 1, 'vals': [0x24, 0x25]}]
        elif r_ < 0.7:
            inc += [{'k': 'org', 'addr': rng.randrange(0x600, 0x680), 'zone_name': None}, {'k': 'data', 'width': 1, 'vals': [0x26]}]
        elif r_ < 0.85:
            inc += [{'k': 'org', 'addr': rng.randrange(0, 8), 'zone_name': 'ZD'}, {'k': 'data', 'width': 1, 'vals': [0x27]}]
        after = [{'k': 'data', 'width': 1, 'vals': [0x14]},
                 {'k': 'data', 'width': 2, 'vals': [{'ref': '.mine'}]},
                 {'k': 'data', 'width': 2, 'vals': [{'ref': 'host_reg'}]}]
        if use_same_file_label:
            after.append({'k': 'data', 'width': 2, 'vals': [{'ref': '_shared@main'}]})
        stream = main + [{'k': 'include_begin'}] + inc + [{'k': 'include_end'}] + after
        res = layout.layout(stream, 16, origin=0, predefined_zones=zones, size_of=lambda l, a: l['width'] * len(l['vals']))
        if res.kind != 'ACCEPT' or layout.overlaps(res)[0] != 'ACCEPT':
            return None
        addr = {}
        for l in main + after:
            if l['k'] == 'label':
                addr[l['name'] + ('@main' if l['name'].startswith('_') else '')] = l['addr']
        for l in inc:
            if l['k'] == 'label':
                addr[l['name'] + ('@inc' if l['name'].startswith('_') else '')] = l['addr']

        def b(l):
            vals = [addr[v['ref']] if isinstance(v, dict) else v for v in l['vals']]
            return layout.data_bytes(l['width'], vals, 'big')
        layout.memory_map(res, b)
        img = layout.image(res.M, 0, None, 0)

        def text(l):
            if l['k'] == 'data':
                d = {1: '.byte', 2: '.2byte'}[l['width']]
                return d + ' ' + ', '.join((v['ref'].split('@')[0] if isinstance(v, dict) else str(v)) for v in l['vals'])
            return gen_prog.render_line(l, None)
        fn, itext = isamod.render_isa(isa, 'json')
        fl = {fn: itext, 'p.asm': '\n'.join([text(l) for l in main] + ['#include "inc.asm"'] + [text(l) for l in after]) + '\n',
              'inc.asm': '\n'.join(text(l) for l in inc) + '\n'}
        tags = {'class:zone-region-continuation', 'dirs:1', 'nesting:1'}
        if use_same_file_label:
            tags.add('class:file-label-isolation')
        return {'runs': [{'files': fl, 'argv': ['compile', '-c', fn, 'p.asm', '-o', 'out.bin'], 'probes': ['steps', 'files'],
                          'step_limit': 500000}],
                'meta': {'class': 'continuation', 'image': img.hex(), 'kind': 'ACCEPT', 'includes': ['inc.asm']},
                'tags': sorted(tags)}

    def mute_depth_cases(self):
        """an include reached at mute depth 0..3; the included file changes the depth or not; pasted-in-place semantics"""
        isa = gen_prog.layout_isa(16)
        fn, itext = isamod.render_isa(isa, 'json')
        inc_variants = {'plain': ['.byte $22'], 'unmutes-once': ['.byte $22', '#unmute', '.byte $23'],
                        'mutes-once': ['.byte $22', '#mute', '.byte $23'],
                        'balanced': ['#mute', '.byte $22', '#unmute', '.byte $23'],
                        'unmutes-twice': ['#unmute', '.byte $22', '#emit', '.byte $23']}
        for depth in (0, 1, 2, 3):
            for vname, inc in inc_variants.items():
                for after in (0, 1, 2, 3):
                    main = ['.byte $11'] + ['#mute'] * depth + ['#include "m.asm"'] + ['.byte $31']
                    for k in range(after):
                        main += ['#unmute', f'.byte ${0x41 + k:02x}']
                    main += ['#unmute'] * 4 + ['.byte $7e']
                    flat = []
                    for t in main:
                        flat += inc if t.startswith('#include') else [t]
                    # model: a counter; a byte is emitted iff the counter is 0
                    m, out = 0, []
                    for t in flat:
                        if t == '#mute':
                            m += 1
                        elif t in ('#unmute', '#emit'):
                            m = max(0, m - 1)
                        else:
                            out.append(int(t.split('$')[1], 16) if m == 0 else 0)
                    yield {'runs': [{'files': {fn: itext, 'p.asm': '\n'.join(main) + '\n', 'm.asm': '\n'.join(inc) + '\n'},
                                     'argv': ['compile', '-c', fn, 'p.asm', '-o', 'out.bin'], 'probes': ['steps', 'files'],
                                     'step_limit': 500000},
                                    {'files': {fn: itext, 'p.asm': '\n'.join(flat) + '\n'},
                                     'argv': ['compile', '-c', fn, 'p.asm', '-o', 'out.bin'], 'probes': ['steps'], 'step_limit': 500000}],
                           'meta': {'class': 'metamorphic', 'image': bytes(out).hex(), 'kind': 'ACCEPT', 'includes': ['m.asm']},
                           'tags': sorted({'class:mute-depth', f'include-at-mute-depth:{depth}', 'included-file:' + vname,
                                           'include-while-muted' if depth else 'include-unmuted',
                                           'include-at-mute-depth>=2' if depth >= 2 else 'include-at-mute-depth<2'})}

    def symbol_name_cases(self):
        """a preprocessor symbol spelled like a word of an include line (the file's stem, its extension, a part of its name, the
        directive word) does not change which file is included: the line names the file between its quotes"""
        import copy
        base = gen_prog.layout_isa(16)
        files = {'unit.asm': 'in_unit:\n.byte $21, unit\n', 'other.asm': '.byte $99\n', 'lib-tool.asm': '.byte $51\n'}
        for sym, val in (('unit', 'other'), ('unit', '5'), ('asm', 'bin'), ('unit', ''), ('lib', 'lab'), ('tool', 'unit'), ('include', 'mute')):
            for source in ('define', 'config', 'cmdline'):
                for inc_line in ('#include "unit.asm"', '#include "lib-tool.asm"'):
                    isa = copy.deepcopy(base)
                    argv_x = []
                    defn = []
                    if source == 'define':
                        defn = [f'#define {sym} {val}'.rstrip()]
                    elif source == 'config':
                        isa['predefined'] = {'symbols': [{'name': sym, 'value': val} if val != '' else {'name': sym}]}
                    else:
                        argv_x = ['-D', f'{sym}={val}' if val != '' else sym]
                    fn, itext = isamod.render_isa(isa, 'json')
                    main = ['.byte $11'] + defn + [inc_line, '.byte $31']
                    inc_name = inc_line.split('"')[1]
                    flat = ['.byte $11'] + defn + files[inc_name].strip().split('\n') + ['.byte $31']
                    fl = dict(files)
                    fl.update({fn: itext, 'p.asm': '\n'.join(main) + '\n'})
                    yield {'runs': [{'files': fl, 'argv': ['compile', '-c', fn, 'p.asm', '-o', 'out.bin'] + argv_x,
                                     'probes': ['steps', 'files'], 'step_limit': 500000},
                                    {'files': {fn: itext, 'p.asm': '\n'.join(flat) + '\n'},
                                     'argv': ['compile', '-c', fn, 'p.asm', '-o', 'out.bin'] + argv_x, 'probes': ['steps'], 'step_limit': 500000}],
                           'meta': {'class': 'metamorphic', 'image': None, 'kind': 'ACCEPT', 'includes': [inc_name.split('/')[-1]]},
                           'tags': ['class:symbol-spelled-like-a-word-of-the-include-line', 'symbol-from:' + source, 'dirs:1', 'nesting:1']}

    def case_twin_file_cases(self):
        """two files whose names differ in letter case only are two files (on a file system that tells them apart): each may be
        included once"""
        isa = gen_prog.layout_isa(16)
        fn, itext = isamod.render_isa(isa, 'json')
        for k_, (main_name, files_, order_) in enumerate([
                ('p.asm', {'p.asm': ['.byte $11', '#include "Tables.asm"', '#include "tables.asm"', '.byte $31'],
                           'Tables.asm': ['big_t:', '.byte $21'], 'tables.asm': ['small_t:', '.byte $22', '.2byte big_t']}, None),
                ('Main.asm', {'Main.asm': ['.byte $11', '#include "main.asm"', '.byte $31'], 'main.asm': ['.byte $21, $22']}, None),
                ('p.asm', {'p.asm': ['.byte $11', '#include "a.asm"', '.byte $31'], 'a.asm': ['.byte $21', '#include "A.asm"'], 'A.asm': ['.byte $22']}, None),
                ('p.asm', {'p.asm': ['.byte $11', '#include "x.asm"', '#include "X.ASM"', '.byte $31'], 'x.asm': ['.byte $21'], 'X.ASM': ['.byte $22']}, None)]):
            def flat(fname):
                out_ = []
                for t_ in files_[fname]:
                    out_ += flat(t_.split('"')[1]) if t_.startswith('#include') else [t_]
                return out_
            fl = {f_: '\n'.join(t_) + '\n' for f_, t_ in files_.items()}
            fl[fn] = itext
            yield {'runs': [{'files': fl, 'argv': ['compile', '-c', fn, main_name, '-o', 'out.bin'], 'probes': ['steps', 'files'], 'step_limit': 500000},
                            {'files': {fn: itext, 'p.asm': '\n'.join(flat(main_name)) + '\n'},
                             'argv': ['compile', '-c', fn, 'p.asm', '-o', 'out.bin'], 'probes': ['steps'], 'step_limit': 500000}],
                   'meta': {'class': 'metamorphic', 'image': None, 'kind': 'ACCEPT', 'includes': []},
                   'tags': ['class:file-names-differing-in-letter-case-only', 'dirs:1', 'nesting:1']}

    def dead_include_cases(self):
        """an #include inside a branch that is not compiled has no effect at all: it may name a file that was already
        included, that does not exist, or that is ambiguous"""
        isa = gen_prog.layout_isa(16)
        fn, itext = isamod.render_isa(isa, 'json')
        a_txt = 'in_a:\n.byte $A1, $A2\n'
        for opener, closer in (('#if 0', '#endif'), ('#ifdef C17_NOT_DEFINED', '#endif'), ('#if 1\n.byte $0F\n#else', '#endif'),
                               ('#ifndef C17_NOT_DEFINED\n.byte $0E\n#elif 1', '#endif'), ('#if 0\n#if 1', '#endif\n#endif')):
            for dead in ('#include "a.asm"', '#include "nothere.asm"', '#include "a.asm"\n#include "a.asm"', '#include "p.asm"'):
                for first in (True, False):
                    main = ['.byte 1'] + (['#include "a.asm"'] if first else []) + [opener, dead, '.byte $EE', closer, '.byte 2'] + \
                        ([] if first else ['#include "a.asm"']) + ['.2byte in_a']
                    live_extra = [l_ for l_ in opener.split('\n') if l_.startswith('.byte')]
                    flat = ['.byte 1'] + ([a_txt.strip()] if first else []) + live_extra + ['.byte 2'] + ([] if first else [a_txt.strip()]) + ['.2byte in_a']
                    yield {'runs': [{'files': {fn: itext, 'p.asm': '\n'.join(main) + '\n', 'a.asm': a_txt},
                                     'argv': ['compile', '-c', fn, 'p.asm', '-o', 'out.bin'], 'probes': ['steps', 'files'], 'step_limit': 500000},
                                    {'files': {fn: itext, 'p.asm': '\n'.join(flat) + '\n'},
                                     'argv': ['compile', '-c', fn, 'p.asm', '-o', 'out.bin'], 'probes': ['steps'], 'step_limit': 500000}],
                           'meta': {'class': 'metamorphic', 'image': None, 'kind': 'ACCEPT', 'includes': ['a.asm']},
                           'tags': ['class:include-in-uncompiled-branch', 'dirs:1', 'nesting:1']}

    def relative_search_dir_cases(self):
        """a search directory given as a relative path is relative to the working directory, wherever the main file lies"""
        isa = gen_prog.layout_isa(16)
        fn, itext = isamod.render_isa(isa, 'json')
        a_txt = 'in_a:\n.byte $A1, $A2\n'
        for k, (main_dir, inc_dirs, where) in enumerate([('src', ['lib'], 'lib'), ('src', ['./lib'], 'lib'), ('src/deep', ['lib', 'other'], 'other'),
                                                         ('src', ['lib/sub'], 'lib/sub'), ('prog', ['.'], '.')]):
            main = ['.byte 1', '#include "a.asm"', '.byte 2', '.2byte in_a']
            flat = ['.byte 1', a_txt.strip(), '.byte 2', '.2byte in_a']
            files = {fn: itext, main_dir + '/p.asm': '\n'.join(main) + '\n', (where + '/' if where != '.' else '') + 'a.asm': a_txt,
                     # a decoy below the main file's directory: found only if the search directory were taken relative to that
                     main_dir + '/' + (inc_dirs[0] + '/' if inc_dirs[0] != '.' else 'decoy/') + 'ghost.asm': '.byte $66\n'}
            argv = ['compile', '-c', fn, main_dir + '/p.asm', '-o', 'out.bin'] + [x for d_ in inc_dirs for x in ('-I', d_)]
            yield {'runs': [{'files': files, 'argv': argv, 'probes': ['steps', 'files'], 'step_limit': 500000},
                            {'files': {fn: itext, 'p.asm': '\n'.join(flat) + '\n'}, 'argv': ['compile', '-c', fn, 'p.asm', '-o', 'out.bin'],
                             'probes': ['steps'], 'step_limit': 500000}],
                   'meta': {'class': 'metamorphic', 'image': None, 'kind': 'ACCEPT', 'includes': ['a.asm']},
                   'tags': ['class:relative-search-directory-with-the-main-file-elsewhere', 'dirs:' + str(len(inc_dirs)), 'nesting:1']}
            if inc_dirs[0] != '.':
                neg = dict(files)
                neg[main_dir + '/p.asm'] = '.byte 1\n#include "ghost.asm"\n'
                yield {'runs': [{'files': neg, 'argv': argv, 'probes': ['steps', 'files'], 'step_limit': 500000}],
                       'meta': {'class': 'negative', 'kind': 'REJECT', 'why': 'file lies in no search directory (only below the main file\'s directory)', 'image': None},
                       'tags': ['neg:missing-file', 'neg:file-only-below-the-main-file\'s-directory']}
                # ... and a file that lies in the working directory only, which is no search directory here
                neg2 = dict(files)
                neg2['root_only.asm'] = '.byte $77\n'
                neg2[main_dir + '/p.asm'] = '.byte 1\n#include "root_only.asm"\n'
                yield {'runs': [{'files': neg2, 'argv': argv, 'probes': ['steps', 'files'], 'step_limit': 500000}],
                       'meta': {'class': 'negative', 'kind': 'REJECT', 'why': 'file lies in the working directory only, which is no search directory', 'image': None},
                       'tags': ['neg:missing-file', 'neg:file-only-in-the-working-directory']}

    def own_name_twice_cases(self):
        """a name that two search directories hold is ambiguous also when one of the two files is the including file itself"""
        isa = gen_prog.layout_isa(16)
        fn, itext = isamod.render_isa(isa, 'json')
        for k, (main_dir, inc_dir) in enumerate((('proj', 'common'), ('.', 'lib'), ('proj', 'proj/sub'), ('a/b', 'a'))):
            mp = (main_dir + '/' if main_dir != '.' else '') + 'board.asm'
            files = {fn: itext, mp: '.byte 1\n#include "board.asm"\n.byte 2\n', inc_dir + '/board.asm': '.byte $AA, $BB\n'}
            argv = ['compile', '-c', fn, mp, '-o', 'out.bin', '-I', inc_dir]
            yield {'runs': [{'files': files, 'argv': argv, 'probes': ['steps', 'files'], 'step_limit': 500000, 'cpu_s': 10}],
                   'meta': {'class': 'negative', 'kind': 'REJECT', 'why': 'name held by two search directories, one copy being the including file', 'image': None},
                   'tags': ['neg:ambiguous-name', 'neg:ambiguous-name/one-copy-is-the-including-file']}

    def global_twice_cases(self):
        """a global name defined in the includer and in an included file (or in two included files) is defined twice, as it
        would be with the text pasted in place - on whichever lines of their files the two definitions stand"""
        isa = gen_prog.layout_isa(16)
        fn, itext = isamod.render_isa(isa, 'json')
        for what, d1, d2 in (('label', 'dup_g:', 'dup_g:'), ('constant', 'dup_g = 5', 'dup_g = 5'), ('constant-other-value', 'dup_g = 5', 'dup_g = 6'),
                             ('label-and-constant', 'dup_g:', 'dup_g EQU 7')):
            for same_line in (True, False):
                pad = [] if same_line else ['.byte $70']
                for shape in ('includer-then-included', 'included-then-includer', 'two-included-files'):
                    if shape == 'includer-then-included':
                        fl = {'p.asm': ['.byte 1', d1, '.byte 2', '#include "a.asm"'], 'a.asm': pad + ['.byte 3', d2, '.byte 4']}
                    elif shape == 'included-then-includer':
                        fl = {'p.asm': ['#include "a.asm"'] + ['.byte 1'] * (1 if same_line else 2) + [d1, '.byte 2'], 'a.asm': ['.byte 3', '.byte 5', d2, '.byte 4']}
                    else:
                        fl = {'p.asm': ['.byte 1', '#include "a.asm"', '#include "b.asm"'], 'a.asm': ['.byte 3', d1, '.byte 4'],
                              'b.asm': pad + ['.byte 5', d2, '.byte 6']}
                    files = {k_: '\n'.join(v_) + '\n' for k_, v_ in fl.items()}
                    files[fn] = itext
                    yield {'runs': [{'files': files, 'argv': ['compile', '-c', fn, 'p.asm', '-o', 'out.bin'], 'probes': ['steps', 'files'], 'step_limit': 500000}],
                           'meta': {'class': 'negative', 'kind': 'REJECT', 'why': f'global {what} defined in two files ({shape})', 'image': None},
                           'tags': ['neg:global-defined-in-two-files', 'neg:global-defined-in-two-files/' + ('same-line-number' if same_line else 'other-line-number')]}

    def negative(self, rng, kind, how=None):
        isa = gen_prog.layout_isa(16)
        fn, itext = isamod.render_isa(isa, 'json')
        fl = {fn: itext}
        argv = ['compile', '-c', fn, 'p.asm', '-o', 'out.bin']
        if kind == 'included-twice':
            fl['p.asm'] = '.byte 1\n#include "a.asm"\n.byte 2\n#include "a.asm"\n'
            fl['a.asm'] = 'in_a:\n.byte 3\n' if rng.random() < 0.5 else '.byte 3\n'
        elif kind == 'transitively-twice':
            fl['p.asm'] = '.byte 1\n#include "a.asm"\n#include "b.asm"\n'
            fl['a.asm'] = '.byte 3\n#include "b.asm"\n'
            fl['b.asm'] = '.byte 4\n'
        elif kind == 'self-include':
            if rng.random() < 0.5:
                fl['p.asm'] = '.byte 1\n#include "p.asm"\n'
            else:
                fl['p.asm'] = '.byte 1\n#include "a.asm"\n'
                fl['a.asm'] = '.byte 2\n#include "a.asm"\n'
        elif kind == 'main-file-again':
            # the main file pulled in once more from a file it includes: a guard keeps the second pass from looping, and that
            # does not make it legal; the main file is named relatively, absolutely, through ./ or through a symbolic link
            fl['p.asm'] = '.byte 1\n#ifndef C17_ONCE\n#define C17_ONCE 1\n#include "a.asm"\n#endif\n.byte 9\n'
            fl['a.asm'] = '.byte 2\n#include "p.asm"\n.byte 3\n'
            how = ['relative', 'absolute', 'dot-slash', 'subdir-and-back', 'symlinked-directory'][rng.randrange(5)] if how is None else how
            main_ = {'relative': 'p.asm', 'absolute': '{SCRATCH}/p.asm', 'dot-slash': './p.asm', 'subdir-and-back': 'sub/../p.asm',
                     'symlinked-directory': 'alias_dir/p.asm'}[how]
            argv = ['compile', '-c', fn, main_, '-o', 'out.bin']
            extra_ = {'dirs': ['sub']}
            if how == 'symlinked-directory':
                extra_['symlinks'] = {'alias_dir': '.'}
            return {'runs': [dict({'files': fl, 'argv': argv, 'probes': ['steps', 'files'], 'step_limit': 500000, 'cpu_s': 10}, **extra_)],
                    'meta': {'class': 'negative', 'kind': 'REJECT', 'why': kind + '/' + how, 'image': None},
                    'tags': ['neg:' + kind, 'neg:main-file-again/' + how]}
        elif kind == 'missing-file':
            fl['p.asm'] = '.byte 1\n#include "nothere.asm"\n.byte 2\n'
        elif kind == 'ambiguous-name':
            fl['p.asm'] = '.byte 1\n#include "dup.asm"\n'
            fl['d1/dup.asm'] = '.byte 2\n'
            fl['d2/dup.asm'] = '.byte 3\n' if rng.random() < 0.5 else '.byte 2\n'
            argv += ['-I', 'd1', '-I', 'd2']
            if rng.random() < 0.3:
                fl['dup.asm'] = '.byte 4\n'
                del fl['d2/dup.asm']
                argv = argv[:-2]
        elif kind in ('file-label-of-includer', 'file-label-of-included'):
            # file-scoped names of one file are invisible to the other, wherever the #include line stands
            where = rng.choice(['top', 'after-global-label', 'after-global-label', 'after-local-label', 'after-org', 'nested'])
            ref = rng.choice(['.2byte _priv', '.byte (_priv & $FF)', 'jmp _priv', '.2byte _priv + 1'])
            own = '_priv:\n.byte 7\n'
            if kind == 'file-label-of-includer':
                pre = {'top': '', 'after-global-label': 'host:\n.byte 1\n', 'after-local-label': 'host:\n.byte 1\n.loc:\n.byte 2\n',
                       'after-org': '.byte 1\n.org $40\n', 'nested': 'host:\n.byte 1\n'}[where]
                defn = own if rng.random() < 0.5 else '_priv = 9\n'
                before = rng.random() < 0.5
                fl['p.asm'] = (defn if before else '') + pre + '#include "a.asm"\n.byte 3\n' + ('' if before else defn)
                if where == 'nested':
                    fl['a.asm'] = 'mid:\n.byte 4\n#include "b.asm"\n'
                    fl['b.asm'] = 'deep:\n' + ref + '\n'
                else:
                    fl['a.asm'] = 'in_a:\n' + ref + '\n'
            else:
                pre = {'top': '', 'after-global-label': 'host:\n.byte 1\n', 'after-local-label': 'host:\n.byte 1\n.loc:\n.byte 2\n',
                       'after-org': '.byte 1\n.org $40\n', 'nested': 'host:\n.byte 1\n'}[where]
                fl['p.asm'] = pre + '#include "a.asm"\nback:\n' + ref + '\n'
                if where == 'nested':
                    fl['a.asm'] = 'mid:\n.byte 4\n#include "b.asm"\n'
                    fl['b.asm'] = own
                else:
                    fl['a.asm'] = 'in_a:\n.byte 4\n' + own
            return {'runs': [{'files': fl, 'argv': argv, 'probes': ['steps', 'files'], 'step_limit': 500000, 'cpu_s': 10}],
                    'meta': {'class': 'negative', 'kind': 'REJECT', 'why': kind, 'image': None},
                    'tags': ['neg:' + kind, 'neg:file-label/include-' + where]}
        return {'runs': [{'files': fl, 'argv': argv, 'probes': ['steps', 'files'], 'step_limit': 500000, 'cpu_s': 10}],
                'meta': {'class': 'negative', 'kind': 'REJECT', 'why': kind, 'image': None}, 'tags': ['neg:' + kind]}

    def cases(self, tier, seed):
        n_pre = 150
        n = 250 if tier == 'quick' else 5000
        for i in range(n_pre + n):
            rng = core.rng_for(0 if i < n_pre else seed, self.pid, i)
            if i < n_pre:
                c = self.metamorphic(rng, 0.95 if i % 2 else 0.5, 2 if i % 4 == 1 else 0) if i % 3 else self.continuation(rng)
            else:
                c = self.metamorphic(rng) if i % 3 else self.continuation(rng)
            if c:
                yield c
        # three levels of nesting, found by a seed-independent search
        found = 0
        for k in range(400):
            if found >= 5:
                break
            rng = core.rng_for(0, self.pid, 'nest3', k)
            c = self.metamorphic(rng, 1.0, 0)
            if c and 'nesting:3' in c['tags']:
                found += 1
                yield c
        yield from self.mute_depth_cases()
        yield from self.dead_include_cases()
        yield from self.symbol_name_cases()
        yield from self.case_twin_file_cases()
        yield from self.global_twice_cases()
        yield from self.own_name_twice_cases()
        yield from self.relative_search_dir_cases()
        negs = ['included-twice', 'transitively-twice', 'self-include', 'missing-file', 'ambiguous-name']
        for i in range(25 if tier == 'quick' else 100):
            rng = core.rng_for(0, self.pid, 'neg', i)
            yield self.negative(rng, negs[i % 5])
        for i in range(15):
            rng = core.rng_for(0, self.pid, 'negmain', i)
            yield self.negative(rng, 'main-file-again', ['relative', 'absolute', 'dot-slash', 'subdir-and-back', 'symlinked-directory'][i % 5])
        for i in range(80 if tier == 'quick' else 400):
            rng = core.rng_for(0, self.pid, 'negfl', i)
            yield self.negative(rng, ['file-label-of-includer', 'file-label-of-included'][i % 2])

    def judge(self, case, outcomes):
        o = outcomes[0]
        m = case['meta']
        tags = case['tags']
        nt = '|'.join(tags)
        src = {k: v[:1500] for k, v in case['runs'][0]['files'].items() if k.endswith('.asm')}
        if o.get('timed_out'):
            return [core.violated('termination:' + str(o['timed_out']) + ('/' + m.get('why', '') if m['kind'] == 'REJECT' else ''),
                                  {'src': src}, buckets=tags, nt=nt)]
        if m['kind'] == 'REJECT':
            if o.get('exit') == 0:
                return [core.violated('must-reject-accepted/' + m['why'], {'src': src, 'argv': case['runs'][0]['argv']}, buckets=tags, nt=nt)]
            return [core.held(buckets=tags, nt=nt)]
        img = (o.get('files') or {}).get('out.bin')
        if m['class'] == 'metamorphic':
            u = outcomes[1]
            uimg = (u.get('files') or {}).get('out.bin')
            if u.get('exit') != 0 or uimg is None:
                return [core.dont_care('unsplit program not accepted')]
            if o.get('exit') != 0 or img is None:
                return [core.violated('split-rejected-unsplit-accepted', {'stderr': (o.get('stderr') or '')[-400:], 'src': src,
                                                                          'argv': case['runs'][0]['argv']}, buckets=tags, nt=nt)]
            if img != uimg:
                cls = 'include-while-muted' if 'include-while-muted' in tags else 'general'
                return [core.violated('split-image-differs-from-unsplit/' + cls,
                                      {'split': img[:400], 'unsplit': uimg[:400], 'src': src, 'argv': case['runs'][0]['argv']},
                                      buckets=tags, nt=nt)]
            if m['image'] is not None and uimg != m['image']:
                return [core.violated('both-differ-from-model', {'model': m['image'][:400], 'got': uimg[:400], 'src': src})]
        else:
            if o.get('exit') != 0 or img is None:
                return [core.violated('valid-include-rejected', {'stderr': (o.get('stderr') or '')[-400:], 'src': src}, buckets=tags, nt=nt)]
            if img != m['image']:
                return [core.violated('image-differs-from-model/continuation', {'model': m['image'], 'got': img, 'src': src},
                                      buckets=tags, nt=nt)]
        vs = []
        fp = (o.get('probes') or {}).get('files')
        if fp is not None:
            import os
            reads = [os.path.basename(r) for r in fp['reads'] if r.endswith('.asm')]
            for f in m.get('includes', []):
                if reads.count(f) != 1:
                    vs.append(core.violated('include-opened-%d-times' % reads.count(f), {'reads': reads, 'file': f}))
        return vs or [core.held(buckets=tags, nt=nt)]

    def sample_of(self, case, outcomes):
        return {'files': {k: v[:500] for k, v in case['runs'][0]['files'].items() if k.endswith('.asm')},
                'argv': case['runs'][0]['argv'], 'class': case['meta']['class'], 'expect': case['meta']['kind']}
