"""C18 — output is invariant under meaning-preserving changes of surface syntax.

Oracle: metamorphic — one program AST rendered canonically and k times with random rewrites (mnemonic / register case,
runs of spaces and tabs between tokens, blank lines, comments, label placement, joining / splitting consecutive
instructions); all renderings must assemble to the image of the canonical one.  Each rewrite kind is also applied alone.
"""
from vf import core, isa as isamod
from vf.oracles import c10

REWRITES = ['mnemonic-case', 'register-case', 'gap-mnemonic-operand', 'gap-around-comma', 'gap-inside-brackets',
            'gap-around-equals', 'blank-lines', 'full-line-comments', 'trailing-comments', 'label-placement',
            'join-instructions', 'indentation', 'gap-in-directive', 'final-newline']
LABELS = ['main', 'loop_nop', 'ld_ptr', 'inr2x', 'x_jmp_tab', 'Data9', 'nib4', 'sel_', 'q4q', 'done']


def c18_isa(endian):
    isa = c10.base_isa(endian)
    isa.pop('macros', None)
    isa['operand_sets']['idx'] = {'operand_values': {
        'ixsp': {'type': 'indexed_register', 'register': 'sp', 'bytecode': {'value': 2, 'size': 2},
                 'index_operands': {'n': {'type': 'numeric', 'argument': {'size': 8, 'byte_align': True},
                                          'bytecode': {'value': 0, 'size': 2}},
                                    'rb': {'type': 'register', 'register': 'b', 'bytecode': {'value': 1, 'size': 2}}}}}}
    isa['operand_sets']['iidx'] = {'operand_values': {
        'iia': {'type': 'indirect_indexed_register', 'register': 'a', 'bytecode': {'value': 1, 'size': 2},
                'index_operands': {'n': {'type': 'numeric', 'argument': {'size': 8, 'byte_align': True},
                                         'bytecode': {'value': 0, 'size': 2}},
                                   'rb': {'type': 'register', 'register': 'b', 'bytecode': {'value': 1, 'size': 2}}}}}}
    # plain registers with decorators (sp++, --a, b!): the register name is matched in any letter case
    isa['operand_sets']['decs'] = {'operand_values': {
        'pinc': {'type': 'register', 'register': 'sp', 'bytecode': {'value': 0, 'size': 2}, 'decorator': {'type': 'plus_plus', 'is_prefix': False}},
        'pdec': {'type': 'register', 'register': 'a', 'bytecode': {'value': 1, 'size': 2}, 'decorator': {'type': 'minus_minus', 'is_prefix': True}},
        'bang': {'type': 'register', 'register': 'b', 'bytecode': {'value': 2, 'size': 2}, 'decorator': {'type': 'exclamation', 'is_prefix': False}},
        'atb': {'type': 'register', 'register': 'b', 'bytecode': {'value': 3, 'size': 2}, 'decorator': {'type': 'at', 'is_prefix': True}}}}
    isa['instructions']['psh'] = {'bytecode': {'value': 0x33, 'size': 6}, 'operands': {'count': 1, 'operand_sets': {'list': ['decs']}}}
    # numeric alternatives tried in front of register alternatives: a register in any letter case is still a register
    isa['operand_sets']['inum'] = {'operand_values': {'mm': {'type': 'indirect_numeric', 'bytecode': {'value': 1, 'size': 2},
                                                             'argument': {'size': 16, 'byte_align': True}}}}
    isa['instructions']['ldq'] = {'bytecode': {'value': 0x35, 'size': 6}, 'operands': {'count': 1, 'operand_sets': {'list': ['inum']}},
                                  'variants': [{'bytecode': {'value': 0x36, 'size': 6}, 'operands': {'count': 1, 'operand_sets': {'list': ['ind']}}}]}
    isa['instructions']['ldn'] = {'bytecode': {'value': 0x37, 'size': 6}, 'operands': {'count': 1, 'operand_sets': {'list': ['imm8']}},
                                  'variants': [{'bytecode': {'value': 0x38, 'size': 6}, 'operands': {'count': 1, 'operand_sets': {'list': ['reg']}}}]}
    isa['instructions']['lix'] = {'bytecode': {'value': 0x31, 'size': 6}, 'operands': {'count': 1, 'operand_sets': {'list': ['idx']}}}
    isa['instructions']['liy'] = {'bytecode': {'value': 0x32, 'size': 6}, 'operands': {'count': 1, 'operand_sets': {'list': ['iidx']}}}
    # a page-local jump: the low 8 bits of a target that must lie in the instruction's own 256-byte page (used by C14)
    isa['operand_sets']['pg8'] = {'operand_values': {'pa': {'type': 'address', 'argument': {
        'size': 8, 'byte_align': True, 'slice_lsb': True, 'match_address_msb': True}}}}
    isa['instructions']['jpl'] = {'bytecode': {'value': 0x7B, 'size': 8}, 'operands': {'count': 1, 'operand_sets': {'list': ['pg8']}}}
    return isa


def R(name):
    return ('reg', name)


def gen_ast(rng, embedded=False):
    """list of items; operands are token lists, a token is a str or ('reg', name)"""
    items = [('org', rng.choice([0, 4, 32]))]
    # preprocessor lines: the amount of whitespace between their tokens carries no meaning either
    pp_mode = rng.choice(['turbo', 'slow', None])
    if pp_mode:
        items = [('pp', ['#define', 'MODE_X', pp_mode]), ('pp', ['#define', 'LIM_X', str(rng.choice([4, 5, 6]))])] + items
    labels = list(LABELS)
    rng.shuffle(labels)
    defined = []
    n = rng.randrange(6, 22)
    pending_local = None       # a local label of the current region that is referenced first and defined a little later
    for i in range(n):
        r = rng.random()
        if pending_local and pending_local[1] <= 0:
            items.append(('label', pending_local[0]))
            pending_local = None
            continue
        if pending_local:
            pending_local[1] -= 1
        if r < 0.2 and labels and not pending_local:
            nm = labels.pop()
            items.append(('label', nm))
            defined.append(nm)
            if rng.random() < 0.6:
                # the statement right after a non-local label refers to a local label of the region it opens; the same local
                # names are reused in every region, so resolving in the previous region gives a different (valid) value
                ln = rng.choice(['.lp', '.nx'])
                items.append(('instr', 'jmp', [[ln]]) if rng.random() < 0.6 else ('instr', 'ldi', [['BYTE0(', ln, ')']]))
                pending_local = [ln, rng.randrange(0, 3)]
            continue
        if r < 0.26:
            items.append(('const', f'K_{i}', [str(rng.randrange(0, 200))]))
            continue
        if pp_mode and r < 0.29 and not pending_local:
            cond_ = rng.choice([['#if', 'MODE_X', '==', 'turbo'], ['#if', 'MODE_X', '!=', 'turbo'], ['#if', 'LIM_X', '>=', '5'],
                                ['#ifdef', 'MODE_X'], ['#ifndef', 'LIM_X'], ['#if', 'LIM_X', '<', '5']])
            items += [('pp', cond_), ('data', '.byte', [[str(rng.randrange(1, 100))]]), ('pp', ['#else']),
                      ('data', '.byte', [[str(rng.randrange(100, 200))], ['7']]), ('pp', ['#endif'])]
            continue
        if embedded and r >= 0.91 and r < 0.955:
            # a bare string (the configuration allows embedded strings); a label in front of it names its first character
            if labels and not pending_local and rng.random() < 0.7:
                nm = labels.pop()
                items.append(('label', nm))
                defined.append(nm)
            items.append(('raw', rng.choice(['"Hi"', '"a;b"', '"say \\"x\\""', '"it\'s"', '""', '"two words"'])))
            continue
        if r >= 0.955:
            # layout directives; a label in front of one names the address the line starts on, as on a line of its own
            if labels and not pending_local and rng.random() < 0.7:
                nm = labels.pop()
                items.append(('label', nm))
                defined.append(nm)
            items.append(('raw', rng.choice(['.align 4', '.align 8', '.align 3', '.fill 3, $5A', '.zero 2', '.align 16'])))
            continue
        if r < 0.31:
            # strings and character literals with quote characters, escapes and semicolons inside
            items.append(('raw', rng.choice(['.cstr "it\'s"', '.cstr "say \\"hi\\" twice"', '.byte \'"\'', '.cstr "semi;colon"',
                                             '.byte ";"', '.cstr "6\\" nails"', ".byte ';'", '.asciiz "a\\\\"', '.cstr \'x"y\''])))
            continue
        if r < 0.36:
            vals = [[rng.choice([str(rng.randrange(0, 256)), '$' + format(rng.randrange(0, 256), 'x'), "'" + rng.choice('aZ09~+') + "'",
                                 "'" + rng.choice('bQ') + "'"])] for _ in range(rng.randrange(1, 5))]
            if rng.random() < 0.3:
                # a value list that begins with a character literal (blanks may follow it like any other value)
                vals[0] = ["'" + rng.choice('kM7') + "'"]
            items.append(('data', rng.choice(['.byte', '.2byte']), vals))
            continue
        mn = rng.choice(['nop', 'q4', 'inr', 'nib', 'ldi', 'q12', 'tri', 'jmp', 'ldx', 'sel', 'mv2', 'lix', 'liy', 'bra', 'psh', 'ldq', 'ldn'])
        lab = rng.choice(defined) if defined and rng.random() < 0.5 else None
        num = str(rng.randrange(0, 16))
        if mn in ('nop', 'q4'):
            ops = []
        elif mn == 'inr':
            ops = [[R(rng.choice(c10.REGS))]]
        elif mn in ('nib',):
            ops = [[num]]
        elif mn in ('ldi', 'q12'):
            ops = [[rng.choice([num, '$' + format(rng.randrange(0, 256), 'x'), "'" + rng.choice('xY5+') + "'"] + (['LIM_X'] if pp_mode else []))]] \
                if not lab else [['BYTE0(', lab, ')']]
            if rng.random() < 0.2:
                # character literals of the characters that delimit other things (quotes, the comment character, the escape
                # character): two or three statements in a row, so that they may end up on one line and in front of a comment
                qs_ = rng.choice([['"'], ['"', '"', "'", ';', '\\'], ["'", ';', '\\']])
                items += [('instr', rng.choice(['ldi', 'q12']), [["'" + rng.choice(qs_) + "'"]]) for _ in range(rng.randrange(2, 4))]
                continue
            if pp_mode and rng.random() < 0.3:
                # a use of a preprocessor symbol between two statements that carry a quoted character (they may end up on one line)
                items += [('instr', 'ldi', [["'" + rng.choice('xq+') + "'"]]), ('instr', mn, [['LIM_X']]), ('instr', 'ldi', [["'" + rng.choice("yZ") + "'"]])]
                continue
        elif mn == 'tri':
            ops = [[str(rng.randrange(0, 4096))]]
        elif mn == 'jmp':
            ops = [[lab] if lab else [str(rng.randrange(0, 60000))]]
            if lab and rng.random() < 0.4:
                ops = [[lab, '+', '1']]
        elif mn == 'bra':
            if not lab:
                continue
            ops = [['{', lab, '}']]
        elif mn == 'ldx':
            rr = rng.choice(['sp', 'a'])
            f = rng.random()
            ops = [['[', R(rr), ']']] if f < 0.3 else [['[', R(rr), '+' if f < 0.7 else '-', num, ']']]
            if 0.45 < f < 0.7:
                # an offset of several terms (blanks may stand between any two of them)
                ops = [['[', R(rr), '+', num] + rng.choice([['+', '1'], ['*', '2'], ['+', '(', '1', '|', '2', ')'], ['-', '0', '+', '1']]) + [']']]
        elif mn == 'sel':
            ops = [[rng.choice(sorted(c10.ENUM))]]
        elif mn == 'mv2':
            ops = [[R(rng.choice(c10.REGS))], [num]]
        elif mn == 'ldq':
            ops = [['[', R(rng.choice(['sp', 'a'])), ']']] if rng.random() < 0.6 else [['[', str(rng.randrange(0, 60000)), ']']]
        elif mn == 'ldn':
            ops = [[R(rng.choice(c10.REGS))]] if rng.random() < 0.6 else [[num]]
        elif mn == 'psh':
            ops = [[rng.choice([('dreg', 'sp', '', '++'), ('dreg', 'a', '--', ''), ('dreg', 'b', '', '!'), ('dreg', 'b', '@', '')])]]
        elif mn == 'lix':
            ops = [[R('sp'), '+', rng.choice([num, R('b')])]]
        else:
            ops = [['[', R('a'), '+', rng.choice([num, R('b')]), ']']]
        items.append(('instr', mn, ops))
    if pending_local:
        items.append(('label', pending_local[0]))
    items.append(('data', '.byte', [['$EE']]))
    return items


def render(items, rng, kinds):
    """kinds: set of rewrite kinds to apply (at random positions); empty set = canonical rendering"""
    K = set(kinds)

    def ws(kind, default=' ', allow_empty=False):
        if kind in K and rng.random() < 0.7:
            c = [' ', '  ', '\t', ' \t ', '\t\t', '   ']
            if allow_empty:
                c += ['', '']
            return rng.choice(c)
        return default

    def tok(t):
        if isinstance(t, tuple):
            nm = t[1]
            if 'register-case' in K and rng.random() < 0.7:
                nm = rng.choice([nm.upper(), nm.capitalize(), nm.upper()])
            if t[0] == 'dreg':
                return t[2] + nm + t[3]
            return nm
        return t

    def operand(toks):
        out = ''
        for i, t in enumerate(toks):
            s = tok(t)
            if i > 0:
                prev = toks[i - 1]
                inside = any(x in ('[', '{') for x in toks[:i]) and not (isinstance(prev, str) and prev in (']', '}'))
                glue = ''
                if inside or True:
                    # whitespace is allowed between any two tokens of an operand expression
                    if isinstance(prev, str) and prev.endswith('(') or s == ')':
                        glue = ws('gap-inside-brackets', '', True)
                    else:
                        glue = ws('gap-inside-brackets', '', True)
                out += glue
            out += s
        return out

    def mnem(mn):
        if 'mnemonic-case' in K and rng.random() < 0.7:
            return rng.choice([mn.upper(), mn.capitalize(), ''.join(ch.upper() if rng.random() < 0.5 else ch for ch in mn)])
        return mn

    def stmt(it):
        k = it[0]
        if k == 'instr':
            mn, ops = it[1], it[2]
            if not ops:
                return mnem(mn)
            sep = lambda: ws('gap-around-comma', '', True) + ',' + ws('gap-around-comma', ' ', True)   # noqa: E731
            text = mnem(mn) + ws('gap-mnemonic-operand', ' ')
            for i, o in enumerate(ops):
                if i:
                    text += sep()
                text += operand(o)
            return text
        if k == 'data':
            sep = lambda: ws('gap-around-comma', '', True) + ',' + ws('gap-around-comma', ' ', True)   # noqa: E731
            text = it[1] + ws('gap-mnemonic-operand', ' ')
            for i, v in enumerate(it[2]):
                if i:
                    text += sep()
                text += operand(v)
            return text
        if k == 'const':
            if 'gap-around-equals' in K and rng.random() < 0.3:
                return it[1] + ws('gap-around-equals', ' ') + 'EQU' + ws('gap-around-equals', ' ') + operand(it[2])
            return it[1] + ws('gap-around-equals', ' ', True) + '=' + ws('gap-around-equals', ' ', True) + operand(it[2])
        if k == 'org':
            return '.org' + ws('gap-mnemonic-operand', ' ') + str(it[1])
        if k == 'raw':
            return it[1]
        if k == 'pp':
            return ws('gap-in-directive', ' ').join(it[1]) if len(it[1]) > 1 else it[1][0]
        raise ValueError(k)

    lines = []
    i = 0
    comments = ['; plain comment', ';', ';; nop ldi 5', '; "quoted" text: with colon', ';\ttabbed', '; label: .byte 1',
                '; a.k.a. "sixpenny"', "; it's 5\" long", '; one " only', "; one ' only",
                # characters some text tools take for line ends (form feed, vertical tab, separators, NEL, U+2028): inside a
                # comment they are comment text, and a line ends at its line feed only
                '; page\x0cnop', '; vt\x0bldi 5', '; fs\x1cgs\x1drs\x1e .byte 1', '; nel\x85nop', '; ls\u2028jmp 1', '; ps\u2029 .byte 9']
    while i < len(items):
        it = items[i]
        if 'blank-lines' in K and rng.random() < 0.25:
            lines.append(rng.choice(['', '   ', '\t']))
        if 'full-line-comments' in K and rng.random() < 0.25:
            lines.append(ws('indentation', '') + rng.choice(comments))
        if it[0] == 'label':
            nxt = items[i + 1] if i + 1 < len(items) else None
            if 'label-placement' in K and nxt is not None and nxt[0] in ('instr', 'data', 'raw') and rng.random() < 0.6:
                line = it[1] + ':' + rng.choice([' ', '\t', '  ']) + stmt(nxt)
                i += 2
            else:
                line = it[1] + ':'
                i += 1
        elif it[0] == 'instr' and 'join-instructions' in K:
            line = stmt(it)
            i += 1
            while i < len(items) and items[i][0] == 'instr' and rng.random() < 0.5:
                line += rng.choice([' ', '  ', '\t']) + stmt(items[i])
                i += 1
        else:
            line = stmt(it)
            i += 1
        if 'indentation' in K and rng.random() < 0.5:
            line = rng.choice(['  ', '\t', '    ', ' \t']) + line
        if 'trailing-comments' in K and rng.random() < 0.4:
            line += rng.choice([' ', '', '\t', '  ']) + rng.choice(comments)
        lines.append(line)
    if 'final-newline' in K:
        # the last line with no newline after it, or followed by blank lines / a last line of blanks
        return '\n'.join(lines) + rng.choice(['', '', '\n\n', '\n   ', '\n\t\n\n'])
    return '\n'.join(lines) + '\n'


def safe_rewrite(rng, text, mnemonics):
    """Line-based rewrites that are safe without an AST (used on the repository's example programs): blank lines,
    trailing comments, wider whitespace runs outside strings, indentation, upper-case leading mnemonic."""
    import re
    out = []
    for line in text.split('\n'):
        if rng.random() < 0.08:
            out.append('')
        body = line.split(';', 1)[0]
        plain = '"' not in line and "'" not in line and not body.strip().startswith('#')
        new = line
        if plain and body.strip():
            if rng.random() < 0.3:
                # widen existing runs of blanks between tokens
                new = re.sub(r'(?<=\S)[ \t]+(?=\S)', lambda m: rng.choice([' ', '  ', '\t', ' \t']), body.rstrip()) + \
                    (' ;' + line.split(';', 1)[1] if ';' in line else '')
            m = re.match(r'^(\s*)([A-Za-z][\w.]*)(\s|$)', new)
            if m and m.group(2).lower() in mnemonics and rng.random() < 0.3:
                new = m.group(1) + m.group(2).upper() + new[m.end(2):]
            if ';' not in new and rng.random() < 0.15:
                new = new.rstrip() + rng.choice(['  ; added comment', '\t;x', ' ;; nop'])
            if rng.random() < 0.1:
                new = rng.choice(['  ', '\t']) + new
        out.append(new)
    return '\n'.join(out)


class C18(core.Check):
    pid = 'C18'
    level = 'exploration'
    rule = ('one program AST (labels incl. names that contain mnemonics, constants, data, instructions over plain, bracketed, '
            'indexed and enumeration operands) rendered canonically and with random rewrites at random positions: mnemonic and '
            'register case, runs of spaces/tabs (mnemonic-operand gap, around commas, inside brackets and expressions, around '
            '= / EQU), indentation, blank lines, full-line and trailing comments (with and without a preceding blank), label on '
            'its own line vs in front of its statement, consecutive instructions joined on one line. Every rewrite kind alone '
            'and all together. All renderings must assemble to the canonical image. distinct_nontrivial = distinct (rewrite '
            'kind set, instruction mnemonics touched) tuples.')
    rule = rule + ' ' + 'The rewrites are also applied to #include lines.'
    assumptions = ('labels never equal a mnemonic; enumeration keys keep their case (they are neither registers nor mnemonics)',
                   'only instructions are joined on one line (not directives)')
    chunk = 900
    required_buckets = {**{'alone:' + k: 3 for k in REWRITES}, 'all-together': 3, 'tab-after-mnemonic': 3,
                        'upper-register-in-brackets': 3, 'upper-register-indexed': 3, 'label-contains-mnemonic': 3,
                        'joined>=2': 3, 'joined>=3': 3, 'label-in-front-of-local-reference': 3, 'label-in-front-of-align': 3, 'blanks-inside-an-offset-of-several-terms': 3, 'label-in-front-of-embedded-string': 3, 'two-double-quote-literals-on-one-line': 3, 'comment-behind-a-backslash-quote-or-semicolon-literal': 3, 'label-in-front-of-fill': 3, 'corpus-example': 3, 'preprocessor-lines': 3, 'tab-after-directive-keyword': 3, 'quote-in-comment-after-quoted-statement': 3,
                        'include-line': 3, 'include-line:trailing-comments': 3,
                        'symbol-use-between-two-quoted-characters-on-one-line': 3,
                        'comment-with-a-character-some-tools-take-for-a-line-end': 3}

    def corpus_cases(self, tier, seed):
        import os
        import sys
        from vf import runner
        sys.path.insert(0, os.path.join(runner.VERIF_ROOT, 'tools'))
        import examples_screen
        import yaml
        root = runner.repo_root()
        progs = list(examples_screen.programs(root))
        if tier == 'quick':
            progs = [progs[1], progs[4], progs[-1]]
        for pi, (srcp, isap) in enumerate(progs):
            d = os.path.dirname(srcp)
            files = {}
            for fn_ in os.listdir(d):
                p_ = os.path.join(d, fn_)
                if os.path.isfile(p_) and os.path.splitext(fn_)[1] in examples_screen.EXT2ISA:
                    files['ex/' + fn_] = open(p_, encoding='utf-8', errors='surrogateescape').read()
            isa_text = open(isap).read()
            files['isa.yaml'] = isa_text
            try:
                cfg = yaml.safe_load(isa_text)
                mns = {str(k).lower() for k in cfg.get('instructions', {})} | {str(k).lower() for k in (cfg.get('macros') or {})}
            except Exception:
                mns = set()
            main = 'ex/' + os.path.basename(srcp)
            run = lambda fl: {'files': fl, 'argv': ['compile', '-c', 'isa.yaml', main, '-o', 'out.bin'], 'probes': [],   # noqa: E731
                              'cpu_s': 60, 'wall_s': 120}
            runs = [run(files)]
            for k in range(3):
                rng = core.rng_for(seed, self.pid, 'corpus', pi, k)
                fl = dict(files)
                for name in list(fl):
                    if name.startswith('ex/'):
                        fl[name] = safe_rewrite(rng, fl[name], mns)
                runs.append(run(fl))
            yield {'runs': runs, 'meta': {'kinds': [['corpus-safe-rewrites']] * 3, 'vtags': [['corpus-example']] * 3,
                                          'mns': [os.path.basename(srcp)]}, 'tags': []}

    def include_line_cases(self):
        """the listed rewrites applied to a line that pulls in another file: it is a line like any other"""
        isa = c18_isa('big')
        fn, itext = isamod.render_isa(isa, 'json')
        inc = 'inc_data:\n.byte $21, $22\n'
        for k_, body in enumerate((['.byte $11', '{INC}', '.2byte inc_data', '.byte $31'],
                                   ['main: nop', '{INC}', 'jmp inc_data'],
                                   ['{INC}', 'ldi BYTE0(inc_data)'])):
            forms = [(['trailing-comments'], '#include "inc.asm" ; pulled in here'), (['trailing-comments'], '#include "inc.asm";c'),
                     (['trailing-comments'], '#include "inc.asm" ; a "quoted" remark'), (['trailing-comments'], '#include "inc.asm"\t; tab before'),
                     (['gap-in-directive'], '#include   "inc.asm"'), (['gap-in-directive'], '#include\t"inc.asm"'),
                     (['indentation'], '  #include "inc.asm"'), (['indentation'], '\t#include "inc.asm"'),
                     (['gap-in-directive', 'trailing-comments', 'indentation'], ' #include \t "inc.asm"  ;  c'),
                     (['blank-lines'], '\n#include "inc.asm"\n'), (['full-line-comments'], '; next: the data\n#include "inc.asm"\n; done')]
            mk = lambda line: {'files': {fn: itext, 'inc.asm': inc, 'p.asm': '\n'.join(l_.replace('{INC}', line) for l_ in body) + '\n'},   # noqa
                               'argv': ['compile', '-c', fn, 'p.asm', '-o', 'out.bin'], 'probes': ['steps'], 'step_limit': 600000}
            yield {'runs': [mk('#include "inc.asm"')] + [mk(f_) for _, f_ in forms],
                   'meta': {'kinds': [ks_ for ks_, _ in forms], 'vtags': [['include-line', 'include-line:' + '+'.join(ks_)] for ks_, _ in forms],
                            'mns': ['#include']}, 'tags': []}

    def cases(self, tier, seed):
        yield from self.corpus_cases(tier, seed)
        yield from self.include_line_cases()
        n_pre = 120
        n = 150 if tier == 'quick' else 3000
        k_var = 4 if tier == 'quick' else 16
        for i in range(n_pre + n):
            rng = core.rng_for(0 if i < n_pre else seed, self.pid, i)
            endian = rng.choice(['big', 'little'])
            isa = c18_isa(endian)
            emb = i % 2 == 1
            if emb:
                isa['general']['allow_embedded_strings'] = True
            fn, itext = isamod.render_isa(isa, 'json')
            ast = gen_ast(rng, embedded=emb)
            canon = render(ast, rng, set())
            variants = []
            for kind in REWRITES:
                variants.append(([kind], render(ast, rng, {kind})))
            variants.append((list(REWRITES), render(ast, rng, set(REWRITES))))
            for _ in range(k_var):
                ks = [k for k in REWRITES if rng.random() < 0.4]
                variants.append((ks, render(ast, rng, set(ks))))
            run = lambda src: {'files': {fn: itext, 'p.asm': src}, 'argv': ['compile', '-c', fn, 'p.asm', '-o', 'out.bin'],   # noqa
                               'probes': ['steps'], 'step_limit': 600000}
            vtags = []
            for ks, src in variants:
                t = set()
                if len(ks) == 1:
                    t.add('alone:' + ks[0])
                if len(ks) == len(REWRITES):
                    t.add('all-together')
                import re
                if re.search(r'^\s*[A-Za-z][\w.]*\t', src, re.M) and 'gap-mnemonic-operand' in ks:
                    t.add('tab-after-mnemonic')
                if 'gap-in-directive' in ks and re.search(r'^\s*#(define|if|ifdef|ifndef)\t', src, re.M):
                    t.add('preprocessor-lines')
                    t.add('tab-after-directive-keyword')
                if re.search(r'\[\s*(SP|A|Sp)\b', src):
                    t.add('upper-register-in-brackets')
                if re.search(r'(?i)\blix\s+(SP|Sp)', src) and re.search(r'\b(SP|Sp)\s*\+', src):
                    t.add('upper-register-indexed')
                if any(it[0] == 'label' and it[1] in ('loop_nop', 'ld_ptr', 'inr2x', 'x_jmp_tab', 'nib4', 'sel_', 'q4q') for it in ast):
                    t.add('label-contains-mnemonic')
                if 'label-placement' in ks and re.search(r'^\s*\w+:[ \t]+\S*.*\.(lp|nx)\b', src, re.M):
                    t.add('label-in-front-of-local-reference')
                if 'label-placement' in ks and re.search(r'^\s*\w+:[ \t]+\.align\b', src, re.M):
                    t.add('label-in-front-of-align')
                if 'gap-inside-brackets' in ks and re.search(r'\[\s*\w+\s*\+\s*\d+[ \t]+[-+*][ \t]*', src):
                    t.add('blanks-inside-an-offset-of-several-terms')
                if 'label-placement' in ks and re.search(r'^\s*\w+:[ \t]+"', src, re.M):
                    t.add('label-in-front-of-embedded-string')
                if 'label-placement' in ks and re.search(r'^\s*\w+:[ \t]+\.(fill|zero)\b', src, re.M):
                    t.add('label-in-front-of-fill')
                if re.search(r'^[^;\n]*["\'][^\n]*;[^\n]*["\']', src, re.M) and 'trailing-comments' in ks:
                    t.add('quote-in-comment-after-quoted-statement')
                if re.search('[\x0b\x0c\x1c-\x1e\x85\u2028\u2029]', src):
                    t.add('comment-with-a-character-some-tools-take-for-a-line-end')
                if 'join-instructions' in ks and re.search(r"'\"'[^\n]*'\"'", src):
                    t.add('two-double-quote-literals-on-one-line')
                if 'trailing-comments' in ks and re.search(r"'[\\';]'[ \t]*;", src):
                    t.add('comment-behind-a-backslash-quote-or-semicolon-literal')
                if 'join-instructions' in ks and re.search(r"'.'[^\n;]*\bLIM_X\b[^\n;]*'.'", src):
                    t.add('symbol-use-between-two-quoted-characters-on-one-line')
                if 'join-instructions' in ks:
                    for ln in src.split('\n'):
                        c_ = len(re.findall(r'(?i)(?<![\w.])(nop|q4|inr|nib|ldi|q12|tri|jmp|ldx|sel|mv2|lix|liy|bra|psh|ldq|ldn)(?![\w.])', ln.split(';')[0]))
                        if c_ >= 2:
                            t.add('joined>=2')
                        if c_ >= 3:
                            t.add('joined>=3')
                vtags.append(sorted(t))
            mns = sorted({it[1] for it in ast if it[0] == 'instr'})
            yield {'runs': [run(canon)] + [run(src) for _, src in variants],
                   'meta': {'kinds': [ks for ks, _ in variants], 'vtags': vtags, 'mns': mns}, 'tags': []}

    @staticmethod
    def _src(run):
        f = run['files']
        if 'p.asm' in f:
            return f['p.asm']
        main = run['argv'][3]
        return f.get(main, '')[:3000]

    def judge(self, case, outcomes):
        c = outcomes[0]
        m = case['meta']
        if c.get('timed_out'):
            return [core.violated('termination:' + str(c['timed_out']), {'src': self._src(case['runs'][0])})]
        cimg = (c.get('files') or {}).get('out.bin')
        if c.get('exit') != 0 or cimg is None:
            return [core.violated('canonical-rendering-rejected', {'stderr': (c.get('stderr') or '')[-400:],
                                                                   'src': self._src(case['runs'][0])})]
        vs = []
        for i, o in enumerate(outcomes[1:]):
            ks = m['kinds'][i]
            tags = m['vtags'][i]
            nt = ','.join(ks) + '|' + ','.join(m['mns'])
            img = (o.get('files') or {}).get('out.bin')
            src = self._src(case['runs'][i + 1])
            if o.get('timed_out'):
                vs.append(core.violated('termination:' + str(o['timed_out']), {'src': src}))
            elif o.get('exit') != 0 or img is None:
                err = (o.get('stderr') or '').strip().splitlines()
                sig = 'rewritten-rejected/' + ('+'.join(ks) if len(ks) <= 2 else 'several')
                vs.append(core.violated(sig, {'kinds': ks, 'stderr': '\n'.join(err[-3:])[-400:], 'rewritten': src,
                                              'canonical': self._src(case['runs'][0])}, buckets=tags, nt=nt))
            elif img != cimg:
                sig = 'rewritten-image-differs/' + ('+'.join(ks) if len(ks) <= 2 else 'several')
                vs.append(core.violated(sig, {'kinds': ks, 'rewritten': src, 'canonical': self._src(case['runs'][0]),
                                              'image': img[:200], 'canonical_image': cimg[:200]}, buckets=tags, nt=nt))
            else:
                vs.append(core.held(buckets=tags, nt=nt))
        return vs

    def sample_of(self, case, outcomes):
        return {'canonical': self._src(case['runs'][0])[:500], 'rewritten(all kinds)': self._src(case['runs'][min(len(REWRITES) + 1, len(case['runs']) - 1)])[:700],
                'image': (outcomes[0].get('files') or {}).get('out.bin', '')[:80]}
