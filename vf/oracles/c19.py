"""C19 — malformed ISA definitions and unmet version requirements are rejected.

Oracle (fault enumeration): well-formed definitions from the generators must be accepted; every applicable single fault of
a fixed catalogue must be rejected; version gates decided by an independent semantic-version model.  Observation: exit
status of `compile` with a one-line program.
"""
import copy
import json
import os
import re

from vf import core, isa as isamod, gen_isa, gen_prog, runner
from vf.oracles import c10

KEYWORDS = ['org', 'memzone', 'align', 'fill', 'zero', 'zerountil', 'byte', '2byte', '4byte', '8byte', 'cstr', 'asciiz',
            'include', 'require', 'create_memzone', 'define', 'if', 'elif', 'else', 'endif', 'ifdef', 'ifndef', 'mute', 'unmute',
            'emit']
FUNC_KEYWORDS = ['LSB', 'BYTE0', 'BYTE1', 'BYTE7']


# ---------------------------------------------------------------------------------------------------------------------
# independent semantic-version ordering: release tuple, then pre-release a < b < rc < final
def parse_version(s):
    m = re.fullmatch(r'\s*v?(\d+(?:\.\d+)*)(?:[-_.]?(a|b|rc|alpha|beta|c|pre|preview)[-_.]?(\d*))?\s*', s, re.I)
    if not m:
        raise ValueError(s)
    rel = [int(x) for x in m.group(1).split('.')]
    while rel and rel[-1] == 0:
        rel.pop()
    pre = m.group(2)
    if pre:
        pre = pre.lower()
        rank = {'a': 0, 'alpha': 0, 'b': 1, 'beta': 1, 'rc': 2, 'c': 2, 'pre': 2, 'preview': 2}[pre]
        return (tuple(rel), rank, int(m.group(3) or 0))
    return (tuple(rel), 3, 0)


def vcmp(a, b):
    pa, pb = parse_version(a), parse_version(b)
    return (pa > pb) - (pa < pb)


def running_versions():
    txt = open(os.path.join(runner.repo_root(), 'src', 'bespokeasm', '__init__.py')).read()
    cur = re.search(r"BESPOKEASM_VERSION_STR\s*=\s*'([^']+)'", txt).group(1)
    mn = re.search(r"BESPOKEASM_MIN_REQUIRED_STR\s*=\s*'([^']+)'", txt).group(1)
    return cur, mn


# ---------------------------------------------------------------------------------------------------------------------
def base_definitions(rng, k):
    """a well-formed definition of varying style"""
    m = k % 4
    if m == 0:
        isa = gen_prog.layout_isa(16, zones=[{'name': 'ZA', 'start': 0x100, 'end': 0x1FF}])
    elif m == 1:
        isa = c10.base_isa(rng.choice(['big', 'little']))
        isa['macros'] = {'mtwo': [{'operands': {'count': 1, 'operand_sets': {'list': ['reg']}},
                                   'instructions': ['inr @REG(0)', 'inr @OP(0)']}]}
    elif m == 2:
        isa, _ = gen_isa.gen_isa(rng)
    else:
        isa = gen_prog.layout_isa(12, global_zone=(0x10, 0x7FF), origin=0x20,
                                  zones=[{'name': 'ZB', 'start': 0x40, 'end': 0x7F}],
                                  data=[{'name': 'pdat', 'address': 0x700, 'value': 1, 'size': 2}])
        isa['predefined']['constants'] = [{'name': 'K_ONE', 'value': 1}]
    return isa


def faults(isa, rng):
    """-> list of (fault name, mutated definition).  Only faults applicable to this definition."""
    out = []

    def mut(name, fn):
        d = copy.deepcopy(isa)
        try:
            r = fn(d)
        except (KeyError, IndexError, StopIteration, TypeError):
            return
        if r is False:
            return
        out.append((name, d))
    mut('remove:general', lambda d: d.pop('general'))
    mut('remove:instructions', lambda d: d.pop('instructions'))
    mut('remove:operand_sets', lambda d: d.pop('operand_sets'))
    kw = rng.choice(KEYWORDS)
    kwc = rng.choice([kw, kw.upper(), kw.capitalize()])

    def mn_kw(d):
        first = next(iter(d['instructions']))
        d['instructions'] = {(kwc if k == first else k): v for k, v in d['instructions'].items()}
    mut('keyword:mnemonic', mn_kw)
    fk = rng.choice(FUNC_KEYWORDS)

    def mn_fkw(d):
        first = next(iter(d['instructions']))
        d['instructions'] = {(rng.choice([fk, fk.lower()]) if k == first else k): v for k, v in d['instructions'].items()}
    mut('keyword:mnemonic-function-name', mn_fkw)

    def reg_kw(d):
        d['general'].setdefault('registers', [])
        d['general']['registers'] = list(d['general']['registers']) + [rng.choice(KEYWORDS + FUNC_KEYWORDS)]
    mut('keyword:register', reg_kw)

    def macro_dup(d):
        first = next(iter(d['instructions']))
        d.setdefault('macros', {})[rng.choice([first, first.upper()])] = [{'instructions': ['nop']}]
    mut('macro-named-like-instruction', macro_dup)

    def macro_kw(d):
        d.setdefault('macros', {})[kw] = [{'instructions': [next(iter(d['instructions']))]}]
        return 'nop' in d['instructions'] or None
    mut('keyword:macro', macro_kw)

    def find_variant_with_sets(d):
        for mn, conf in d['instructions'].items():
            for v in [conf] + list(conf.get('variants', []) or []):
                ops = v.get('operands') or {}
                if 'operand_sets' in ops and ops.get('count', 0) >= 1:
                    return v
        raise KeyError

    def find_variant_with_spec(d):
        for mn, conf in d['instructions'].items():
            for v in [conf] + list(conf.get('variants', []) or []):
                ops = v.get('operands') or {}
                if 'specific_operands' in ops:
                    return v
        raise KeyError

    def undeclared_set(d):
        find_variant_with_sets(d)['operands']['operand_sets']['list'][0] = 'no_such_set'
    mut('undeclared-operand-set', undeclared_set)

    def count_sets(d):
        v = find_variant_with_sets(d)
        v['operands']['count'] = v['operands']['count'] + rng.choice([1, -1, 2])
        return v['operands']['count'] >= 0 and 'specific_operands' not in v['operands'] or None
    mut('count!=operand-set-list', count_sets)

    def count_spec_mixed(d):
        v = find_variant_with_sets(d)
        n = v['operands']['count']
        lst = {f'xs{k}': {'type': 'numeric', 'argument': {'size': 8, 'byte_align': True}} for k in range(n + rng.choice([1, 2]) if n < 2 or rng.random() < 0.5 else n - 1)}
        v['operands'].setdefault('specific_operands', {})['bad_len'] = {'list': lst}
    mut('count!=specific-operand-list', count_spec_mixed)

    def count_spec(d):
        v = find_variant_with_spec(d)
        name = next(iter(v['operands']['specific_operands']))
        lst = v['operands']['specific_operands'][name]['list']
        if rng.random() < 0.5 and len(lst) >= 1:
            lst.pop(next(iter(lst)))
        else:
            lst['extra_op'] = {'type': 'numeric', 'argument': {'size': 8, 'byte_align': True}}
    mut('count!=specific-operand-list', count_spec)

    def macro_count_sets(d):
        sname = next(iter(d['operand_sets']))
        n = rng.choice([0, 2, 3])
        d.setdefault('macros', {})['c19_mbad'] = [{'operands': {'count': n, 'operand_sets': {'list': [sname]}}, 'instructions': [next(iter(d['instructions']))]}]
    mut('count!=operand-set-list/macro', macro_count_sets)

    def macro_count_spec(d):
        n = rng.choice([1, 3])
        lst = {f'ms{k}': {'type': 'numeric', 'argument': {'size': 8, 'byte_align': True}} for k in range(2)}
        d.setdefault('macros', {})['c19_mbad'] = [{'operands': {'count': n, 'specific_operands': {'only': {'list': lst}}}, 'instructions': [next(iter(d['instructions']))]}]
    mut('count!=specific-operand-list/macro', macro_count_spec)

    def all_operands(d):
        for sname, sc in d.get('operand_sets', {}).items():
            for oid, oc in sc['operand_values'].items():
                yield sc['operand_values'], oid, oc
        for mn, conf in d['instructions'].items():
            for v in [conf] + list(conf.get('variants', []) or []):
                for name, sp in ((v.get('operands') or {}).get('specific_operands') or {}).items():
                    for oid, oc in sp['list'].items():
                        yield sp['list'], oid, oc

    def reg_undeclared(d):
        for holder, oid, oc in all_operands(d):
            if oc['type'] in ('register', 'indirect_register', 'indexed_register', 'indirect_indexed_register'):
                oc['register'] = 'zz_not_a_reg'
                return
        raise KeyError
    mut('undeclared-register-in-operand', reg_undeclared)

    def nb_inverted(d):
        for holder, oid, oc in all_operands(d):
            if oc['type'] == 'numeric_bytecode':
                oc['bytecode']['min'], oc['bytecode']['max'] = 9, 3
                return
        first = next(iter(d['operand_sets'].values()))
        first['operand_values']['nb_bad'] = {'type': 'numeric_bytecode', 'bytecode': {'size': 4, 'min': 9, 'max': 3}}
    mut('inverted-range:numeric_bytecode', nb_inverted)

    def rel_inverted(d):
        for holder, oid, oc in all_operands(d):
            if oc['type'] == 'relative_address':
                oc['argument']['min'], oc['argument']['max'] = 20, -20
                return
        first = next(iter(d['operand_sets'].values()))
        first['operand_values']['rel_bad'] = {'type': 'relative_address', 'use_curly_braces': True,
                                              'argument': {'size': 8, 'byte_align': True, 'min': 20, 'max': -20}}
    mut('inverted-range:relative_address', rel_inverted)

    def rel_inverted0(d):
        lo, hi = rng.choice([(0, -8), (4, 0), (1, 0), (0, -1), (0, -128), (127, 0)])
        for holder, oid, oc in all_operands(d):
            if oc['type'] == 'relative_address':
                oc['argument']['min'], oc['argument']['max'] = lo, hi
                return
        first = next(iter(d['operand_sets'].values()))
        first['operand_values']['rel_bad'] = {'type': 'relative_address', 'use_curly_braces': True,
                                              'argument': {'size': 8, 'byte_align': True, 'min': lo, 'max': hi}}
    mut('inverted-range:relative_address/zero-bound', rel_inverted0)

    def nb_inverted0(d):
        lo, hi = rng.choice([(1, 0), (15, 0), (7, 0)])
        for holder, oid, oc in all_operands(d):
            if oc['type'] == 'numeric_bytecode':
                oc['bytecode']['min'], oc['bytecode']['max'] = lo, hi
                return
        first = next(iter(d['operand_sets'].values()))
        first['operand_values']['nb_bad'] = {'type': 'numeric_bytecode', 'bytecode': {'size': 4, 'min': lo, 'max': hi}}
    mut('inverted-range:numeric_bytecode/zero-bound', nb_inverted0)
    bits = isa['general']['address_size']

    def zone_inverted(d):
        d.setdefault('predefined', {}).setdefault('memory_zones', []).append({'name': 'BADZ', 'start': 0x50, 'end': 0x40})
    mut('zone:inverted', zone_inverted)

    def zone_beyond(d):
        d.setdefault('predefined', {}).setdefault('memory_zones', []).append(
            {'name': 'BADZ', 'start': (1 << bits) - 4, 'end': (1 << bits) + rng.choice([0, 7])})
    mut('zone:beyond-address-width', zone_beyond)

    def origin_below(d):
        d.setdefault('predefined', {})
        zs = [z for z in d['predefined'].get('memory_zones', []) if z['name'] != 'GLOBAL']
        d['predefined']['memory_zones'] = [{'name': 'GLOBAL', 'start': 0x40, 'end': (1 << bits) - 1}] + [
            z for z in zs if z['start'] >= 0x40]
        d['general']['origin'] = rng.choice([0, 0x3F])
        for blk in d['predefined'].get('data', []) or []:
            blk['address'] = max(blk['address'], 0x40)
    mut('origin-below-redefined-GLOBAL', origin_below)

    def no_bytecode(d):
        first = next(iter(d['instructions']))
        d['instructions'][first].pop('bytecode')
        d['instructions'][first].pop('variants', None)
    mut('instruction-without-bytecode', no_bytecode)

    def variant_no_bytecode(d):
        for mn, conf in d['instructions'].items():
            if conf.get('variants'):
                conf['variants'][0].pop('bytecode')
                return
        first = next(iter(d['instructions']))
        d['instructions'][first].setdefault('variants', []).append({'operands': {'count': 0}})
    mut('variant-without-bytecode', variant_no_bytecode)

    def unknown_type(d):
        for holder, oid, oc in all_operands(d):
            oc['type'] = 'numerik'
            return
        raise KeyError
    mut('unknown-operand-type', unknown_type)

    def enum_reg(d):
        regs = d['general'].get('registers') or []
        if not regs:
            d['general']['registers'] = regs = ['a']
        first = next(iter(d['operand_sets'].values()))
        first['operand_values']['enum_bad'] = {'type': 'enumeration', 'argument': {'size': 4, 'byte_align': False,
                                                                                   'value_dict': {regs[0]: 1, 'okkey': 2}}}
    mut('enumeration-key-is-register', enum_reg)

    def bad_version(d):
        d['general'].setdefault('identifier', {})['version'] = rng.choice(['one.two', '1.x', 'v-1'])
        d['general']['identifier'].setdefault('name', 'n')
    mut('isa-version-not-semver', bad_version)
    return out


MIN_GRID = ['0.10.0', '0.4.10', '0.4.3', '0.4.3b1', '0.4.3rc1', '0.4.3a2', '0.4.2', '0.4', '0.3', '0.3.0', '0.3.1', '0.2.9',
            '0.2.10', '1000.0.0', '0.4.3b2', '0.3.0rc1', '1.0.0']
REQ_VERSIONS = ['1.2.3', '1.2.4', '1.2.2', '1.10.0', '1.3', '1.2', '1.2.3rc1', '0.9.9', '2.0.0', '1.2.10']
REQ_OPS = ['==', '>=', '<=', '>', '<']


class C19(core.Check):
    pid = 'C19'
    level = 'fault_enumeration'
    rule = ('well-formed definitions of four styles (fixed layout ISA, macro ISA, generated ISA, redefined-GLOBAL ISA; JSON and '
            'YAML) must be accepted; from each, every applicable single fault of the catalogue (missing section, keyword as '
            'mnemonic / register / macro, macro named like an instruction, undeclared operand set or register, count != '
            'operand-set list / specific-operand list, inverted numeric_bytecode / relative ranges, zone inverted / beyond the '
            'address width / origin below a redefined GLOBAL, instruction or variant without bytecode, unknown operand type, '
            'enumeration key equal to a register, non-semver ISA version) must be rejected; min_version over a grid whose numeric '
            'and lexical orders differ; #require for 5 operators x version grid x matching / non-matching names. '
            'distinct_nontrivial = distinct (fault or gate, base style, format) tuples.')
    assumptions = ('keywords are tested as registers in their exact case; as mnemonics in any case',
                   'version strings are written quoted (YAML would turn 0.3 into a float)')
    chunk = 1500
    required_buckets = {b: 2 for b in [
        'base:accepted', 'remove:general', 'remove:instructions', 'remove:operand_sets', 'keyword:mnemonic',
        'keyword:mnemonic-function-name', 'keyword:register', 'keyword:macro', 'macro-named-like-instruction',
        'undeclared-operand-set', 'count!=operand-set-list', 'count!=specific-operand-list', 'count!=operand-set-list/macro', 'count!=specific-operand-list/macro', 'undeclared-register-in-operand',
        'inverted-range:numeric_bytecode', 'inverted-range:relative_address', 'inverted-range:relative_address/zero-bound',
        'inverted-range:numeric_bytecode/zero-bound', 'zone:inverted', 'zone:beyond-address-width',
        'origin-below-redefined-GLOBAL', 'instruction-without-bytecode', 'variant-without-bytecode', 'unknown-operand-type',
        'enumeration-key-is-register', 'isa-version-not-semver', 'gate:min_version', 'gate:require', 'gate:require/name-from-file-name', 'fmt:yaml', 'fmt:json', 'optional-part-shape', 'optional-part:registers-without-value', 'gate:min_version/written-as-a-number', 'gate:require/muted', 'gate:require/in-included-file']}

    def run(self, isa, fmt, src='.byte 0\n'):
        fn, text = isamod.render_isa(isa, fmt)
        return {'files': {fn: text, 'p.asm': src}, 'argv': ['compile', '-c', fn, 'p.asm', '-o', 'out.bin'],
                'probes': ['steps'], 'step_limit': 500000}

    def cases(self, tier, seed):
        cur, mn = running_versions()
        nb = 24 if tier == 'quick' else 300
        for k in range(nb):
            rng = core.rng_for(0 if k < 16 else seed, self.pid, 'base', k)
            isa = base_definitions(rng, k)
            fmt = 'yaml' if (gen_isa.needs_yaml(isa) or k % 3 == 0) else 'json'
            style = ['layout', 'macro', 'generated', 'global-redefined'][k % 4]
            yield {'runs': [self.run(isa, fmt)], 'meta': {'expect': 'ACCEPT', 'what': 'base:accepted', 'style': style},
                   'tags': ['base:accepted', 'fmt:' + fmt]}
            for name, d in faults(isa, rng):
                try:
                    json.dumps(d)
                except TypeError:
                    continue
                f2 = 'yaml' if (gen_isa.needs_yaml(d) or rng.random() < 0.3) else 'json'
                yield {'runs': [self.run(d, f2)], 'meta': {'expect': 'REJECT', 'what': name, 'style': style},
                       'tags': [name, 'fmt:' + f2]}
        # optional parts written in every shape that means "nothing here" (key absent, empty, or without a value)
        shapes = {
            'registers-without-value': lambda d: d['general'].__setitem__('registers', None),
            'registers-empty-list': lambda d: d['general'].__setitem__('registers', []),
            'macros-empty': lambda d: d.__setitem__('macros', {}),
            'macros-without-value': lambda d: d.__setitem__('macros', None),
            'predefined-empty': lambda d: d.__setitem__('predefined', {}),
            'predefined-empty-lists': lambda d: d.__setitem__('predefined', {'constants': [], 'data': [], 'memory_zones': [], 'symbols': []}),
            'operands-count-0': lambda d: d['instructions']['nop'].__setitem__('operands', {'count': 0}),
            'operands-without-value': lambda d: d['instructions']['nop'].__setitem__('operands', None),
            'variants-empty': lambda d: d['instructions']['nop'].__setitem__('variants', []),
            'no-identifier': lambda d: d['general'].pop('identifier'),
            'no-description': lambda d: d.pop('description'),
            'description-without-value': lambda d: d.__setitem__('description', None),
            'origin-0': lambda d: d['general'].__setitem__('origin', 0),
            'symbol-value-number': lambda d: d.__setitem__('predefined', {'symbols': [{'name': 'SYM5', 'value': 5}]}),
            'constant-value-text': lambda d: d.__setitem__('predefined', {'constants': [{'name': 'K5', 'value': '5'}]}),
            # ranges that are as narrow as a range can be without being inverted
            'numeric_bytecode-one-value-range': lambda d: d['operand_sets'].__setitem__('one', {'operand_values': {'nb': {
                'type': 'numeric_bytecode', 'bytecode': {'size': 4, 'min': 5, 'max': 5}}}}),
            'numeric_bytecode-range-0-0': lambda d: d['operand_sets'].__setitem__('one', {'operand_values': {'nb': {
                'type': 'numeric_bytecode', 'bytecode': {'size': 4, 'min': 0, 'max': 0}}}}),
            'relative_address-one-value-range': lambda d: d['operand_sets'].__setitem__('one', {'operand_values': {'ra': {
                'type': 'relative_address', 'argument': {'size': 8, 'byte_align': True, 'min': 2, 'max': 2}}}}),
            'relative_address-range-0-0': lambda d: d['operand_sets'].__setitem__('one', {'operand_values': {'ra': {
                'type': 'relative_address', 'argument': {'size': 8, 'byte_align': True, 'min': 0, 'max': 0}}}}),
            'memory-zone-of-one-address': lambda d: d.__setitem__('predefined', {'memory_zones': [{'name': 'Z1', 'start': 64, 'end': 64}]})}
        import copy
        for sname, f_ in shapes.items():
            for fmt in ('json', 'yaml'):
                d = isamod.base_isa()
                d['instructions']['ldi'] = {'bytecode': {'value': 0xA9, 'size': 8}, 'operands': {'count': 1, 'operand_sets': {'list': ['imm8']}}}
                d = copy.deepcopy(d)
                f_(d)
                src = 'nop\nldi 5\n' + ('.byte SYM5\n' if 'symbol' in sname else '') + ('.byte K5\n' if 'constant' in sname else '')
                yield {'runs': [self.run(d, fmt, src)], 'meta': {'expect': 'ACCEPT', 'what': 'optional-part:' + sname, 'style': 'optional-part'},
                       'tags': ['optional-part-shape', 'optional-part:' + sname, 'fmt:' + fmt]}
        # min_version grid
        for i, v in enumerate(MIN_GRID):
            for fmt in ('json', 'yaml'):
                isa = gen_prog.layout_isa(16)
                isa['general']['min_version'] = v
                ok = vcmp(v, cur) <= 0 and vcmp(v, mn) >= 0
                yield {'runs': [self.run(isa, fmt)],
                       'meta': {'expect': 'ACCEPT' if ok else 'REJECT', 'what': f'min_version={v}', 'style': 'gate',
                                'detail': f'running {cur}, minimum supported {mn}'}, 'tags': ['gate:min_version', 'fmt:' + fmt]}
        # the same gate when the version is written as a number (min_version: 0.3 - natural in YAML and JSON): a number is
        # read as its decimal text; zero is a version like any other (older than every supported format)
        for v in (0, 0.0, 0.3, 0.4, 0.2, 1, 1000, 0.10):
            for fmt in ('json', 'yaml'):
                isa = gen_prog.layout_isa(16)
                isa['general']['min_version'] = v
                ok = vcmp(str(v), cur) <= 0 and vcmp(str(v), mn) >= 0
                yield {'runs': [self.run(isa, fmt)],
                       'meta': {'expect': 'ACCEPT' if ok else 'REJECT', 'what': f'min_version={v!r} (a number)', 'style': 'gate',
                                'detail': f'running {cur}, minimum supported {mn}'},
                       'tags': ['gate:min_version', 'gate:min_version/written-as-a-number', 'gate:require/muted', 'gate:require/in-included-file', 'fmt:' + fmt]}
        # #require
        for name_ok in (True, False):
            for op in REQ_OPS + [None]:
                for v in REQ_VERSIONS:
                    isa = gen_prog.layout_isa(16, name='vf-lang_1', version='1.2.3')
                    nm = 'vf-lang_1' if name_ok else self_other(v)
                    if op is None:
                        line = f'#require "{nm}"'
                        ok = name_ok
                    else:
                        line = f'#require "{nm} {op} {v}"'
                        c = vcmp('1.2.3', v)
                        ok = name_ok and {'==': c == 0, '>=': c >= 0, '<=': c <= 0, '>': c > 0, '<': c < 0}[op]
                    yield {'runs': [self.run(isa, 'json', line + '\n.byte 0\n')],
                           'meta': {'expect': 'ACCEPT' if ok else 'REJECT', 'what': line, 'style': 'gate'},
                           'tags': ['gate:require', 'fmt:json']}
                    # a requirement is a statement about the file, not a byte: muting does not silence it
                    nreq = getattr(self, '_nreq', 0) + 1
                    self._nreq = nreq
                    if nreq % 3 == 0:
                        r_ = self.run(isa, 'json', '#mute\n' + line + '\n#unmute\n.byte 0\n')
                        yield {'runs': [r_], 'meta': {'expect': 'ACCEPT' if ok else 'REJECT', 'what': line + ' (between #mute and #unmute)', 'style': 'gate'},
                               'tags': ['gate:require', 'gate:require/muted', 'fmt:json']}
                    elif nreq % 3 == 1:
                        r_ = self.run(isa, 'json', '.byte 1\n#mute\n#include "hdr.asm"\n#unmute\n.byte 0\n')
                        r_['files']['hdr.asm'] = line + '\n.byte 2\n'
                        yield {'runs': [r_], 'meta': {'expect': 'ACCEPT' if ok else 'REJECT', 'what': line + ' (in a file included while muted)', 'style': 'gate'},
                               'tags': ['gate:require', 'gate:require/muted', 'gate:require/in-included-file', 'fmt:json']}
                    if op is None:
                        break

        # the language name of a definition without identifier.name is its file's base name (dots inside it included);
        # a definition without identifier has version 0.0.1
        for base in ('cpu-v1.2', 'my.cpu.isa', 'plainname', 'v2.0.1-beta'):
            for fmt in ('yaml', 'json'):
                for ident in ('none', 'version-only'):
                    for req, ok in ((base, True), (base.split('.')[0], base.split('.')[0] == base), (base + 'x', False),
                                    (base.rsplit('.', 1)[0], base.rsplit('.', 1)[0] == base), (base + ' >= 0.0.1', True),
                                    (base + ' > 9.9.9', False)):
                        isa = gen_prog.layout_isa(16)
                        if ident == 'none':
                            isa['general'].pop('identifier', None)
                        else:
                            isa['general']['identifier'] = {'version': '0.0.1'}
                        _, text = isamod.render_isa(isa, fmt)
                        fn = base + '.' + fmt
                        line = f'#require "{req}"'
                        yield {'runs': [{'files': {fn: text, 'p.asm': line + '\n.byte 0\n'},
                                         'argv': ['compile', '-c', fn, 'p.asm', '-o', 'out.bin'], 'probes': ['steps'], 'step_limit': 500000}],
                               'meta': {'expect': 'ACCEPT' if ok else 'REJECT', 'what': f'{line} with {fn} ({ident})', 'style': 'gate'},
                               'tags': ['gate:require', 'gate:require/name-from-file-name', 'fmt:' + fmt]}

    def judge(self, case, outcomes):
        o = outcomes[0]
        m = case['meta']
        tags = case['tags']
        nt = f"{m['what'] if m['style'] != 'gate' else m['what']}|{m['style']}|{[t for t in tags if t.startswith('fmt:')][0]}"
        det = {'what': m['what'], 'expect': m['expect'], 'exit': o.get('exit'), 'detail': m.get('detail'),
               'stderr': (o.get('stderr') or '')[-300:]}
        if o.get('timed_out'):
            return [core.violated('termination:' + str(o['timed_out']), det)]
        if m['expect'] == 'ACCEPT':
            if o.get('exit') != 0 or 'out.bin' not in (o.get('files') or {}):
                kind = m['what'].split('=')[0] if m['style'] == 'gate' else 'base'
                return [core.violated(f'well-formed-rejected/{kind}' + ('/' + m['what'] if m['style'] == 'gate' and 'min_version' in m['what'] else ''),
                                      det, buckets=tags, nt=nt)]
            return [core.held(buckets=tags, nt=nt)]
        if o.get('exit') == 0:
            kind = m['what'] if m['style'] != 'gate' else ('gate/' + (m['what'] if 'min_version' in m['what'] else 'require'))
            return [core.violated(f'malformed-accepted/{kind}', det, buckets=tags, nt=nt)]
        return [core.held(buckets=tags, nt=nt)]

    def sample_of(self, case, outcomes):
        return {'what': case['meta']['what'], 'expect': case['meta']['expect'], 'exit': outcomes[0].get('exit'),
                'stderr': (outcomes[0].get('stderr') or '')[-160:]}


def self_other(v):
    return 'other-lang' if hash(v) % 2 else 'vf-lang_2'
