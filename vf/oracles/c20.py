"""C20 — generated editor extensions are well-formed and mirror the ISA vocabulary.

Oracle: (1) structure — every JSON / YAML / property-list / XML / zip member parses (worker-side inspector,
vf.post_c20); (2) no `##PLACEHOLDER##` left in any generated text; (3) classification — the instruction / macro /
register / directive / data-type / preprocessor patterns extracted from the generated grammar are run with Python `re` on
probe words: each vocabulary word (lower and upper case) must be matched over exactly its own span by the rule of its
class, near-miss identifiers must not be matched by any vocabulary rule.
"""
import re

from vf import core, isa as isamod, gen_prog
from vf.oracles import c10

DIRECTIVES = ['.org', '.memzone', '.align']
DATATYPES = ['.fill', '.zero', '.zerountil', '.byte', '.2byte', '.4byte', '.8byte', '.cstr', '.asciiz']
PREPROC = ['include', 'require', 'create_memzone', 'define', 'if', 'elif', 'else', 'endif', 'ifdef', 'ifndef', 'mute', 'unmute', 'emit']
MN_POOL = ['ld', 'lda', 'ld.w', 'ld.b', 'st', 'sta', 'mov', 'mov16', 'a', 'x', 'jmp', 'j', 'add.c', 'adc', 'push2', 'p', 'inc', 'in',
           'sub_w', 'br.eq', 'br', 'q7', '_brk', 'ld_', '_t_', 'push.b', 'push.r',
           # mnemonics that contain the spelling of a keyword of the constant-definition syntax
           'bequ', 'sequ2', 'equ8', 'MvX', 'SWP',
           # names (or dotted parts of names) that begin with a digit
           '2dup', '0branch', 'ld.8', '8bit.x']
REG_POOL = ['a', 'b', 'x', 'sp', 'hl', 'ix', 'r0', 'r1', 'r10', 'mar', 'acc', 'sp_', '_fp', 'b0', 'b1', 'b10', 'ah', 'bh', 'c0h',
            # accepted register names that are assembler keywords in another letter case
            'ZERO', 'Fill', 'ORG', 'Byte0']
MACRO_POOL = ['push2x', 'mov2', 'ld2', 'm.dot', 'jsr2', 'st', '_push2', 'call_', 'push', 'add', 'mov.w', 'ld.x', 'jequ',
              # spelled with capitals in the configuration: a mnemonic all the same
              'LdAB', 'PUSHW', '2swap', 'st.16']


# free text of the definition that ends up inside generated JSON / XML / YAML files
DESCRIPTIONS = ['C20 vocabulary ISA', 'C20 vocabulary ISA', 'SAP-9: an 8-bit breadboard CPU (rev #2)', '[draft] cpu', '{x} cpu',
                '"quoted" cpu', "it's a cpu", '*star cpu', '&amp cpu', '!bang', '| pipe', '> fold', '%percent', '@at', '`tick`',
                'a <b> & c ]]> d', 'back\\slash \\n', 'yes', 'null', '~', '- dash', 'key: value # comment', 'trailing colon:',
                'caf\u00e9 \u00b5CPU', '  two  spaces  ', '#hash first', "mixed \"both' kinds"]


def vocab_isa(rng, with_macros, with_regs, with_pre):
    regs = rng.sample(REG_POOL, rng.randrange(1, 7)) if with_regs else []
    mns = rng.sample(MN_POOL, rng.randrange(2, 10))
    mns = [m for m in mns if m not in regs]
    if not mns:
        mns = ['ldq']
    isa = {'description': rng.choice(DESCRIPTIONS),
           'general': {'address_size': 16, 'endian': 'big', 'identifier': {'name': rng.choice(['vflang', 'my-cpu_2', 'X1']), 'version': '2.1.0'}},
           'operand_sets': {'imm': {'operand_values': {'i': {'type': 'numeric', 'argument': {'size': 8, 'byte_align': True}}}}},
           'instructions': {}}
    if with_regs:
        isa['general']['registers'] = regs
    for i, m in enumerate(mns):
        isa['instructions'][m] = {'bytecode': {'value': i, 'size': 8}}
    # an enumeration operand: its keys are operand words, not registers / mnemonics / macros
    enum_keys = []
    if rng.random() < 0.6:
        enum_keys = [k_ for k_ in rng.sample(['z', 'nz', 'cs', 'ge_u', 'lt0', 'always', 'r9', 'spx'], rng.randrange(1, 5))
                     if k_ not in regs and k_ not in mns]
        if enum_keys:
            isa['operand_sets']['cond'] = {'operand_values': {'cc': {'type': 'enumeration', 'bytecode': {
                'size': 4, 'value_dict': {k_: n_ for n_, k_ in enumerate(enum_keys)}},
                'argument': {'size': 8, 'byte_align': True, 'value_dict': {k_: 16 + n_ for n_, k_ in enumerate(enum_keys)}}}}}
            isa['instructions'][mns[0]] = {'bytecode': {'value': 0, 'size': 4}, 'operands': {'count': 1, 'operand_sets': {'list': ['cond']}}}
    isa['_enum_keys'] = enum_keys
    macros = []
    if with_macros:
        macros = [m for m in rng.sample(MACRO_POOL, rng.randrange(1, 4)) if m not in mns and m not in regs]
        if macros:
            isa['macros'] = {m: [{'instructions': [mns[0]]}] for m in macros}
    pre = []
    if with_pre:
        isa['predefined'] = {'constants': [{'name': 'K_TOP', 'value': 9}],
                             'data': [{'name': 'io_port', 'address': 0x700, 'value': 0, 'size': 1}],
                             'memory_zones': [{'name': 'ZP_zone', 'start': 0, 'end': 255}]}
        pre = ['K_TOP', 'io_port', 'ZP_zone']
    return isa, mns, macros, regs, pre


def near_misses(w, vocab):
    out = set()
    out.add(w + 'x')
    out.add(w + '9')
    out.add('x' + w)
    if len(w) > 1:
        out.add(w[:-1])
    if '.' in w:
        out.add(w.replace('.', 'x'))
        out.add(w.replace('.', '_'))
    out.add('q_' + w + '_z')
    return sorted(x for x in out if x.lower() not in {v.lower() for v in vocab})


class C20(core.Check):
    pid = 'C20'
    level = 'exploration'
    rule = ('ISA vocabularies with mnemonics that are prefixes of one another / contain "." / digits / are single letters, with '
            'and without macros, registers and predefined names; both editor targets; structure of every generated file, absence '
            'of template placeholders, and classification of every vocabulary word (lower / upper case) over exactly its own '
            'span by the rule of its class, near-miss identifiers by none. distinct_nontrivial = distinct (target, vocabulary '
            'feature set) tuples; evaluations counts probe words classified.')
    rule = rule + ' ' + 'A third of the runs generate into a directory that already holds an earlier generation; a zip member stored twice is a violation.'
    assumptions = ('the extracted patterns use only constructs common to Oniguruma, Sublime and Python re; a pattern Python cannot '
                   'compile makes that probe inconclusive, not violated',
                   'alternation is leftmost-first in all three engines')
    chunk = 400
    crosscheck_every = {'quick': 0, 'thorough': 0}       # the CLI cross-check compares files, the inspector ran in the worker
    required_buckets = {b: 3 for b in ['target:vscode', 'target:sublime', 'vocab:macros', 'vocab:no-macros', 'vocab:registers',
                                       'vocab:no-registers', 'vocab:predefined', 'vocab:no-predefined', 'mnemonic:contains-dot',
                                       'mnemonic:prefix-of-another', 'mnemonic:single-letter', 'vocab:underscore-at-edge',
                                       'description:special-characters', 'register:looks-like-a-numeric-literal', 'vocab:enumeration-keys',
                                       'vocab:macro-is-dotted-prefix-of-instruction', 'verbosity:1', 'verbosity:2', 'verbosity:3',
                                       'regenerated-over-an-earlier-package']}

    def __init__(self):
        self.words = 0

    def cases(self, tier, seed):
        n_pre = 48
        n = 60 if tier == 'quick' else 1200
        for i in range(n_pre + n):
            rng = core.rng_for(0 if i < n_pre else seed, self.pid, i)
            wm, wr, wp = bool(i & 1), bool(i & 2), bool(i & 4)
            isa, mns, macros, regs, pre = vocab_isa(rng, wm, wr, wp)
            enum_keys = isa.pop('_enum_keys')
            macros = [m_ for m_ in macros if m_ not in enum_keys]
            if 'macros' in isa:
                isa['macros'] = {m_: v_ for m_, v_ in isa['macros'].items() if m_ not in enum_keys}
                if not isa['macros']:
                    del isa['macros']
            fmt = 'yaml' if i % 5 == 0 else 'json'
            fn, text = isamod.render_isa(isa, fmt)
            tags = {'vocab:macros' if macros else 'vocab:no-macros', 'vocab:registers' if regs else 'vocab:no-registers',
                    'vocab:predefined' if pre else 'vocab:no-predefined'}
            if any('.' in m for m in mns):
                tags.add('mnemonic:contains-dot')
            if any(a != b and b.startswith(a) for a in mns for b in mns + macros):
                tags.add('mnemonic:prefix-of-another')
            if any(len(m) == 1 for m in mns):
                tags.add('mnemonic:single-letter')
            if any(w.startswith('_') or w.endswith('_') for w in mns + macros + regs):
                tags.add('vocab:underscore-at-edge')
            if enum_keys:
                tags.add('vocab:enumeration-keys')
            if any(i_.startswith(m_ + '.') for m_ in macros for i_ in mns):
                tags.add('vocab:macro-is-dotted-prefix-of-instruction')
            if any(m_.startswith(i_ + '.') for m_ in macros for i_ in mns):
                tags.add('vocab:instruction-is-dotted-prefix-of-macro')
            if any(r_ in ('b0', 'b1', 'b10', 'ah', 'bh', 'c0h') for r_ in regs):
                tags.add('register:looks-like-a-numeric-literal')
            if isa['description'] != DESCRIPTIONS[0]:
                tags.add('description:special-characters')
            for tgt in ('vscode', 'sublime'):
                argv = ['generate-extension', tgt, '-c', fn, '-d', 'out']
                if rng.random() < 0.3:
                    argv += ['-l', 'custom_lang']
                # the generated files do not depend on how much the tool prints
                nv = [0, 0, 1, 2, 3, 4][(i + (tgt == 'sublime')) % 6] if i < n_pre else rng.choice([0, 0, 0, 1, 2, 3, 4])
                vt = set()
                if nv:
                    argv += ['-v'] * nv if rng.random() < 0.5 else ['-' + 'v' * nv]
                    vt = {f'verbosity:{min(nv, 3)}'}
                b64 = {}
                stale_files = {}
                if (i + (tgt == 'sublime')) % 3 == 0:
                    # generating again into a directory that holds an earlier generation (of another vocabulary): what is
                    # there afterwards is the new package, each file once
                    lang_ = 'custom_lang' if '-l' in argv else isa['general']['identifier']['name']
                    if tgt == 'sublime':
                        import base64, io, zipfile
                        buf = io.BytesIO()
                        with zipfile.ZipFile(buf, 'w') as z_:
                            z_.writestr(lang_ + '.sublime-syntax', '%YAML 1.2\n---\nname: stale\nscope: source.stale\ncontexts:\n  main: []\n')
                            z_.writestr(lang_ + '.sublime-color-scheme', '{"name": "stale"}')
                        b64['out/' + lang_ + '.sublime-package'] = base64.b64encode(buf.getvalue()).decode()
                    else:
                        stale_ = '{"stale": true, "pad": "' + 'x' * 30000 + '"}\n'
                        for rel_ in ('package.json', 'syntaxes/tmGrammar.json', 'snippets.json', 'language-configuration.json'):
                            stale_files['out/extensions/' + lang_ + '/' + rel_] = stale_
                    vt = vt | {'regenerated-over-an-earlier-package'}
                yield {'runs': [{'files': dict(stale_files, **{fn: text}), 'files_b64': b64, 'dirs': ['out'], 'argv': argv, 'post': 'inspect_extension', 'target': tgt,
                                 'ext_dir': 'out', 'collect_all': False, 'hashseed': str(i % 4), 'probes': []}],
                       'meta': {'mns': mns, 'macros': macros, 'regs': regs, 'pre': pre, 'target': tgt, 'enum_keys': enum_keys},
                       'tags': sorted(tags | vt | {'target:' + tgt})}

    def classify(self, patterns, cls, word):
        """-> span of the match of class rule on the probe line, or None"""
        pat = patterns.get(cls)
        if pat is None:
            return 'norule'
        try:
            rx = re.compile(pat)
        except re.error:
            return 'uncompilable'
        pre = '#' if cls == 'preprocessor' else ' '
        line = ' ' + pre + word + ' '
        start = 2
        for m in rx.finditer(line):
            if m.end() > start and m.start() < start + len(word):
                return (m.start() - start, m.end() - start)
        return None

    def judge(self, case, outcomes):
        o = outcomes[0]
        m = case['meta']
        tags = case['tags']
        nt = '|'.join(tags)
        po = o.get('post') or {}
        if o.get('timed_out'):
            return [core.violated('termination:' + str(o['timed_out']), {})]
        if o.get('exit') != 0:
            return [core.violated('generation-failed/' + m['target'], {'stderr': (o.get('stderr') or '')[-400:], 'vocab': m}, buckets=tags, nt=nt)]
        if '_error' in po:
            return [core.inconclusive('inspector failed', {'err': po['_error'][-400:]})]
        vs = []
        # (1) structure, (2) placeholders
        for fn, rec in (po.get('files') or {}).items():
            if not rec.get('ok'):
                vs.append(core.violated(f'malformed-file/{m["target"]}/{rec.get("parsed")}', {'file': fn, 'err': rec.get('err')}, buckets=tags, nt=nt))
            if rec.get('placeholders'):
                ext = fn.rsplit('.', 1)[-1]
                vs.append(core.violated(f'placeholder-left/{m["target"]}/{ext}', {'file': fn, 'placeholders': rec['placeholders']}, buckets=tags, nt=nt))
        if m['target'] == 'sublime':
            if not po.get('zip_ok'):
                vs.append(core.violated('zip-invalid', {'err': po.get('zip_err')}))
            mem = po.get('members') or []
            if len(mem) != len(set(mem)):
                vs.append(core.violated('zip-member-stored-more-than-once', {'members': mem}, buckets=tags, nt=nt))
            if not any(x.endswith('.sublime-syntax') for x in mem):
                vs.append(core.violated('zip-member-missing/sublime-syntax', {'members': mem}))
        else:
            tree = po.get('tree') or []
            for need in ('package.json', 'syntaxes/tmGrammar.json', 'snippets.json', 'language-configuration.json'):
                if not any(t.endswith(need) for t in tree):
                    vs.append(core.violated('file-missing/' + need, {'tree': tree}))
            pk = po.get('package') or {}
            try:
                th = pk['contributes']['themes'][0]['path'].lstrip('./')
                if not any(t.endswith(th) for t in tree):
                    vs.append(core.violated('theme-file-not-where-package-json-says', {'path': th, 'tree': tree}))
            except Exception:
                pass
        if po.get('grammar_error'):
            vs.append(core.violated('grammar-structure/' + m['target'], {'err': po['grammar_error']}))
        # (3) classification
        pats = po.get('patterns') or {}
        vocab = {'instruction': m['mns'], 'macro': m['macros'], 'register': m['regs'], 'directive': DIRECTIVES,
                 'datatype': DATATYPES, 'preprocessor': PREPROC}
        allwords = [w for ws in vocab.values() for w in ws]
        found = []
        for cls, words in vocab.items():
            for w in words:
                forms = [w, w.upper()] if cls in ('instruction', 'macro', 'register') else [w]
                for form in forms:
                    self.words += 1
                    r = self.classify(pats, cls, form)
                    if r in ('norule',):
                        found.append((f'no-rule-for-class/{cls}', {'word': form}))
                    elif r == 'uncompilable':
                        vs.append(core.inconclusive('pattern not compilable by Python re: ' + cls))
                    elif r is None:
                        found.append((f'word-not-classified/{cls}', {'word': form, 'pattern': pats.get(cls)}))
                    elif r != (0, len(form)):
                        why = 'prefix-of-another' if any(o_ != w and w.lower().startswith(o_.lower()) for o_ in words) else 'span'
                        found.append((f'word-classified-over-wrong-span/{cls}/{why}', {'word': form, 'span': r, 'pattern': pats.get(cls)}))
            if cls in ('instruction', 'macro', 'register'):
                for w in words:
                    for nm in near_misses(w, allwords):
                        self.words += 1
                        r = self.classify(pats, cls, nm)
                        if isinstance(r, tuple):
                            hit = nm[max(r[0], 0):r[1]]
                            nxt = nm[r[1]:r[1] + 1]
                            prv = nm[r[0] - 1:r[0]] if r[0] > 0 else ''
                            if hit.lower() in {x.lower() for x in words} and not (prv.isalnum() or prv == '_') and not (nxt.isalnum() or nxt == '_'):
                                continue       # a real vocabulary word set off by punctuation, e.g. `br` in `br.e`, `x` in `x8bit.x`
                            why = 'dot-unescaped' if '.' in w and ('x' in nm or '_' in nm) and len(nm) == len(w) else 'other'
                            found.append((f'near-miss-classified/{cls}/{why}', {'word': nm, 'near': w, 'span': r, 'pattern': pats.get(cls)}))
        # words the definition uses that belong to none of the three classes (enumeration keys, predefined names) are not
        # registers, instructions or macros
        others = [w for w in (m.get('enum_keys') or []) if w.lower() not in {x.lower() for x in allwords}]
        for cls in ('register', 'instruction', 'macro'):
            for w in others:
                for form in (w, w.upper()):
                    self.words += 1
                    r = self.classify(pats, cls, form)
                    if isinstance(r, tuple) and r == (0, len(form)):
                        found.append((f'non-{cls}-word-classified-as-{cls}/enumeration-key', {'word': form, 'pattern': (pats.get(cls) or '')[:300]}))
        # the end-of-statement look-ahead of an instruction / macro rule must stop in front of every operation mnemonic
        # (instructions AND macros), otherwise a second statement on the same line is swallowed as operands
        for endcls in ('end:instruction', 'end:macro'):
            pat = pats.get(endcls)
            if pat is None:
                continue
            try:
                rx = re.compile(pat)
            except re.error:
                vs.append(core.inconclusive('pattern not compilable by Python re: ' + endcls))
                continue
            for w in m['mns'] + m['macros']:
                self.words += 1
                line = 'zz 1 ' + w + ' 2'
                pos = line.index(' ' + w + ' ')
                hits = [mm.start() for mm in rx.finditer(line)]
                if not any(pos <= h <= pos + 1 for h in hits):
                    kind = 'macro' if w in m['macros'] else 'instruction'
                    found.append((f'statement-end-lookahead-misses-{kind}/{endcls}', {'word': w, 'pattern': pat[:300]}))
        # (4) rule order: right after a mnemonic (and inside [ ]) the FIRST rule that matches at the register's position
        # must be the register rule, over exactly the register's span (registers named like numeric literals - b0, ah -
        # or like other identifiers are still registers)
        ctxs = po.get('contexts') or {}
        REGSCOPE = 'variable.language.register'
        for ctx_name, opener, closer in (('operand', '', ''), ('bracket', '[', ']'), ('macro-operand', '', '')):
            rules = ctxs.get(ctx_name)
            host = (m['macros'] if ctx_name == 'macro-operand' else m['mns'])
            if not rules or not m['regs'] or not host:
                continue
            comp = []
            bad_rx = False
            for sc, pat in rules:
                try:
                    comp.append((sc, re.compile(pat)))
                except re.error:
                    bad_rx = True
            if bad_rx:
                vs.append(core.inconclusive('pattern not compilable by Python re: context ' + ctx_name))
                continue
            for r_ in m['regs']:
                for form in (r_, r_.upper()):
                    self.words += 1
                    line = host[0] + ' ' + opener + form + closer
                    pos = len(host[0]) + 1 + len(opener)
                    best = None
                    for k_, (sc, rx) in enumerate(comp):
                        mm = rx.search(line, pos)
                        if mm is None or (mm.end() == mm.start() and sc not in ('END', 'POP')):
                            continue
                        if mm.end() == mm.start() and mm.start() < len(line):
                            continue            # a look-ahead that matches in the middle of the line ends nothing here
                        key = (mm.start(), k_)
                        if best is None or key < best[0]:
                            best = (key, sc, mm.start(), mm.end())
                    tags_ctx = f'{ctx_name}'
                    if best is None or best[1] != REGSCOPE or (best[2], best[3]) != (pos, pos + len(form)):
                        found.append((f'register-not-first-rule-in-context/{tags_ctx}',
                                      {'line': line, 'register': form, 'won': None if best is None else {'scope': best[1], 'span': [best[2], best[3]]},
                                       'rule_order': [sc for sc, _ in rules][:14]}))
        # (5) rule order at the start of a statement: the first rule of the top-level context that matches at column 0 must be the
        # rule of the word's own class over the whole word (a macro `push` must not take `push.b`, nor `mov` the macro `mov.w`)
        main_rules = ctxs.get('main')
        if main_rules:
            comp = []
            ok_rx = True
            for sc, pat in main_rules:
                try:
                    comp.append((sc, re.compile(pat)))
                except re.error:
                    ok_rx = False
            if not ok_rx:
                vs.append(core.inconclusive('pattern not compilable by Python re: context main'))
            else:
                for cls, words, want in (('instruction', m['mns'], 'variable.function.instruction'), ('macro', m['macros'], 'variable.function.macro')):
                    for w in words:
                        for form, ind, rest in ((w, '', ' 5'), (w.upper(), '', ' 5'), (w, '    ', ' 5'), (w.upper(), '\t', ' 5'),
                                                (w, '  ', ' EQUAL_X'), (w, '  ', ' equ_k, 1'),
                                                # directly behind a label's colon (the label rule has consumed "c20_lbl:")
                                                (w, 'c20_lbl:', ' 5'), (w.upper(), '.loc9:', ' 5')):
                            self.words += 1
                            line = ind + form + rest
                            pos0 = len(ind) if ind.endswith(':') else 0
                            best = None
                            for k_, (sc, rx) in enumerate(comp):
                                mm = rx.search(line, pos0)
                                if mm is None or mm.end() == mm.start():
                                    continue
                                key = (mm.start(), k_)
                                if best is None or key < best[0]:
                                    best = (key, sc, mm.start(), mm.end())
                            if best is None or best[1] != want or (best[2], best[3]) != (len(ind), len(ind) + len(form)):
                                mech = None
                                if cls == 'macro' and best is not None and best[1] == 'variable.function.instruction' and best[2] == len(ind) \
                                        and line[len(ind):best[3]].lower() in {x.lower() for x in m['mns']} and line[best[3]:best[3] + 1] == '.':
                                    # defect emulation for the listed finding: the instruction rule comes first and its
                                    # alternatives end in \b, which also holds in front of the "." of a longer dotted name
                                    mech = 'dotted-macro-shadowed-by-instruction-prefix'
                                found.append((f'{cls}-not-first-rule-at-statement-start',
                                              {'line': line, 'won': None if best is None else {'scope': best[1], 'span': [best[2], best[3]]},
                                               'rule_order': [sc for sc, _ in main_rules][:10]}, mech))
        # an instruction must not also be classified as a macro and vice versa
        if not m['macros'] and (pats.get('macro') is not None or po.get('includes_macros')) and m['target'] == 'vscode':
            found.append(('macro-rule-present-without-macros', {'pattern': pats.get('macro')}))
        seen = set()
        for f_ in found:
            sig, det = f_[0], f_[1]
            mech = f_[2] if len(f_) > 2 else None
            if (sig, mech) in seen:
                continue
            seen.add((sig, mech))
            det['vocabulary'] = {k: v for k, v in m.items() if k != 'target'}
            vs.append(core.violated(sig + '/' + m['target'], det, buckets=tags, nt=nt, mech=mech))
        return vs or [core.held(buckets=tags, nt=nt)]

    def sample_of(self, case, outcomes):
        po = outcomes[0].get('post') or {}
        return {'argv': case['runs'][0]['argv'], 'vocabulary': case['meta'], 'files': sorted(po.get('files') or {}),
                'instruction_pattern': (po.get('patterns') or {}).get('instruction')}

    def extra_evidence(self):
        return {'probe_words_classified': self.words}
