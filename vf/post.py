"""Worker-side post-processing hooks run on the scratch directory after the child has finished."""

POST = {}


def register(name):
    def deco(f):
        POST[name] = f
        return f
    return deco


try:
    from vf import post_c20  # noqa: F401  (registers 'inspect_extension')
except Exception:   # pragma: no cover
    pass
