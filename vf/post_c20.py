"""Worker-side inspection of a generated editor extension directory (C20): structure + extracted patterns."""
import json
import os
import plistlib
import re
import zipfile
import xml.etree.ElementTree as ET

from vf.post import register

PLACEHOLDER = re.compile(r'##[A-Z_]+##')


def _check_text(name, data, res):
    rec = {'ok': True}
    try:
        text = data.decode('utf-8')
    except UnicodeDecodeError as e:
        rec = {'ok': False, 'err': 'not utf-8: ' + str(e)}
        res['files'][name] = rec
        return None
    ph = sorted(set(PLACEHOLDER.findall(text)))
    if ph:
        rec['placeholders'] = ph
    low = name.lower()
    try:
        if low.endswith('.json') or low.endswith('.sublime-color-scheme') or low.endswith('.sublime-keymap') or low.endswith('.sublime-macro'):
            rec['parsed'] = 'json'
            json.loads(text)
        elif low.endswith('.sublime-syntax'):
            rec['parsed'] = 'yaml'
            import yaml
            if not text.startswith('%YAML 1.2\n---\n'):
                raise ValueError('missing %YAML header')
            yaml.safe_load(text[len('%YAML 1.2\n---\n'):])
        elif low.endswith('.tmtheme') or low.endswith('.tmpreferences'):
            rec['parsed'] = 'plist'
            plistlib.loads(data)
        elif low.endswith('.sublime-snippet') or low.endswith('.xml'):
            rec['parsed'] = 'xml'
            ET.fromstring(text)
        else:
            rec['parsed'] = 'none'
    except Exception as e:
        rec['ok'] = False
        rec['err'] = f'{type(e).__name__}: {e}'[:200]
    res['files'][name] = rec
    return text


def _tm_flatten(rep, rule, top, depth=0):
    """TextMate: the ordered list [scope, pattern] a tokenizer tries inside `rule` (its end pattern first, then its child
    patterns with includes expanded in place; a begin/end child contributes its begin pattern)."""
    out = []
    if depth > 6:
        return out
    if top and 'end' in rule:
        out.append(['END', rule['end']])
    for ch in rule.get('patterns', []):
        if 'include' in ch:
            tgt = rep.get(ch['include'].lstrip('#'))
            if tgt is None:
                continue
            if 'match' in tgt:
                out.append([tgt.get('name', 'unnamed'), tgt['match']])
            elif 'begin' in tgt:
                cap0 = ((tgt.get('beginCaptures') or {}).get('0') or {}).get('name')
                out.append([cap0 or ('BEGIN:' + ch['include'].lstrip('#')), tgt['begin']])
            else:
                out += _tm_flatten(rep, tgt, False, depth + 1)
        elif 'match' in ch:
            out.append([ch.get('name', 'unnamed'), ch['match']])
        elif 'begin' in ch:
            out.append(['BEGIN:' + ch.get('name', '?'), ch['begin']])
    return out


def _sub_flatten(contexts, rules, depth=0):
    """Sublime: the ordered list [scope, pattern] tried inside a pushed context (includes expanded in place)."""
    out = []
    if depth > 6:
        return out
    for r in rules:
        if 'include' in r:
            out += _sub_flatten(contexts, contexts.get(r['include'], []), depth + 1)
        elif 'match' in r:
            sc = r.get('scope') or ('POP' if r.get('pop') else 'PUSH' if 'push' in r else 'unnamed')
            if r.get('pop') and not r.get('scope'):
                sc = 'POP'
            out.append([sc, r['match']])
    return out


@register('inspect_extension')
def inspect_extension(d, spec, out):
    root = os.path.join(d, spec.get('ext_dir', 'out'))
    res = {'files': {}, 'patterns': {}, 'target': spec.get('target'), 'tree': []}
    for dp, dn, fn in os.walk(root):
        for f in fn:
            res['tree'].append(os.path.relpath(os.path.join(dp, f), root))
    res['tree'].sort()
    if spec.get('target') == 'vscode':
        for rel in res['tree']:
            with open(os.path.join(root, rel), 'rb') as f:
                data = f.read()
            text = _check_text(rel, data, res)
            if rel.endswith('tmGrammar.json') and text is not None:
                try:
                    g = json.loads(text)
                    rep = g['repository']
                    res['patterns']['instruction'] = rep['instructions']['begin']
                    res['patterns']['end:instruction'] = rep['instructions']['end']
                    if 'macros' in rep:
                        res['patterns']['macro'] = rep['macros']['begin']
                        res['patterns']['end:macro'] = rep['macros']['end']
                    res['includes_macros'] = any(p.get('include') == '#macros' for p in rep['main']['patterns'])
                    if 'registers' in rep:
                        res['patterns']['register'] = rep['registers']['match']
                    if 'compiler_labels' in rep:
                        res['patterns']['predefined'] = rep['compiler_labels']['match']
                    for item in rep['directives']['patterns']:
                        if item.get('name') == 'meta.directive':
                            res['patterns']['directive'] = item['begin']
                        elif item.get('name') == 'storage.type':
                            res['patterns']['datatype'] = item['match']
                        elif item.get('name') == 'meta.preprocessor':
                            for p in item['patterns']:
                                if p.get('name') == 'keyword.control.preprocessor':
                                    res['patterns']['preprocessor'] = p['match']
                    res['scopeName'] = g.get('scopeName')
                    res['contexts'] = {'main': _tm_flatten(rep, rep['main'], False),
                                       'operand': _tm_flatten(rep, rep['instructions'], True),
                                       'bracket': _tm_flatten(rep, rep['indirect-addressing'], True)}
                    if 'macros' in rep:
                        res['contexts']['macro-operand'] = _tm_flatten(rep, rep['macros'], True)
                except Exception as e:
                    res['grammar_error'] = repr(e)
            if rel.endswith('package.json') and text is not None:
                try:
                    res['package'] = json.loads(text)
                except Exception:
                    pass
    else:
        pk = [r for r in res['tree'] if r.endswith('.sublime-package')]
        res['packages'] = pk
        for rel in pk:
            p = os.path.join(root, rel)
            try:
                z = zipfile.ZipFile(p)
                bad = z.testzip()
                res['zip_ok'] = bad is None
                res['members'] = sorted(z.namelist())
                for m in z.namelist():
                    data = z.read(m)
                    text = _check_text(m, data, res)
                    if m.endswith('.sublime-syntax') and text is not None:
                        try:
                            import yaml
                            s = yaml.safe_load(text[len('%YAML 1.2\n---\n'):])
                            c = s['contexts']
                            for it in c['instructions']:
                                if it.get('scope') == 'variable.function.instruction':
                                    res['patterns']['instruction'] = it['match']
                                elif it.get('scope') == 'variable.function.macro':
                                    res['patterns']['macro'] = it['match']
                            if 'registers' in c:
                                res['patterns']['register'] = c['registers'][0]['match']
                            if 'compiler_labels' in c:
                                res['patterns']['predefined'] = c['compiler_labels'][0]['match']
                            for it in c.get('pop_instruction_end', []):
                                if it.get('name') == 'instructions' or 'match' in it:
                                    res['patterns'].setdefault('end:instruction', it.get('match'))
                            res['patterns']['directive'] = c['compiler_directives'][0]['match']
                            res['patterns']['datatype'] = c['data_types_directives'][0]['match']
                            for rule in c['preprocessor_directives'][0]['push']:
                                if 'match' in rule and 'scope' in rule and 'preprocessor' in str(rule.get('scope')):
                                    res['patterns'].setdefault('preprocessor', rule['match'])
                            if 'preprocessor' not in res['patterns']:
                                for rule in c['preprocessor_directives'][0]['push']:
                                    if 'match' in rule and '(?<=\\#)' in rule['match']:
                                        res['patterns']['preprocessor'] = rule['match']
                            res['file_extensions'] = s.get('file_extensions')
                            res['contexts'] = {'main': _sub_flatten(c, c['main'])}
                            for it in c['instructions']:
                                key = {'variable.function.instruction': 'operand', 'variable.function.macro': 'macro-operand'}.get(it.get('scope'))
                                if key and isinstance(it.get('push'), list):
                                    res['contexts'][key] = _sub_flatten(c, it['push'])
                            for it in c.get('indirect_addressing', []):
                                if isinstance(it.get('push'), list):
                                    res['contexts']['bracket'] = _sub_flatten(c, it['push'])
                        except Exception as e:
                            res['grammar_error'] = repr(e)
            except Exception as e:
                res['zip_ok'] = False
                res['zip_err'] = repr(e)
    return res
