"""White-box monitors attached from the harness inside the forked child (guard: BESPOKEASM_VERIF=1).

Nothing in /repo is edited: the probes wrap the real functions from outside.  Every probe attaches defensively: when its
target cannot be found it records `unavailable` and the black-box oracle still decides.  Probes only record; the one
exception is `steps`, whose whole point is to stop a run that no longer makes progress.
"""
import json
import os
import sys

STEP_EXIT = 97


class State:
    def __init__(self, spec, d):
        self.spec = spec
        self.d = d
        self.out = {}
        self.unavailable = []


def _safe(v):
    if isinstance(v, (int, str, bool)) or v is None:
        return v
    return repr(v)[:200]


# ---------------------------------------------------------------------------------------------------------------------
def probe_steps(st):
    """Bounded-progress monitor: counts line-steps inside the engine's loops; stops the run past the bound."""
    import sys as _sys
    mon = _sys.monitoring
    limit = int(st.spec.get('step_limit', 2_000_000))
    targets = []
    try:
        from bespokeasm.assembler.engine import Assembler
        targets.append(Assembler.assemble_bytecode.__code__)
    except Exception:
        st.unavailable.append('steps:Assembler.assemble_bytecode')
    try:
        from bespokeasm.assembler.line_object.factory import LineOjectFactory
        targets.append(LineOjectFactory.parse_line.__func__.__code__)
    except Exception:
        st.unavailable.append('steps:LineOjectFactory.parse_line')
    try:
        from bespokeasm.assembler.preprocessor import Preprocessor
        targets.append(Preprocessor.resolve_symbols.__code__)
    except Exception:
        st.unavailable.append('steps:Preprocessor.resolve_symbols')
    try:
        from bespokeasm.assembler.assembly_file import AssemblyFile
        targets.append(AssemblyFile.load_line_objects.__code__)
    except Exception:
        st.unavailable.append('steps:AssemblyFile.load_line_objects')
    rec = {'n': 0, 'limit': limit, 'per_code': {}}
    st.out['steps'] = rec
    if not targets:
        return
    TOOL = 3
    try:
        mon.use_tool_id(TOOL, 'vf_steps')
    except ValueError:
        pass
    counter = [0]
    per = rec['per_code']

    def cb(code, lineno):
        counter[0] += 1
        if counter[0] > limit:
            rec['n'] = counter[0]
            rec['exceeded'] = True
            try:
                fr = _sys._getframe(1)
                rec['where'] = f'{code.co_qualname}:{lineno}'
                loc = {}
                for k in ('addr', 'lobj', 'line_num', 'line_str', 'instruction_str', 'max_generated_address'):
                    if k in fr.f_locals:
                        loc[k] = _safe(fr.f_locals[k])
                rec['locals'] = loc
            except Exception as e:  # pragma: no cover
                rec['where_error'] = repr(e)
            try:
                _sys.stdout.flush()
                _sys.stderr.flush()
            except Exception:
                pass
            dump(st, st.d)
            os._exit(STEP_EXIT)

    mon.register_callback(TOOL, mon.events.LINE, cb)
    for c in targets:
        mon.set_local_events(TOOL, c, mon.events.LINE)
        per[c.co_qualname] = True
    st._steps_counter = counter


def probe_files(st):
    """Audit hook on open(): which paths were opened for writing / reading, in order."""
    import sys as _sys
    rec = {'writes': [], 'reads': []}
    st.out['files'] = rec
    d = st.d

    def hook(event, args):
        if event != 'open':
            return
        try:
            path, mode, flags = args
            if not isinstance(path, (str, bytes)):
                return
            if isinstance(path, bytes):
                path = path.decode('utf-8', 'replace')
            ap = os.path.abspath(path)
            if not ap.startswith(d):
                return
            rel = os.path.relpath(ap, d)
            if rel.startswith('.probe') or rel in ('.stdout', '.stderr'):
                return
            w = (flags & (os.O_WRONLY | os.O_RDWR | os.O_CREAT | os.O_TRUNC | os.O_APPEND)) != 0
            (rec['writes'] if w else rec['reads']).append(rel)
        except Exception:
            pass
    _sys.addaudithook(hook)


def probe_sizes(st):
    """Postcondition on every LineWithBytes.generate_bytes: bytes emitted == space reserved in pass 1."""
    rec = {'calls': 0, 'mismatch': []}
    st.out['sizes'] = rec
    try:
        import bespokeasm.assembler.line_object as lo
        import bespokeasm.assembler.line_object.data_line as dl
        import bespokeasm.assembler.line_object.instruction_line as il
        import bespokeasm.assembler.line_object.directive_line.fill_data as fd
        import bespokeasm.assembler.line_object.emdedded_string as es
        import bespokeasm.assembler.line_object.predefined_data as pd
        classes = [dl.DataLine, il.InstructionLine, fd.FillDataLine, fd.FillUntilDataLine, es.EmbeddedString,
                   pd.PredefinedDataLine]
    except Exception:
        st.unavailable.append('sizes')
        return

    def wrap(cls):
        orig = cls.__dict__.get('generate_bytes')
        if orig is None:
            return

        def generate_bytes(self, *a, **k):
            r = orig(self, *a, **k)
            rec['calls'] += 1
            try:
                b = self.get_bytes()
                n = None if b is None else len(b)
                if n != self.byte_size and len(rec['mismatch']) < 20:
                    rec['mismatch'].append({'line': str(self.line_id), 'text': self.instruction,
                                            'reserved': self.byte_size, 'emitted': n})
            except Exception as e:
                if len(rec['mismatch']) < 20:
                    rec['mismatch'].append({'line': str(getattr(self, 'line_id', '?')), 'error': repr(e)})
            return r
        cls.generate_bytes = generate_bytes
    for c in classes:
        wrap(c)


def probe_cursor(st):
    """Invariant on MemoryZone.current_address: start <= cursor <= end+1 after every assignment; ordered log."""
    rec = {'sets': 0, 'log': [], 'violations': []}
    st.out['cursor'] = rec
    try:
        from bespokeasm.assembler.memory_zone import MemoryZone
        prop = MemoryZone.__dict__['current_address']
        fset = prop.fset
    except Exception:
        st.unavailable.append('cursor')
        return

    def setter(self, value):
        old = self._current_address
        try:
            fset(self, value)
        finally:
            rec['sets'] += 1
            new = self._current_address
            if len(rec['log']) < 400:
                rec['log'].append([self.name, old, value, new])
            if not (self.start <= new <= self.end + 1) and len(rec['violations']) < 20:
                rec['violations'].append([self.name, self.start, self.end, new])
    MemoryZone.current_address = property(prop.fget, setter)


def probe_fields(st):
    """Trace of PackedBits.append_bits per AssembledInstruction.get_bytes call + cursor postcondition."""
    rec = {'instructions': [], 'post_violations': [], 'appends': 0}
    st.out['fields'] = rec
    try:
        from bespokeasm.assembler.bytecode.packed_bits import PackedBits
        from bespokeasm.assembler.bytecode import assembled
        orig_append = PackedBits.append_bits
        orig_get = assembled.AssembledInstruction.get_bytes
    except Exception:
        st.unavailable.append('fields')
        return
    cur = []
    depth = [0]

    def bitpos(pb):
        return pb._cur_byte_idx * 8 + (7 - pb._cur_bit_idx)

    def append_bits(self, value, bit_size, byte_aligned, endian='big'):
        before = bitpos(self)
        r = orig_append(self, value, bit_size, byte_aligned, endian)
        after = bitpos(self)
        rec['appends'] += 1
        exp = before
        if byte_aligned and exp % 8:
            exp += 8 - exp % 8
        exp += bit_size
        if after != exp and len(rec['post_violations']) < 20:
            rec['post_violations'].append({'before': before, 'after': after, 'size': bit_size, 'aligned': byte_aligned})
        if depth[0] == 1:
            cur.append([int(value), bit_size, bool(byte_aligned), endian, self._bytes])
        return r

    def get_bytes(self, label_scope, instruction_address, instruction_size):
        depth[0] += 1
        if depth[0] == 1:
            cur.clear()
        try:
            r = orig_get(self, label_scope, instruction_address, instruction_size)
        finally:
            depth[0] -= 1
        if depth[0] == 0 and len(rec['instructions']) < 300:
            # appends made on other PackedBits objects (composite operand codes) are not fields of this instruction
            mine = [c[:4] for c in cur if r is None or c[4] is r]
            rec['instructions'].append({'line': getattr(self.line_id, 'line_num', None), 'addr': instruction_address,
                                        'fields': mine, 'bytes': None if r is None else bytes(r).hex()})
        return r
    PackedBits.append_bits = append_bits
    assembled.AssembledInstruction.get_bytes = get_bytes


def probe_labels(st):
    """Log of LabelScope.set/get_label_value: which scope answered each lookup."""
    rec = {'sets': [], 'gets': [], 'nsets': 0, 'ngets': 0}
    st.out['labels'] = rec
    try:
        from bespokeasm.assembler.label_scope import LabelScope, GlobalLabelScope
        orig_get = LabelScope.get_label_value
        orig_gget = GlobalLabelScope.get_label_value
        orig_set = LabelScope.set_label_value
    except Exception:
        st.unavailable.append('labels')
        return
    asking = []

    def get_label_value(self, label, line_id):
        top = not asking
        if top:
            asking.append(self)
        try:
            if label in self._labels:
                rec['ngets'] += 1
                if len(rec['gets']) < 400:
                    a = asking[0]
                    rec['gets'].append([label, self.type.name, str(self.reference), a.type.name, str(a.reference),
                                        getattr(line_id, 'line_num', None), os.path.basename(str(getattr(line_id, 'filename', '')))])
            return orig_get(self, label, line_id)
        finally:
            if top:
                asking.clear()

    def gget(self, label, line_id):
        top = not asking
        if top:
            asking.append(self)
        try:
            return orig_gget(self, label, line_id)
        finally:
            if top:
                asking.clear()

    def set_label_value(self, label, value, line_id, scope=None):
        r = orig_set(self, label, value, line_id, scope)
        return r
    LabelScope.get_label_value = get_label_value
    GlobalLabelScope.get_label_value = gget

    # record where a definition finally lands
    def set_wrapper(self, label, value, line_id, scope=None):
        before = label in self._labels
        r = orig_set(self, label, value, line_id, scope)
        if not before and label in self._labels:
            rec['nsets'] += 1
            if len(rec['sets']) < 400:
                rec['sets'].append([label, _safe(value), self.type.name, str(self.reference),
                                    getattr(line_id, 'line_num', None)])
        return r
    LabelScope.set_label_value = set_wrapper


def probe_cond(st):
    """Event log of the condition stack and symbol creation, in source order."""
    rec = {'events': [], 'n': 0}
    st.out['cond'] = rec
    try:
        from bespokeasm.assembler.preprocessor.condition_stack import ConditionStack
        from bespokeasm.assembler.preprocessor import Preprocessor
        orig_pc = ConditionStack.process_condition
        orig_cs = Preprocessor.create_symbol
    except Exception:
        st.unavailable.append('cond')
        return

    def process_condition(self, condition, preprocessor):
        r = orig_pc(self, condition, preprocessor)
        rec['n'] += 1
        if len(rec['events']) < 400:
            try:
                act = self.currently_active(preprocessor)
            except BaseException as e:
                act = repr(e)
            rec['events'].append(['cond', type(condition).__name__, len(self._stack), act, self.is_muted])
        return r

    def create_symbol(self, name, value, line_id=None):
        r = orig_cs(self, name, value, line_id)
        rec['n'] += 1
        if len(rec['events']) < 400:
            rec['events'].append(['define', name, value])
        return r
    ConditionStack.process_condition = process_condition
    Preprocessor.create_symbol = create_symbol


def probe_subst(st):
    """In/out pairs of the outermost Preprocessor.resolve_symbols call."""
    rec = {'pairs': [], 'n': 0, 'changed': 0}
    st.out['subst'] = rec
    try:
        from bespokeasm.assembler.preprocessor import Preprocessor
        orig = Preprocessor.resolve_symbols
    except Exception:
        st.unavailable.append('subst')
        return
    depth = [0]

    def resolve_symbols(self, line_id, line_str, *a, **k):
        depth[0] += 1
        try:
            r = orig(self, line_id, line_str, *a, **k)
        finally:
            depth[0] -= 1
        if depth[0] == 0:
            rec['n'] += 1
            if r != line_str:
                rec['changed'] += 1
                if len(rec['pairs']) < 200:
                    rec['pairs'].append([line_str, r])
        return r
    Preprocessor.resolve_symbols = resolve_symbols


def probe_select(st):
    """Order in which instruction variants / operand alternatives were tried and which was accepted."""
    rec = {'variants': [], 'operands': [], 'nv': 0, 'no': 0}
    st.out['select'] = rec
    try:
        from bespokeasm.assembler.bytecode.generator.instruction import InstructionBytecodeGenerator as G
        from bespokeasm.assembler.model.operand_set import OperandSet
        orig_v = G.generate_variant_bytecode_parts.__func__
        orig_po = OperandSet.parse_operand
    except Exception:
        st.unavailable.append('select')
        return

    def gv(cls, variant, line_id, mnemonic, operands, isa_model, memzone_manager):
        r = orig_v(cls, variant, line_id, mnemonic, operands, isa_model, memzone_manager)
        rec['nv'] += 1
        if len(rec['variants']) < 400:
            rec['variants'].append([getattr(line_id, 'line_num', None), mnemonic,
                                    variant._variant_config['bytecode'].get('value'), r is not None])
        return r
    G.generate_variant_bytecode_parts = classmethod(gv)

    cur = []          # stack of 'tried' lists, one per parse_operand call of an operand set in progress

    def watch(operand):
        """each alternative of the set reports into the call in progress; the set's own loop stays the repository's"""
        inner = operand.parse_operand

        def parse_operand(line_id, operand_str, register_labels, memzone_manager):
            op = inner(line_id, operand_str, register_labels, memzone_manager)
            if cur:
                cur[-1].append([operand.id, operand.type.value, op is not None])
            return op
        operand.parse_operand = parse_operand
        operand._vf_watched = True

    def po(self, line_id, operand_str, register_labels, memzone_manager):
        for operand in self._ordered_operand_list:
            if not getattr(operand, '_vf_watched', False):
                watch(operand)
        tried = []
        cur.append(tried)
        try:
            res = orig_po(self, line_id, operand_str, register_labels, memzone_manager)
        finally:
            cur.pop()
        rec['no'] += 1
        if len(rec['operands']) < 400:
            rec['operands'].append([getattr(line_id, 'line_num', None), operand_str, tried])
        return res
    OperandSet.parse_operand = po


def probe_setorder(st):
    """Records the iteration order this interpreter's hash seed gives to representative string sets."""
    names = st.spec.get('setorder_names') or ['a', 'b', 'c', 'sp', 'hl', 'ix', 'mar', 'r0', 'r1', 'r2']
    st.out['setorder'] = {'order': list(set(names)), 'hashseed': os.environ.get('PYTHONHASHSEED')}


def probe_reach(st):
    """Anchor-line coverage: which lines of the named source files executed (each location disabled after 1st hit)."""
    import sys as _sys
    mon = _sys.monitoring
    wanted = st.spec.get('reach_files') or []
    rec = {}
    st.out['reach'] = rec
    if not wanted:
        return
    TOOL = 4
    try:
        mon.use_tool_id(TOOL, 'vf_reach')
    except ValueError:
        pass
    hits = {}

    def cb(code, lineno):
        fn = code.co_filename
        s = hits.get(fn)
        if s is None:
            s = hits[fn] = set()
        s.add(lineno)
        return mon.DISABLE
    mon.register_callback(TOOL, mon.events.LINE, cb)
    import bespokeasm
    root = os.path.dirname(os.path.dirname(bespokeasm.__file__))
    suffixes = tuple(wanted)
    n = 0
    for name, mod in list(_sys.modules.items()):
        if not name.startswith('bespokeasm'):
            continue
        f = getattr(mod, '__file__', None)
        if not f:
            continue
        relf = os.path.relpath(f, os.path.dirname(root))
        if not any(relf.endswith(w) or w.rstrip('/') in relf for w in suffixes):
            continue
        for code in _iter_code(mod):
            try:
                mon.set_local_events(TOOL, code, mon.events.LINE)
                n += 1
            except Exception:
                pass
    st._reach_hits = hits
    st._reach_root = os.path.dirname(root)
    rec['codes'] = n


def _iter_code(mod):
    import types
    seen = set()

    def walk(code):
        if id(code) in seen:
            return
        seen.add(id(code))
        yield code
        for c in code.co_consts:
            if isinstance(c, types.CodeType):
                yield from walk(c)

    for obj in list(vars(mod).values()):
        objs = [obj]
        if isinstance(obj, type) and getattr(obj, '__module__', None) == mod.__name__:
            objs = list(vars(obj).values())
            for sub in list(objs):
                if isinstance(sub, type):
                    objs.extend(vars(sub).values())
        for o in objs:
            if isinstance(o, (classmethod, staticmethod)):
                o = o.__func__
            if isinstance(o, property):
                for f in (o.fget, o.fset):
                    if f is not None and hasattr(f, '__code__'):
                        yield from walk(f.__code__)
                continue
            if hasattr(o, 'func') and hasattr(getattr(o, 'func'), '__code__'):   # cached_property
                yield from walk(o.func.__code__)
                continue
            cb = getattr(o, 'callback', None)            # click commands
            if cb is not None and hasattr(cb, '__code__'):
                yield from walk(cb.__code__)
                continue
            c = getattr(o, '__code__', None)
            if isinstance(c, types.CodeType) and getattr(o, '__module__', mod.__name__) == mod.__name__:
                yield from walk(c)


PROBES = {
    'steps': probe_steps, 'files': probe_files, 'sizes': probe_sizes, 'cursor': probe_cursor,
    'fields': probe_fields, 'labels': probe_labels, 'cond': probe_cond, 'subst': probe_subst,
    'select': probe_select, 'setorder': probe_setorder, 'reach': probe_reach,
}


def install(spec, d):
    st = State(spec, d)
    names = spec.get('probes') or []
    if names:
        os.environ['BESPOKEASM_VERIF'] = '1'
    for n in names:
        try:
            PROBES[n](st)
        except Exception as e:
            st.unavailable.append(f'{n}: {e!r}')
    return st


def dump(st, d):
    c = getattr(st, '_steps_counter', None)
    if c is not None and 'steps' in st.out:
        st.out['steps']['n'] = c[0]
    hits = getattr(st, '_reach_hits', None)
    if hits is not None:
        root = st._reach_root
        st.out['reach']['lines'] = {os.path.relpath(f, root): sorted(s) for f, s in hits.items()}
    st.out['_unavailable'] = st.unavailable
    with open(os.path.join(d, '.probe.json'), 'w') as f:
        json.dump(st.out, f)


# ---------------------------------------------------------------------------------------------------------------------
def probe_contracts(st):
    """icontract runtime contracts on the real classes (installed by setup.sh into /verif/.deps; optional):
      * class invariant on MemoryZone: start <= current_address <= end + 1
      * snapshot + postcondition on PackedBits.append_bits: the bit cursor advanced by exactly the field size plus the
        padding byte alignment requires
    The conditions record and return True (a raising contract would change the control flow it observes)."""
    rec = {'available': False, 'invariant_evals': 0, 'post_evals': 0, 'broken': []}
    st.out['contracts'] = rec
    try:
        import icontract
        from bespokeasm.assembler.memory_zone import MemoryZone
        from bespokeasm.assembler.bytecode.packed_bits import PackedBits
    except Exception as e:
        st.unavailable.append('contracts: ' + repr(e)[:80])
        return
    rec['available'] = True

    def cursor_in_zone(self):
        rec['invariant_evals'] += 1
        if not (self.start <= self._current_address <= self.end + 1) and len(rec['broken']) < 20:
            rec['broken'].append(['MemoryZone', self.name, self.start, self.end, self._current_address])
        return True

    class ContractBroken(Exception):
        pass
    icontract.invariant(cursor_in_zone, error=ContractBroken)(MemoryZone)

    def bitpos(self):
        return self._cur_byte_idx * 8 + (7 - self._cur_bit_idx)

    def advanced_exactly(self, bit_size, byte_aligned, OLD):
        rec['post_evals'] += 1
        exp = OLD.pos
        if byte_aligned and exp % 8:
            exp += 8 - exp % 8
        exp += bit_size
        if bitpos(self) != exp and len(rec['broken']) < 20:
            rec['broken'].append(['append_bits', OLD.pos, bitpos(self), bit_size, bool(byte_aligned)])
        return True
    PackedBits.append_bits = icontract.snapshot(bitpos, name='pos')(
        icontract.ensure(advanced_exactly, error=ContractBroken)(PackedBits.append_bits))


PROBES['contracts'] = probe_contracts
