"""Parent side of the executor: a pool of zygote workers (fork-per-case) and the true-CLI cross-check."""
import hashlib
import json
import os
import queue
import shutil
import signal
import subprocess
import sys
import tempfile
import threading
import time

VERIF_ROOT = os.path.dirname(os.path.dirname(os.path.abspath(__file__)))
PY = os.environ.get('VERIF_PYTHON', '/venv/bin/python')


def repo_root():
    return os.path.abspath(os.environ.get('VERIF_REPO', '/repo'))


def child_env(hashseed='0', extra=None):
    env = dict(os.environ)
    deps = os.path.join(VERIF_ROOT, '.deps')
    env['PYTHONPATH'] = os.pathsep.join([os.path.join(repo_root(), 'src'), VERIF_ROOT] +
                                        ([deps] if os.path.isdir(deps) else []))
    env['PYTHONDONTWRITEBYTECODE'] = '1'
    env['PYTHONHASHSEED'] = str(hashseed)
    env['PIP_NO_INDEX'] = '1'
    for k in list(env):
        if k.startswith('BESPOKEASM_'):
            del env[k]
    if extra:
        env.update(extra)
    return env


class Worker:
    def __init__(self, hashseed='0', extra_env=None):
        self.p = subprocess.Popen([PY, '-m', 'vf.worker'], stdin=subprocess.PIPE, stdout=subprocess.PIPE,
                                  stderr=subprocess.DEVNULL, env=child_env(hashseed, extra_env), cwd=VERIF_ROOT,
                                  text=True, bufsize=1)
        line = self.p.stdout.readline()
        if not line:
            raise RuntimeError('worker failed to start')
        self.hello = json.loads(line)

    def run(self, spec):
        self.p.stdin.write(json.dumps(spec) + '\n')
        self.p.stdin.flush()
        line = self.p.stdout.readline()
        if not line:
            raise RuntimeError('worker died')
        return json.loads(line)

    def close(self):
        try:
            self.p.stdin.close()
        except Exception:
            pass
        try:
            self.p.wait(timeout=5)
        except Exception:
            self.p.kill()


class Pool:
    """N zygote workers sharing one hash seed.  map() preserves order."""

    def __init__(self, n=None, hashseed='0', extra_env=None):
        self.n = n or int(os.environ.get('VERIF_JOBS', '0')) or min(16, os.cpu_count() or 4)
        self.hashseed = hashseed
        self.workers = []
        errs = []

        def start():
            try:
                self.workers.append(Worker(hashseed, extra_env))
            except Exception as e:  # pragma: no cover
                errs.append(e)
        ts = [threading.Thread(target=start) for _ in range(self.n)]
        for t in ts:
            t.start()
        for t in ts:
            t.join()
        if errs or not self.workers:
            raise RuntimeError(f'could not start workers: {errs}')
        root = os.path.realpath(self.workers[0].hello['repo'])
        if root != os.path.realpath(repo_root()):
            raise RuntimeError(f'worker imported bespokeasm from {root}, expected {repo_root()}')

    def map(self, specs, progress=None):
        specs = list(specs)
        results = [None] * len(specs)
        q = queue.Queue()
        for i, s in enumerate(specs):
            q.put((i, s))
        lock = threading.Lock()
        done = [0]

        def loop(w):
            while True:
                try:
                    i, s = q.get_nowait()
                except queue.Empty:
                    return
                try:
                    results[i] = w.run(s)
                except Exception as e:
                    results[i] = {'harness_error': repr(e)}
                    return
                if progress:
                    with lock:
                        done[0] += 1
                        progress(done[0], len(specs))
        ts = [threading.Thread(target=loop, args=(w,)) for w in self.workers]
        for t in ts:
            t.start()
        for t in ts:
            t.join()
        # anything left unrun (all workers died)
        for i, r in enumerate(results):
            if r is None:
                results[i] = {'harness_error': 'not run'}
        return results

    def close(self):
        for w in self.workers:
            w.close()

    def __enter__(self):
        return self

    def __exit__(self, *a):
        self.close()


def run_true_cli(spec, hashseed='0', timeout=120):
    """Re-runs a CLI-mode spec through `python -m bespokeasm` in a fresh interpreter. Same outcome shape."""
    assert spec.get('mode', 'cli') == 'cli'
    base = os.environ.get('VERIF_SCRATCH') or ('/dev/shm' if os.path.isdir('/dev/shm') else tempfile.gettempdir())
    d = tempfile.mkdtemp(prefix='vfcli_', dir=base)
    out = {}
    try:
        inputs = {}
        for rel, text in (spec.get('files') or {}).items():
            p = os.path.join(d, rel)
            os.makedirs(os.path.dirname(p), exist_ok=True)
            data = text.encode('utf-8', 'surrogateescape')
            with open(p, 'wb') as f:
                f.write(data)
            inputs[rel] = hashlib.sha1(data).hexdigest()
        import base64
        for rel, b64 in (spec.get('files_b64') or {}).items():
            p = os.path.join(d, rel)
            os.makedirs(os.path.dirname(p), exist_ok=True)
            data = base64.b64decode(b64)
            with open(p, 'wb') as f:
                f.write(data)
            inputs[rel] = hashlib.sha1(data).hexdigest()
        for rel in spec.get('dirs') or []:
            os.makedirs(os.path.join(d, rel), exist_ok=True)
        for link, target in (spec.get('symlinks') or {}).items():
            p = os.path.join(d, link)
            os.makedirs(os.path.dirname(p), exist_ok=True)
            os.symlink(target, p)
        env = child_env(hashseed)
        for k, v in (spec.get('env') or {}).items():
            if v is None:
                env.pop(k, None)
            else:
                env[k] = v.replace('{SCRATCH}', d)
        for step in spec.get('before') or []:
            for rel, text in (step.get('files') or {}).items():
                with open(os.path.join(d, rel), 'w') as f_:
                    f_.write(text)
            try:
                subprocess.run([PY, '-m', 'bespokeasm'] + [a.replace('{SCRATCH}', d) for a in step['argv']], cwd=os.path.join(d, spec.get('cwd', '.')),
                               env=env, stdin=subprocess.DEVNULL, stdout=subprocess.DEVNULL, stderr=subprocess.DEVNULL, timeout=120)
            except subprocess.TimeoutExpired:
                pass
            for rel in step.get('remove_after') or []:
                try:
                    os.remove(os.path.join(d, rel))
                except OSError:
                    pass
            for rel in (step.get('files') or {}):
                st_ = os.stat(os.path.join(d, rel))
                with open(os.path.join(d, rel), 'w') as f_:
                    f_.write(spec['files'][rel])
                os.utime(os.path.join(d, rel), ns=(st_.st_atime_ns, st_.st_mtime_ns))
        t0 = time.monotonic()
        # the same CPU-time bound as the forked run (CPU time, not wall time: it does not depend on machine load);
        # interpreter start-up and imports cost the fresh process about half a second more, hence the allowance
        cpu = int(spec.get('cpu_s', 20)) + 2

        def _limits():
            import resource
            resource.setrlimit(resource.RLIMIT_CPU, (cpu, cpu + 5))
        try:
            r = subprocess.run([PY, '-m', 'bespokeasm'] + [a.replace('{SCRATCH}', d) for a in spec['argv']],
                               cwd=os.path.join(d, spec.get('cwd', '.')),
                               env=env, stdin=subprocess.DEVNULL, stdout=subprocess.PIPE, stderr=subprocess.PIPE,
                               timeout=max(timeout, 6 * cpu), preexec_fn=_limits)
            out['exit'] = r.returncode
            out['timed_out'] = None
            if r.returncode in (-signal.SIGXCPU, -signal.SIGKILL):
                out['exit'] = None
                out['signal'] = -r.returncode
                out['timed_out'] = 'cpu'
            out['stdout'] = r.stdout.decode('utf-8', 'backslashreplace')[:60000]
            out['stderr'] = r.stderr.decode('utf-8', 'backslashreplace')[:60000]
        except subprocess.TimeoutExpired as e:
            out['exit'] = None
            out['timed_out'] = 'wall'
            out['stdout'] = (e.stdout or b'').decode('utf-8', 'backslashreplace')[:60000]
            out['stderr'] = (e.stderr or b'').decode('utf-8', 'backslashreplace')[:60000]
        out['wall_s'] = round(time.monotonic() - t0, 3)
        files = {}
        unchanged = []
        for root, dirs, fnames in os.walk(d):
            for fn in fnames:
                p = os.path.join(root, fn)
                rel = os.path.relpath(p, d)
                if os.path.islink(p):
                    continue
                sz = os.path.getsize(p)
                if sz > (4 << 20):
                    files[rel] = {'big': sz}
                    continue
                with open(p, 'rb') as f:
                    data = f.read()
                if inputs.get(rel) == hashlib.sha1(data).hexdigest():
                    unchanged.append(rel)
                    continue
                files[rel] = data.hex()
        out['files'] = files
        out['scratch'] = os.path.realpath(d)
        out['unchanged'] = unchanged
        out['missing_inputs'] = [r for r in inputs if not os.path.exists(os.path.join(d, r))]
        out['probes'] = {}
    finally:
        shutil.rmtree(d, ignore_errors=True)
    return out


def same_observables(a, b):
    """Fork-run vs true-CLI agreement: exit status and every output file byte."""
    ea, eb = a.get('exit'), b.get('exit')
    if a.get('timed_out') or b.get('timed_out'):
        return bool(a.get('timed_out')) == bool(b.get('timed_out'))
    if ea != eb:
        return False
    return _normalised(a) == _normalised(b)


def _normalised(o):
    """output files with the run's own scratch directory path replaced (listings print absolute include paths)"""
    sc = (o.get('scratch') or '').encode()
    res = {}
    for k, v in (o.get('files') or {}).items():
        if isinstance(v, str) and sc:
            try:
                res[k] = bytes.fromhex(v).replace(sc, b'<SCRATCH>')
                continue
            except ValueError:
                pass
        res[k] = v
    return res
