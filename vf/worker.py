"""Zygote worker: imports bespokeasm once from the tree under test, then runs each case in a forked child.

Protocol: one JSON object per line on stdin (a run spec), one JSON object per line on stdout (the outcome).
The child does what the console script does (sys.argv + bespokeasm.__main__.entry_point()), with fd 1/2 redirected to
files inside a private scratch directory, and maps SystemExit / uncaught exceptions to the exit status exactly as the
interpreter would.  A fresh child per case is required because bespokeasm keeps process-global state.
"""
import base64
import hashlib
import json
import os
import resource
import shutil
import signal
import sys
import tempfile
import time
import traceback

STEP_EXIT = 97          # reserved exit status: the bounded-progress monitor stopped the run
HARNESS_EXIT = 98       # reserved exit status: the harness itself failed inside the child
MAX_FILE_BYTES = 4 << 20
MAX_TEXT = 60000


def _scratch_base():
    base = os.environ.get('VERIF_SCRATCH')
    if base:
        os.makedirs(base, exist_ok=True)
        return base
    if os.path.isdir('/dev/shm') and os.access('/dev/shm', os.W_OK):
        return '/dev/shm'
    return tempfile.gettempdir()


def _write_inputs(d, spec):
    inputs = {}
    for rel, text in (spec.get('files') or {}).items():
        p = os.path.join(d, rel)
        os.makedirs(os.path.dirname(p), exist_ok=True)
        data = text.encode('utf-8', 'surrogateescape')
        with open(p, 'wb') as f:
            f.write(data)
        inputs[rel] = hashlib.sha1(data).hexdigest()
    for rel, b64 in (spec.get('files_b64') or {}).items():
        p = os.path.join(d, rel)
        os.makedirs(os.path.dirname(p), exist_ok=True)
        data = base64.b64decode(b64)
        with open(p, 'wb') as f:
            f.write(data)
        inputs[rel] = hashlib.sha1(data).hexdigest()
    for rel in spec.get('dirs') or []:
        os.makedirs(os.path.join(d, rel), exist_ok=True)
    for link, target in (spec.get('symlinks') or {}).items():
        p = os.path.join(d, link)
        os.makedirs(os.path.dirname(p), exist_ok=True)
        os.symlink(target, p)
    return inputs


def _child(d, spec):
    """Runs in the forked child. Never returns."""
    status = HARNESS_EXIT
    probe_state = None
    try:
        cwd = os.path.join(d, spec.get('cwd', '.'))
        os.chdir(cwd)
        for k, v in (spec.get('env') or {}).items():
            if v is None:
                os.environ.pop(k, None)
            else:
                os.environ[k] = v.replace('{SCRATCH}', d)
        so = os.open(os.path.join(d, '.stdout'), os.O_WRONLY | os.O_CREAT | os.O_TRUNC, 0o600)
        se = os.open(os.path.join(d, '.stderr'), os.O_WRONLY | os.O_CREAT | os.O_TRUNC, 0o600)
        dn = os.open(os.devnull, os.O_RDONLY)
        os.dup2(dn, 0)
        os.dup2(so, 1)
        os.dup2(se, 2)
        sys.stdin = open(0, 'r', closefd=False)
        sys.stdout = open(1, 'w', closefd=False, errors='backslashreplace')
        sys.stderr = open(2, 'w', closefd=False, errors='backslashreplace')
        cpu = int(spec.get('cpu_s', 20))
        resource.setrlimit(resource.RLIMIT_CPU, (cpu, cpu + 2))
        fs = 64 << 20
        resource.setrlimit(resource.RLIMIT_FSIZE, (fs, fs))
        try:
            resource.setrlimit(resource.RLIMIT_AS, (3 << 30, 3 << 30))
        except (ValueError, OSError):
            pass
        signal.signal(signal.SIGALRM, signal.SIG_DFL)
        signal.alarm(int(spec.get('wall_s', 60)))
        import faulthandler
        faulthandler.enable(file=sys.stderr)

        # earlier runs in the same directory and environment (e.g. the same paths holding other contents): each in a child of
        # its own; afterwards the listed files get their final contents back, with the time stamps they had
        for step in spec.get('before') or []:
            for rel, text in (step.get('files') or {}).items():
                with open(os.path.join(d, rel), 'w') as f_:
                    f_.write(text)
            pid_ = os.fork()
            if pid_ == 0:
                try:
                    sys.argv = ['bespokeasm'] + [a.replace('{SCRATCH}', d) for a in step['argv']]
                    import bespokeasm.__main__ as bm0
                    bm0.entry_point()
                except BaseException:
                    pass
                finally:
                    os._exit(0)
            os.waitpid(pid_, 0)
            for rel in step.get('remove_after') or []:
                try:
                    os.remove(os.path.join(d, rel))
                except OSError:
                    pass
            for rel in (step.get('files') or {}):
                st_ = os.stat(os.path.join(d, rel))
                with open(os.path.join(d, rel), 'w') as f_:
                    f_.write(spec['files'][rel])
                os.utime(os.path.join(d, rel), ns=(st_.st_atime_ns, st_.st_mtime_ns))

        from vf import probes
        probe_state = probes.install(spec, d)

        mode = spec.get('mode', 'cli')
        try:
            if mode == 'cli':
                sys.argv = ['bespokeasm'] + [a.replace('{SCRATCH}', d) for a in spec['argv']]
                import bespokeasm.__main__ as bm
                bm.entry_point()
                status = 0
            else:
                from vf import childmodes
                status = childmodes.MODES[mode](spec, d, probe_state)
        except SystemExit as e:
            c = e.code
            if c is None:
                status = 0
            elif isinstance(c, int):
                status = c & 0xFF
            else:
                try:
                    sys.stderr.write(str(c) + '\n')
                except Exception:
                    pass
                status = 1
        except BaseException:
            traceback.print_exc()
            status = 1
    except BaseException:
        try:
            traceback.print_exc()
        except Exception:
            pass
        status = HARNESS_EXIT
    finally:
        try:
            sys.stdout.flush()
        except Exception:
            status = status or 120
        try:
            sys.stderr.flush()
        except Exception:
            pass
        try:
            if probe_state is not None:
                from vf import probes
                probes.dump(probe_state, d)
        except BaseException:
            try:
                traceback.print_exc()
                sys.stderr.flush()
            except Exception:
                pass
        os._exit(status)


def _read_text(p):
    try:
        with open(p, 'rb') as f:
            data = f.read(MAX_TEXT + 1)
    except OSError:
        return ''
    t = data[:MAX_TEXT].decode('utf-8', 'backslashreplace')
    if len(data) > MAX_TEXT:
        t += '\n...[truncated]'
    return t


def run_case(spec):
    base = _scratch_base()
    d = tempfile.mkdtemp(prefix='vf_', dir=base)
    out = {}
    try:
        inputs = _write_inputs(d, spec)
        t0 = time.monotonic()
        pid = os.fork()
        if pid == 0:
            _child(d, spec)
        _, st, ru = os.wait4(pid, 0)
        wall = time.monotonic() - t0
        if os.WIFSIGNALED(st):
            sig = os.WTERMSIG(st)
            out['exit'] = -sig
            out['signal'] = sig
            if sig == signal.SIGALRM:
                out['timed_out'] = 'wall'
            elif sig in (signal.SIGXCPU, signal.SIGKILL):
                out['timed_out'] = 'cpu'
            else:
                out['timed_out'] = None
        else:
            out['exit'] = os.WEXITSTATUS(st)
            out['signal'] = None
            out['timed_out'] = 'steps' if out['exit'] == STEP_EXIT else None
        out['cpu_s'] = round(ru.ru_utime + ru.ru_stime, 4)
        out['wall_s'] = round(wall, 4)
        out['stdout'] = _read_text(os.path.join(d, '.stdout'))
        out['stderr'] = _read_text(os.path.join(d, '.stderr'))
        pp = os.path.join(d, '.probe.json')
        if os.path.exists(pp):
            try:
                with open(pp) as f:
                    out['probes'] = json.load(f)
            except Exception as e:   # truncated by a kill
                out['probes'] = {'_error': repr(e)}
        else:
            out['probes'] = {}
        files = {}
        unchanged = []
        want_all = spec.get('collect_all', True)
        for root, dirs, fnames in os.walk(d):
            for fn in fnames:
                p = os.path.join(root, fn)
                rel = os.path.relpath(p, d)
                if rel in ('.stdout', '.stderr', '.probe.json'):
                    continue
                if os.path.islink(p):
                    continue
                try:
                    sz = os.path.getsize(p)
                    if sz > MAX_FILE_BYTES:
                        files[rel] = {'big': sz}
                        continue
                    with open(p, 'rb') as f:
                        data = f.read()
                except OSError:
                    continue
                h = hashlib.sha1(data).hexdigest()
                if inputs.get(rel) == h:
                    unchanged.append(rel)
                    continue
                if want_all or rel in (spec.get('collect') or []):
                    files[rel] = data.hex()
        out['files'] = files
        out['scratch'] = os.path.realpath(d)
        out['unchanged'] = unchanged
        out['missing_inputs'] = [r for r in inputs if not os.path.exists(os.path.join(d, r))]
        post = spec.get('post')
        if post:
            from vf import post as postmod
            try:
                out['post'] = postmod.POST[post](d, spec, out)
            except Exception:
                out['post'] = {'_error': traceback.format_exc()}
    finally:
        shutil.rmtree(d, ignore_errors=True)
    return out


def main():
    # preload everything a run needs so the fork is cheap
    import bespokeasm.__main__  # noqa: F401
    import bespokeasm.assembler.pretty_printer.factory  # noqa: F401
    from vf import probes  # noqa: F401
    from vf import childmodes  # noqa: F401
    proto_out = os.fdopen(os.dup(1), 'w')
    # anything the zygote itself prints must not corrupt the protocol
    os.dup2(2, 1)
    proto_out.write(json.dumps({'ready': True, 'pid': os.getpid(),
                                'repo': os.path.dirname(os.path.dirname(os.path.dirname(os.path.abspath(bespokeasm.__file__)))),
                                'hashseed': os.environ.get('PYTHONHASHSEED')}) + '\n')
    proto_out.flush()
    for line in sys.stdin:
        line = line.strip()
        if not line:
            continue
        spec = json.loads(line)
        try:
            out = run_case(spec)
        except Exception:
            out = {'harness_error': traceback.format_exc()}
        out['id'] = spec.get('id')
        proto_out.write(json.dumps(out) + '\n')
        proto_out.flush()


if __name__ == '__main__':
    import bespokeasm
    main()
